// C17: connection roles and diffusion modes gate what is accepted.
//
// Seam S3: the real ouroboros.Connection (client or server; NtN, NtC, DMQ node-to-client;
// WithFullDuplex on or off; all mini-protocols really started) on one end of a
// scheduler-owned connection; a raw peer on the other end that (a) drives the handshake to
// every version of the family's table with the diffusion flag of its choice (as responder:
// AcceptVersion(v, data); as initiator: ProposeVersions{v: data}) and (b) then sends ONE
// probe segment: for every mini-protocol id of the family and one unknown id, the
// protocol's first legal (client) message once in the request direction (towards a local
// responder) and once in the response direction (towards a local initiator).
//
// Oracle, derived from the property, the version flags (protocol.GetProtocolVersion(v):
// keep-alive, peer-sharing, full-duplex, local-state-query, local-tx-monitor) and the
// diffusion outcome, NOT from setupConnection:
//   initiator side enabled  <=> local is the client, or duplex
//   responder side enabled  <=> local is the server, or duplex
//   duplex                  <=> node-to-node AND local WithFullDuplex AND the peer advertised
//                               initiator-and-responder AND the version supports full duplex
//   (T) the mini-protocol objects that exist and are started are exactly: the family's
//       protocols enabled by the version's flags, client side iff initiator enabled (the
//       keep-alive client only WithKeepAlive), server side iff responder enabled; the muxer
//       enforces the matching diffusion mode;
//   (G) a probe in a direction whose side is not enabled, or for a protocol that is not
//       enabled / unknown: no local protocol instance changes state, an error is reported
//       and the connection closes by itself;
//   (R) a request probe for an enabled protocol on an enabled responder side reaches that
//       protocol's server (its state machine leaves the initial state, or it answers / fails
//       on the wire in its own name) and no other instance moves; a response-direction probe
//       for an enabled protocol on an enabled initiator side is routed to that protocol's
//       client (never rejected by the muxer as a direction / unknown-protocol error).
package c17

import (
	"fmt"
	"sort"
	"strings"
	"testing"
	"time"

	ouroboros "github.com/blinklabs-io/gouroboros"
	"github.com/blinklabs-io/gouroboros/protocol"
	"github.com/blinklabs-io/gouroboros/protocol/blockfetch"
	"github.com/blinklabs-io/gouroboros/protocol/chainsync"
	"github.com/blinklabs-io/gouroboros/protocol/keepalive"
	pcommon "github.com/blinklabs-io/gouroboros/protocol/common"
	"github.com/blinklabs-io/gouroboros/protocol/txsubmission"
	rt "github.com/blinklabs-io/gouroboros/verifrt"
	vtime "github.com/blinklabs-io/gouroboros/verifrt/vtime"
	"verif/e1/e1lib"
	"verif/e1/protos"
	"verif/e1/s2lib"
	"verif/space"
)

const magic = 764824073

type family int

const (
	famNtN family = iota + 1
	famNtC
	famDMQ
)

var famNames = []string{"none", "ntn", "ntc", "dmq"}

func table(f family) []uint16 {
	switch f {
	case famNtN:
		return protocol.GetProtocolVersionsNtN()
	case famNtC:
		return protocol.GetProtocolVersionsNtC()
	}
	return protocol.GetProtocolVersionsDMQNtC()
}

// ---- the mini-protocols of a family (ids from the network specification / CIP-0137; the
// Leios ids are the repository's own) and their first legal message (from the catalogue) ----

type mini struct {
	name string
	id   uint16
	req  []byte // first legal client message
	done []byte // the client's Done message where it is legal in the initial state (nil otherwise)
	resp []byte // the first server message that is legal after req
	// enabled reports whether version flags enable the protocol
	enabled func(pv protocol.ProtocolVersion) bool
}

var specIds = map[string]uint16{"chain-sync/NtN": 2, "block-fetch/NtN": 3, "tx-submission/NtN": 4, "keep-alive/NtN": 8, "peer-sharing/NtN": 10,
	"chain-sync/NtC": 5, "local-tx-submission/NtC": 6, "local-state-query/NtC": 7, "local-tx-monitor/NtC": 9,
	"local-message-submission/NtC": 14, "local-message-notification/NtC": 15}

func always(protocol.ProtocolVersion) bool { return true }

func minis(f family) []mini {
	type e struct {
		fam     string
		enabled func(protocol.ProtocolVersion) bool
	}
	var l []e
	switch f {
	case famNtN:
		l = []e{{"chain-sync/NtN", always}, {"block-fetch/NtN", always}, {"tx-submission/NtN", always},
			{"keep-alive/NtN", func(pv protocol.ProtocolVersion) bool { return pv.EnableKeepAliveProtocol }},
			{"peer-sharing/NtN", func(pv protocol.ProtocolVersion) bool { return pv.EnablePeerSharingProtocol }},
			{"leios-notify/NtN", always}, {"leios-fetch/NtN", always}, {"leios-votes/NtN", always}}
	case famNtC:
		l = []e{{"chain-sync/NtC", always}, {"local-tx-submission/NtC", always},
			{"local-state-query/NtC", func(pv protocol.ProtocolVersion) bool { return pv.EnableLocalQueryProtocol }},
			{"local-tx-monitor/NtC", func(pv protocol.ProtocolVersion) bool { return pv.EnableLocalTxMonitorProtocol }}}
	default:
		l = []e{{"local-message-submission/NtC", always}, {"local-message-notification/NtC", always}}
	}
	var out []mini
	for _, x := range l {
		p := protos.Build(x.fam + "/client")
		if p == nil {
			panic("catalogue has no " + x.fam)
		}
		if want, ok := specIds[x.fam]; ok && want != p.Config.ProtocolId {
			panic(fmt.Sprintf("%s has protocol id %d, the specification says %d", x.fam, p.Config.ProtocolId, want))
		}
		// the first legal client message; where the protocol has a blocking and a non-blocking
		// variant of it, the non-blocking one (a blocking request parks the server's handler)
		var req []byte
		for _, pass := range []bool{true, false} {
			for _, m := range p.Alphabet {
				if m.Unknown || !m.FromClient || req != nil || pass && !strings.Contains(m.Label, "non-blocking") {
					continue
				}
				if _, _, err := p.Step(p.Initial(), m.Msg); err == nil {
					req, _ = protos.Encode(m.Msg)
				}
			}
		}
		if req == nil {
			panic("no first message for " + x.fam)
		}
		var done []byte
		for _, m := range p.Alphabet {
			if m.Unknown || !m.FromClient || done != nil || !strings.Contains(m.Label, "Done") {
				continue
			}
			if _, _, err := p.Step(p.Initial(), m.Msg); err == nil {
				done, _ = protos.Encode(m.Msg)
			}
		}
		var resp []byte
		for _, m := range p.Alphabet {
			if m.Unknown || !m.FromClient || resp != nil {
				continue
			}
			if s1, _, err := p.Step(p.Initial(), m.Msg); err == nil {
				if b, _ := protos.Encode(m.Msg); string(b) != string(req) {
					continue
				}
				for _, r := range p.Alphabet {
					if r.Unknown || r.FromClient || resp != nil {
						continue
					}
					if _, _, err := p.Step(s1, r.Msg); err == nil {
						resp, _ = protos.Encode(r.Msg)
					}
				}
			}
		}
		out = append(out, mini{name: strings.SplitN(x.fam, "/", 2)[0], id: p.Config.ProtocolId, req: req, done: done, resp: resp, enabled: x.enabled})
	}
	return out
}

// ---- one case ----

type kase struct {
	fam      family
	server   bool // local role
	lfd, pfd bool // full duplex requested locally / advertised by the peer
	ka       bool // WithKeepAlive
	v        uint16
	probe    string // mini-protocol name or "unknown"
	probeID  uint16
	payload  []byte
	response bool // probe direction: towards a local initiator
	// seq: a multi-step sequence on a full-duplex connection before the probe is sent:
	//  "stop-client": the local client role of the probed protocol is stopped, then the peer
	//                 sends the request probe to the still-running local server role;
	//  "stop-server": the local server role is stopped, then the response-direction probe;
	//  "peer-done":   the peer's client sends Done (the local server role finishes / restarts),
	//                 then the response-direction probe to the still-running local client role.
	seq  string
	done []byte
}

func (k kase) String() string {
	role, dir := "client", "request"
	if k.server {
		role = "server"
	}
	if k.response {
		dir = "response"
	}
	seq := ""
	if k.seq != "" {
		seq = " after " + k.seq
	}
	return fmt.Sprintf("%s %s lfd=%v pfd=%v keepalive=%v v=%d probe=%s(%d)/%s%s", famNames[k.fam], role, k.lfd, k.pfd, k.ka, k.v, k.probe, k.probeID, dir, seq)
}

// the peer's version data for version v (shape by the specification)
func peerData(f family, v uint16, pfd bool) *space.Node {
	m, io := space.U(magic), space.Bool(!pfd)
	switch f {
	case famNtN:
		if v >= 11 {
			return space.A(m, io, space.U(0), space.Bool(false))
		}
		return space.A(m, io)
	case famNtC:
		if v&0x7fff >= 15 {
			return space.A(m, space.Bool(false))
		}
		return m
	}
	return space.A(m, space.Bool(false))
}

type inst struct {
	name   string
	client bool
	p      *protocol.Protocol
}

// every mini-protocol instance a Connection holds (nil ones omitted)
func instances(c *ouroboros.Connection) []inst {
	var out []inst
	add := func(name string, client bool, p *protocol.Protocol) {
		if p != nil {
			out = append(out, inst{name, client, p})
		}
	}
	if x := c.ChainSync(); x != nil {
		add("chain-sync", true, x.Client.ProtocolInstance())
		add("chain-sync", false, x.Server.ProtocolInstance())
	}
	if x := c.BlockFetch(); x != nil {
		add("block-fetch", true, x.Client.ProtocolInstance())
		add("block-fetch", false, x.Server.ProtocolInstance())
	}
	if x := c.TxSubmission(); x != nil {
		add("tx-submission", true, x.Client.ProtocolInstance())
		add("tx-submission", false, x.Server.ProtocolInstance())
	}
	if x := c.KeepAlive(); x != nil {
		add("keep-alive", true, x.Client.Protocol)
		add("keep-alive", false, x.Server.Protocol)
	}
	if x := c.PeerSharing(); x != nil {
		add("peer-sharing", true, x.Client.Protocol)
		add("peer-sharing", false, x.Server.ProtocolInstance())
	}
	if x := c.LeiosNotify(); x != nil {
		add("leios-notify", true, x.Client.Protocol)
		add("leios-notify", false, x.Server.ProtocolInstance())
	}
	if x := c.LeiosFetch(); x != nil {
		add("leios-fetch", true, x.Client.Protocol)
		add("leios-fetch", false, x.Server.ProtocolInstance())
	}
	if x := c.LeiosVotes(); x != nil {
		add("leios-votes", true, x.Client.Protocol)
		add("leios-votes", false, x.Server.ProtocolInstance())
	}
	if x := c.LocalTxSubmission(); x != nil {
		add("local-tx-submission", true, x.Client.Protocol)
		add("local-tx-submission", false, x.Server.Protocol)
	}
	if x := c.LocalStateQuery(); x != nil {
		add("local-state-query", true, x.Client.Protocol)
		add("local-state-query", false, x.Server.Protocol)
	}
	if x := c.LocalTxMonitor(); x != nil {
		add("local-tx-monitor", true, x.Client.Protocol)
		add("local-tx-monitor", false, x.Server.Protocol)
	}
	if x := c.LocalMessageSubmission(); x != nil {
		add("local-message-submission", true, x.Client.Protocol)
		add("local-message-submission", false, x.Server.Protocol)
	}
	if x := c.LocalMessageNotification(); x != nil {
		add("local-message-notification", true, x.Client.Protocol)
		add("local-message-notification", false, x.Server.Protocol)
	}
	return out
}

// stopInstance stops one role of one mini-protocol the way an application does: through
// the client object's Stop where it has one, otherwise through the protocol's Stop.
func stopInstance(c *ouroboros.Connection, name string, client bool) {
	if client {
		switch name {
		case "chain-sync":
			_ = c.ChainSync().Client.Stop()
			return
		case "block-fetch":
			_ = c.BlockFetch().Client.Stop()
			return
		case "tx-submission":
			_ = c.TxSubmission().Client.Stop()
			return
		}
	}
	for _, in := range instances(c) {
		if in.name == name && in.client == client {
			in.p.Stop()
		}
	}
}

func roleName(client bool) string {
	if client {
		return "client"
	}
	return "server"
}

// snapshot: "name/role=started:state" for every instance, sorted
func snapshot(c *ouroboros.Connection) string {
	var p []string
	for _, in := range instances(c) {
		st := "-"
		if in.p.VerifStarted() {
			st = in.p.VerifCurrentState().Name
			if in.p.VerifCurrentState() == in.p.VerifInitialState() {
				st = "initial"
			}
		}
		p = append(p, fmt.Sprintf("%s/%s=%s", in.name, roleName(in.client), st))
	}
	sort.Strings(p)
	return strings.Join(p, " ")
}

func runCase(i int, k kase) {
	a, b := rt.ConnPair("local", "peer")
	peerDone := make(chan struct{})
	probe := s2lib.Segment(k.probeID, k.response, k.payload)
	rt.Go("peer", func() {
		first := true
		if k.server {
			// raw initiator: propose exactly version v
			prop := space.A(space.U(0), space.M(space.U(uint64(k.v)), peerData(k.fam, k.v, k.pfd))).Encode()
			_, _ = b.Write(s2lib.Segment(0, false, prop))
		}
		_ = s2lib.WireReader(b, nil, func(id uint16, msg []byte) {
			if first {
				first = false
				if !k.server {
					// raw responder: accept version v, then the probe
					acc := space.A(space.U(1), space.U(uint64(k.v)), peerData(k.fam, k.v, k.pfd)).Encode()
					_, _ = b.Write(s2lib.Segment(0, true, acc))
				}
				if k.seq == "" {
					_, _ = b.Write(probe)
				}
				return
			}
			dir := "request"
			if id&0x8000 != 0 {
				dir = "response"
			}
			n, _ := space.Parse(msg)
			typ := -1
			if n != nil && n.IsArray() && n.Len() > 0 {
				if t, ok := n.Items[0].Uint(); ok {
					typ = int(t)
				}
			}
			rt.Log("case %d wire id=%d %s type=%d", i, id&0x7fff, dir, typ)
		})
		_ = b.Close()
		rt.Close("h:peerDone", peerDone)
	})
	opts := []ouroboros.ConnectionOptionFunc{ouroboros.WithConnection(a), ouroboros.WithNetworkMagic(magic),
		ouroboros.WithServer(k.server), ouroboros.WithFullDuplex(k.lfd), ouroboros.WithKeepAlive(k.ka)}
	switch k.fam {
	case famNtN:
		opts = append(opts, ouroboros.WithNodeToNode(true))
	case famDMQ:
		opts = append(opts, ouroboros.WithDMQ(true))
	}
	if k.seq != "" {
		// servers that can take the first request without a "no callback" error
		bfCfg, _ := blockfetch.NewConfig(blockfetch.WithRequestRangeFunc(func(blockfetch.CallbackContext, pcommon.Point, pcommon.Point) error { return nil }))
		opts = append(opts,
			ouroboros.WithChainSyncConfig(chainsync.NewConfig(
				chainsync.WithFindIntersectFunc(func(_ chainsync.CallbackContext, pts []pcommon.Point) (pcommon.Point, chainsync.Tip, error) {
					t := chainsync.Tip{Point: pcommon.NewPoint(1234, []byte{0xde, 0xad, 0xbe, 0xef}), BlockNumber: 42}
					return t.Point, t, nil
				}),
				chainsync.WithRequestNextFunc(func(chainsync.CallbackContext) error { return nil }))),
			ouroboros.WithBlockFetchConfig(bfCfg),
			ouroboros.WithKeepAliveConfig(keepalive.NewConfig(keepalive.WithCookie(4711))),
			ouroboros.WithTxSubmissionConfig(txsubmission.NewConfig(txsubmission.WithInitFunc(func(txsubmission.CallbackContext) error { return nil }))))
	}
	c, err := ouroboros.NewConnection(opts...)
	if err != nil {
		rt.Log("case %d handshake err %v", i, err)
		_ = a.Close()
		rt.Recv("h:peerDone?", peerDone)
		return
	}
	v, _ := c.ProtocolVersion()
	// NewConnection has returned: the table is final; the muxer may already have routed the probe
	rt.Log("case %d up v=%d mux=%d", i, v, c.Muxer().VerifDiffusionMode())
	started := []string{}
	for _, in := range instances(c) {
		if in.p.VerifStarted() {
			started = append(started, in.name+"/"+roleName(in.client))
		}
	}
	sort.Strings(started)
	rt.Log("case %d started %s", i, strings.Join(started, " "))
	errsDone := make(chan struct{})
	rt.Go("errs", func() {
		for e := range rt.Range("h:errs", c.ErrorChan()) {
			rt.Log("case %d error %v", i, e)
		}
		rt.Log("case %d errorchan-closed", i)
		rt.Close("h:errsDone", errsDone)
	})
	if k.seq != "" {
		vtime.Sleep(10 * time.Millisecond)
		switch k.seq {
		case "stop-client":
			stopInstance(c, k.probe, true)
		case "stop-server":
			stopInstance(c, k.probe, false)
		case "peer-done":
			_, _ = b.Write(s2lib.Segment(k.probeID, false, k.done))
		}
		vtime.Sleep(20 * time.Millisecond)
		rt.Log("case %d stepped %s", i, snapshot(c))
		_, _ = b.Write(probe)
	}
	vtime.Sleep(50 * time.Millisecond)
	rt.Log("case %d quiet %s", i, snapshot(c))
	_ = c.Close()
	rt.Recv("h:errsDone?", errsDone)
	rt.Recv("h:peerDone?", peerDone)
}

// ---- scenario + oracle ----

const chunkSize = 8

func scenario(name string, cases []kase, grouped bool) e1lib.Scenario {
	nChunks := (len(cases) + chunkSize - 1) / chunkSize
	rng := func(k int) (int, int) {
		lo, hi := (k-1)*chunkSize, k*chunkSize
		if k == 0 {
			lo, hi = 0, 0
		}
		if hi > len(cases) {
			hi = len(cases)
		}
		return lo, hi
	}
	body := func() {
		lo, hi := 0, len(cases)
		if grouped {
			k := rt.Choice("h:chunk", nChunks+1)
			rt.Log("chunk %d of %d (%d cases in this class)", k, nChunks, len(cases))
			lo, hi = rng(k)
		}
		for i := lo; i < hi; i++ {
			runCase(i, cases[i])
		}
		rt.Log("end")
	}
	check := func(r *rt.Result) []rt.Finding {
		if r.Verdict.Kind != "ok" && !dmqCleanerOnly(r, cases) {
			k := r.Verdict.Kind
			if k == "panic" {
				k += ":" + strings.SplitN(r.Verdict.Detail, "\n", 2)[0]
			}
			return []rt.Finding{{Key: "verdict:" + k, What: r.Verdict.Detail + " " + strings.Join(r.Verdict.Stuck, "; ") + " | " + strings.Join(tailOf(r.Logs, 4), " / ")}}
		}
		lo, hi := 0, len(cases)
		ev := map[int][]string{}
		for _, l := range r.Logs {
			var k, i int
			if n, _ := fmt.Sscanf(l, "chunk %d ", &k); n == 1 {
				lo, hi = rng(k)
				continue
			}
			if n, _ := fmt.Sscanf(l, "case %d ", &i); n == 1 {
				ev[i] = append(ev[i], l[strings.Index(l[5:], " ")+6:])
			}
		}
		byKey := map[string][]string{}
		add := func(key, what string) { byKey[key] = append(byKey[key], what) }
		for i := lo; i < hi; i++ {
			judge(cases[i], ev[i], add)
		}
		var keys []string
		for k := range byKey {
			keys = append(keys, k)
		}
		sort.Strings(keys)
		var out []rt.Finding
		for _, k := range keys {
			w := byKey[k]
			what := fmt.Sprintf("%d reports over the %d cases run (cases %d..%d of %d in this class); first: %s", len(w), hi-lo, lo, hi-1, len(cases), w[0])
			if len(w) > 1 {
				what += "; last: " + w[len(w)-1]
			}
			out = append(out, rt.Finding{Key: k, What: what})
		}
		return out
	}
	return e1lib.Scenario{Name: name, Body: body, Check: check, Cfg: rt.Config{Horizon: 10 * time.Minute, MaxSteps: 20000000}}
}

// judge one case from its observation log
func judge(k kase, ev []string, add func(key, what string)) {
	id := k.String()
	pv := protocol.GetProtocolVersion(k.v)
	duplex := k.fam == famNtN && k.lfd && k.pfd && pv.EnableFullDuplex
	initiator := !k.server || duplex
	responder := k.server || duplex
	var up, started, quiet, stepped string
	var errsBefore, wire []string
	closedBefore, sawQuiet := false, false
	for _, l := range ev {
		switch {
		case strings.HasPrefix(l, "up "):
			up = l[3:]
		case strings.HasPrefix(l, "started"):
			started = strings.TrimSpace(l[7:])
		case strings.HasPrefix(l, "stepped"):
			stepped = strings.TrimSpace(l[7:])
		case strings.HasPrefix(l, "quiet"):
			quiet, sawQuiet = strings.TrimSpace(l[5:]), true
		case strings.HasPrefix(l, "error "):
			if !sawQuiet {
				errsBefore = append(errsBefore, l[6:])
			}
		case l == "errorchan-closed":
			if !sawQuiet {
				closedBefore = true
			}
		case strings.HasPrefix(l, "wire "):
			wire = append(wire, l[5:])
		case strings.HasPrefix(l, "handshake err"):
			add("c17:handshake-failed", id+": "+l)
			return
		}
	}
	if up == "" || !sawQuiet {
		add("c17:no-observation", fmt.Sprintf("%s: %v", id, ev))
		return
	}
	// (T) roles and table
	if want := fmt.Sprintf("v=%d ", k.v); !strings.HasPrefix(up, want) {
		add("c17:version-differs", fmt.Sprintf("%s: connection is up with %s", id, up))
		return
	}
	gotClient, gotServer := false, false
	for _, f := range strings.Fields(started) {
		if strings.HasSuffix(f, "/client") {
			gotClient = true
		}
		if strings.HasSuffix(f, "/server") {
			gotServer = true
		}
	}
	if (gotClient && gotServer) != duplex {
		// one root cause, everything else about the case follows from it
		key := "c17:duplex-differs-from-negotiation"
		if gotClient && gotServer && k.lfd && k.pfd && !pv.EnableFullDuplex {
			key = "c17:duplex-on-version-without-full-duplex" // both sides asked for it, the version does not have it
		}
		add(key, fmt.Sprintf("%s: both roles started = %v, negotiated duplex = %v (local WithFullDuplex=%v, peer advertised initiator-and-responder=%v, version %d supports full duplex=%v); %s; started {%s}",
			id, gotClient && gotServer, duplex, k.lfd, k.pfd, k.v, pv.EnableFullDuplex, up, started))
		return
	}
	var wantStarted []string
	enabled := map[string]bool{}        // by version flags
	clientEnabled := map[string]bool{} // … and configuration (keep-alive client)
	for _, m := range minis(k.fam) {
		if !m.enabled(pv) {
			continue
		}
		enabled[m.name] = true
		clientEnabled[m.name] = m.name != "keep-alive" || k.ka
		if initiator && clientEnabled[m.name] {
			wantStarted = append(wantStarted, m.name+"/client")
		}
		if responder {
			wantStarted = append(wantStarted, m.name+"/server")
		}
	}
	sort.Strings(wantStarted)
	if want := strings.Join(wantStarted, " "); started != want {
		add("c17:started-protocols-differ", fmt.Sprintf("%s: started {%s}, negotiation enables {%s}", id, started, want))
	}
	// which instances moved
	var moved []string
	before := map[string]string{} // sequences: the states after the step, before the probe
	for _, f := range strings.Fields(stepped) {
		nv := strings.SplitN(f, "=", 2)
		before[nv[0]] = nv[1]
	}
	for _, f := range strings.Fields(quiet) {
		nv := strings.SplitN(f, "=", 2)
		if k.ka && nv[0] == "keep-alive/client" {
			continue // WithKeepAlive: this client sends on its own and leaves its initial state by itself
		}
		if k.seq != "" {
			if before[nv[0]] != nv[1] {
				moved = append(moved, f)
			}
			continue
		}
		if nv[1] != "initial" && nv[1] != "-" {
			moved = append(moved, f)
		}
	}
	sideEnabled := responder
	target := k.probe + "/server"
	if k.response {
		sideEnabled = initiator
		target = k.probe + "/client"
	}
	protoEnabled := enabled[k.probe] && (!k.response || clientEnabled[k.probe])
	if !sideEnabled || !protoEnabled {
		// (G) must be rejected: nothing moves, error, closed
		why := "the " + map[bool]string{false: "responder", true: "initiator"}[k.response] + " side is not enabled"
		if sideEnabled {
			why = "protocol " + k.probe + " is not enabled at this version / by this configuration"
		}
		if len(moved) > 0 {
			add("c17:delivered-although-not-enabled", fmt.Sprintf("%s (%s): %v moved", id, why, moved))
		}
		if len(errsBefore) == 0 || !closedBefore {
			add("c17:no-error-close-on-disabled-direction", fmt.Sprintf("%s (%s): errors %v, closed by itself %v", id, why, errsBefore, closedBefore))
		}
		return
	}
	// (R) enabled: reaches exactly the target instance
	for _, m := range moved {
		if !strings.HasPrefix(m, target+"=") {
			add("c17:wrong-instance-moved", fmt.Sprintf("%s: %s moved, the probe was for %s", id, m, target))
		}
	}
	for _, e := range errsBefore {
		if strings.HasPrefix(e, "muxer error:") {
			add("c17:enabled-protocol-rejected-by-muxer", fmt.Sprintf("%s: %s", id, e))
		}
	}
	if !k.response {
		reached := false
		for _, m := range moved {
			if strings.HasPrefix(m, target+"=") {
				reached = true
			}
		}
		for _, w := range wire {
			if strings.HasPrefix(w, fmt.Sprintf("id=%d response", k.probeID)) {
				reached = true // it answered
			}
		}
		for _, e := range errsBefore {
			if strings.HasPrefix(e, "protocol error:") {
				reached = true // its handler ran and failed in its own name (no callback configured)
			}
		}
		if !reached {
			add("c17:enabled-responder-not-reached", fmt.Sprintf("%s: quiet {%s} wire %v errors %v", id, quiet, wire, errsBefore))
		}
	}
	if k.seq != "" {
		// stopping / finishing ONE role of a mini-protocol must leave the other role of the same
		// protocol id running and reachable: no error, the connection stays up (the servers of
		// chain-sync, block-fetch, tx-submission and keep-alive take their first request
		// without a callback error in these cases)
		configured := map[string]bool{"chain-sync": true, "block-fetch": true, "tx-submission": true, "keep-alive": true}
		if (k.response || configured[k.probe]) && (len(errsBefore) > 0 || closedBefore) {
			add("c17:other-role-lost-after-one-role-stopped", fmt.Sprintf("%s: errors %v, closed by itself %v; after the step {%s}; at the end {%s}", id, errsBefore, closedBefore, stepped, quiet))
		}
	}
}

func dmqCleanerOnly(r *rt.Result, cases []kase) bool {
	if r.Verdict.Kind != "horizon" || len(r.Verdict.Stuck) == 0 || len(r.Logs) == 0 || r.Logs[len(r.Logs)-1] != "end" {
		return false
	}
	dmq := 0
	for _, k := range cases {
		if k.fam == famDMQ {
			dmq++
		}
	}
	if len(r.Verdict.Stuck) > dmq {
		return false
	}
	for _, s := range r.Verdict.Stuck {
		if !strings.Contains(s, "blocked in select at server.go:") {
			return false
		}
	}
	return true
}

func tailOf(s []string, n int) []string {
	if len(s) > n {
		return s[len(s)-n:]
	}
	return s
}

// versions: thorough = the whole table; quick = the versions at which a flag of the version
// table changes (and their predecessors), plus the first and the last
func versions(f family, thorough bool) []uint16 {
	l := table(f)
	if thorough {
		return l
	}
	sig := func(v uint16) string {
		pv := protocol.GetProtocolVersion(v)
		return fmt.Sprint(pv.EnableKeepAliveProtocol, pv.EnableFullDuplex, pv.EnablePeerSharingProtocol, pv.PeerSharingUseV11, pv.EnableLocalQueryProtocol, pv.EnableLocalTxMonitorProtocol, v&0x7fff >= 15)
	}
	var out []uint16
	for i, v := range l {
		if i == 0 || i == len(l)-1 || sig(l[i-1]) != sig(v) || sig(l[i+1]) != sig(v) {
			out = append(out, v)
		}
	}
	return out
}

func gen(thorough bool) []e1lib.Scenario {
	groups := map[string][]kase{}
	var order []string
	add := func(name string, k kase) {
		if _, ok := groups[name]; !ok {
			order = append(order, name)
		}
		groups[name] = append(groups[name], k)
	}
	bools := []bool{false, true}
	for _, f := range []family{famNtN, famNtC, famDMQ} {
		ms := minis(f)
		for _, server := range bools {
			for _, lfd := range bools {
				for _, pfd := range bools {
					if f != famNtN && pfd {
						continue // node-to-client version data carries no diffusion flag
					}
					for _, v := range versions(f, thorough) {
						for _, ka := range bools {
							if ka && f != famNtN {
								continue // keep-alive is a node-to-node protocol
							}
							if ka && !thorough && v != 10 && v != table(f)[len(table(f))-1] {
								continue // quick: WithKeepAlive at the first full-duplex version and the newest only
							}
							for _, resp := range bools {
								for _, m := range append(ms, mini{name: "unknown", id: 999, req: []byte{0x81, 0x00}}) {
									k := kase{fam: f, server: server, lfd: lfd, pfd: pfd, ka: ka, v: v, probe: m.name, probeID: m.id, payload: m.req, response: resp}
									add(fmt.Sprintf("%s|%s|lfd=%v|pfd=%v", famNames[f], roleName(!server), lfd, pfd), k)
								}
							}
						}
					}
				}
			}
		}
	}
	// sequences on negotiated full-duplex node-to-node connections (both roles of every
	// protocol id registered): one role of a protocol goes away, then the other is probed
	{
		ms := minis(famNtN)
		for _, server := range bools {
			for _, v := range versions(famNtN, thorough) {
				pv := protocol.GetProtocolVersion(v)
				if !pv.EnableFullDuplex {
					continue
				}
				for _, m := range ms {
					if !m.enabled(pv) {
						continue
					}
					base := kase{fam: famNtN, server: server, lfd: true, pfd: true, ka: m.name == "keep-alive", v: v, probe: m.name, probeID: m.id, payload: m.req, done: m.done}
					for _, seq := range []string{"stop-client", "stop-server", "peer-done"} {
						k := base
						k.seq = seq
						k.response = seq != "stop-client"
						if k.response && m.name == "keep-alive" {
							// WithKeepAlive: the local client has sent KeepAlive(4711) and awaits
							// the reply, so the response-direction probe is that reply
							if m.resp == nil {
								panic("no keep-alive response in the catalogue")
							}
							k.payload = m.resp
						}
						if seq == "peer-done" && m.done == nil {
							continue
						}
						add("seq|ntn|"+roleName(!server), k)
					}
				}
			}
		}
	}
	var scs []e1lib.Scenario
	for _, name := range order {
		s := scenario(name, groups[name], true)
		s.MinB, s.MaxB, s.Budget = 1, 1, 900*time.Second
		scs = append(scs, s)
	}
	// all schedules with <= 1 deviation for structurally different single cases
	pick := func(f family, server, lfd, pfd bool, v uint16, probe string, resp bool) (kase, bool) {
		for _, k := range groups[fmt.Sprintf("%s|%s|lfd=%v|pfd=%v", famNames[f], roleName(!server), lfd, pfd)] {
			if k.v == v && k.probe == probe && k.response == resp && !k.ka {
				return k, true
			}
		}
		return kase{}, false
	}
	type rep struct {
		f                family
		server, lfd, pfd bool
		v                uint16
		probe            string
		resp             bool
		quick            bool
	}
	ntcTop, ntnTop := table(famNtC)[len(table(famNtC))-1], table(famNtN)[len(table(famNtN))-1]
	for _, r := range []rep{
		{famNtC, false, false, false, ntcTop, "chain-sync", false, true},       // initiator-only gets a request
		{famNtC, true, false, false, ntcTop, "chain-sync", true, false},        // responder-only gets a response
		{famNtC, true, false, false, ntcTop, "local-tx-monitor", false, true},  // enabled responder is reached
		{famNtC, false, false, false, ntcTop, "local-state-query", true, false}, // enabled initiator is routed
		{famNtN, false, false, false, ntnTop, "chain-sync", false, false},
		{famNtN, true, false, false, ntnTop, "block-fetch", true, false},
		{famNtN, false, true, true, ntnTop, "keep-alive", false, false}, // duplex: the client's responder answers
		{famNtN, true, true, true, ntnTop, "tx-submission", true, false},  // duplex: the server's initiator is routed
		{famNtN, true, true, false, ntnTop, "unknown", false, false},
	} {
		if !thorough && !r.quick {
			continue
		}
		k, ok := pick(r.f, r.server, r.lfd, r.pfd, r.v, r.probe, r.resp)
		if !ok {
			panic("no representative")
		}
		dir := "request"
		if r.resp {
			dir = "response"
		}
		s := scenario(fmt.Sprintf("sched|%s|%s|lfd=%v|pfd=%v|v=%d|%s/%s", famNames[r.f], roleName(!r.server), r.lfd, r.pfd, r.v, r.probe, dir), []kase{k}, false)
		s.MinB, s.MaxB, s.Budget = 1, 1, 600*time.Second
		if !thorough {
			s.MinB, s.Budget = 0, 45*time.Second
		}
		scs = append(scs, s)
	}
	if thorough {
		for _, k := range groups["seq|ntn|client"] {
			if k.v == ntnTop && k.probe == "chain-sync" && k.seq == "stop-client" {
				s := scenario(fmt.Sprintf("sched|seq|ntn|client|v=%d|chain-sync/stop-client", k.v), []kase{k}, false)
				s.MinB, s.MaxB, s.Budget = 1, 1, 900*time.Second
				scs = append(scs, s)
			}
		}
	}
	return scs
}

func TestC17(t *testing.T) { e1lib.Main(t, "C17", gen) }
