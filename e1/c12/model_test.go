package c12

// The executable pipelined-protocol model of C12. It is written from the property
// statement and the specification automaton (protos.SpecAutomaton, transcribed from
// DESIGN.md Appendix A) and uses nothing of the implementation's state map or engine:
//
//   - A pipelined conversation is equivalent to the sequential conversation in which every
//     queued message is sent when the sender next holds agency: the reference run of a
//     queue order is the sequential interpretation of the automaton.
//   - The peer is a conforming responder: whenever it holds agency it sends the first
//     (policy "first") or last (policy "last") reply of the alphabet the automaton permits
//     that it has not yet used in the current turn (so block-fetch answers StartBatch, Block,
//     BatchDone and chain-sync answers AwaitReply, RollForward under "first").

import (
	"fmt"
	"strings"

	"github.com/blinklabs-io/gouroboros/protocol"
	"github.com/blinklabs-io/gouroboros/protocol/blockfetch"
	"verif/e1/protos"
)

type model struct {
	id            string
	spec          *protos.SpecAutomaton
	alpha         []protos.Msg
	enc           [][]byte          // wire bytes of every alphabet letter
	byBytes       map[string]string // wire bytes -> label
	localIsClient bool
	last          bool         // responder policy
	hidden        map[int]bool // letters used only by hand-picked histories (large blocks), not by the enumerations
}

// bigSizes are the encoded sizes of the large Block letters of the block-fetch server
// (around one and two maximal segment payloads of 65535 bytes).
var bigSizes = []int{65533, 65534, 65535, 65536, 131068, 131070}

// sizedBlock returns a block-fetch Block message whose encoding is exactly n bytes long.
func sizedBlock(n int) protocol.Message {
	for l := n - 16; l < n; l++ {
		body := make([]byte, l)
		for i := range body {
			body[i] = byte(i*13 + n)
		}
		msg := blockfetch.NewMsgBlock(body)
		if b, err := protos.Encode(msg); err == nil && len(b) == n {
			return msg
		}
	}
	panic(fmt.Sprintf("c12: no Block of %d bytes", n))
}

func newModel(p *protos.Proto, localIsClient, last bool) *model {
	m := &model{id: p.ID(), spec: p.Spec, alpha: append([]protos.Msg(nil), p.Alphabet...), byBytes: map[string]string{}, localIsClient: localIsClient, last: last, hidden: map[int]bool{}}
	if p.Name == "block-fetch" && !localIsClient {
		// a streaming server sends blocks of different contents: a second Block letter whose
		// encoding has the length of the first and different bytes
		for _, a := range p.Alphabet {
			if a.Label == "Block" {
				m.alpha = append(m.alpha, protos.Msg{Label: "Block{2}", Spec: "Block", FromClient: false,
					Msg: blockfetch.NewMsgBlock([]byte{0x82, 0x82, 0x05, 0x06, 0x07})})
			}
		}
		for _, n := range bigSizes {
			m.hidden[len(m.alpha)] = true
			m.alpha = append(m.alpha, protos.Msg{Label: fmt.Sprintf("Block{%d}", n), Spec: "Block", FromClient: false, Msg: sizedBlock(n)})
		}
	}
	for _, a := range m.alpha {
		b, err := protos.Encode(a.Msg)
		if err != nil {
			panic(fmt.Sprintf("c12: cannot encode %s/%s: %v", p.ID(), a.Label, err))
		}
		b = append([]byte(nil), b...)
		m.enc = append(m.enc, b)
		if _, dup := m.byBytes[string(b)]; !dup {
			m.byBytes[string(b)] = a.Label
		}
	}
	return m
}

func (m *model) local() protos.Agency {
	if m.localIsClient {
		return protos.Client
	}
	return protos.Server
}

func (m *model) label(b []byte) string {
	if l, ok := m.byBytes[string(b)]; ok {
		return l
	}
	if len(b) > 24 {
		return fmt.Sprintf("?%x..(%d-bytes)", b[:24], len(b))
	}
	return fmt.Sprintf("?%x", b)
}

// index of the letter with this label, -1 if none
func (m *model) letter(label string) int {
	for i, a := range m.alpha {
		if a.Label == label {
			return i
		}
	}
	return -1
}

// localLetters: what the local side can legitimately put into SendMessage.
func (m *model) localLetters() []int {
	var out []int
	for i, a := range m.alpha {
		if !a.Unknown && a.FromClient == m.localIsClient && !m.hidden[i] {
			out = append(out, i)
		}
	}
	return out
}

// responder is the peer's copy of the automaton.
type responder struct {
	m     *model
	state string
	used  map[int]bool
	dead  bool // it saw something its automaton rejects: it stops answering
}

func (m *model) newResponder() *responder {
	return &responder{m: m, state: m.spec.Initial, used: map[int]bool{}}
}

// next returns the letter the responder sends now (-1: it does not hold agency).
func (r *responder) next() int {
	if r.dead {
		return -1
	}
	ag := r.m.spec.AgencyOf(r.state)
	if ag == protos.Nobody || ag == r.m.local() {
		return -1
	}
	pick := -1
	fallback := -1
	n := len(r.m.alpha)
	for j := 0; j < n; j++ {
		i := j
		if r.m.last {
			i = n - 1 - j
		}
		a := r.m.alpha[i]
		if a.Unknown || a.FromClient == r.m.localIsClient {
			continue
		}
		if _, ok, _ := r.m.spec.Step(r.state, a.Spec); !ok {
			continue
		}
		if fallback < 0 {
			fallback = i
		}
		if !r.used[i] {
			pick = i
			break
		}
	}
	if pick < 0 {
		pick = fallback
	}
	return pick
}

// sent records that the responder sent letter i.
func (r *responder) sent(i int) {
	nx, _, _ := r.m.spec.Step(r.state, r.m.alpha[i].Spec)
	r.state = nx
	r.used[i] = true
}

// receive steps the automaton on a message of the local side; false = rejected.
func (r *responder) receive(label string) bool {
	if r.dead {
		return false
	}
	i := r.m.letter(label)
	if i < 0 || r.m.alpha[i].Unknown || r.m.spec.AgencyOf(r.state) != r.m.local() {
		r.dead = true
		return false
	}
	nx, ok, _ := r.m.spec.Step(r.state, r.m.alpha[i].Spec)
	if !ok {
		r.dead = true
		return false
	}
	r.state = nx
	r.used = map[int]bool{}
	return true
}

// event of the reference run.
type event struct {
	send  bool
	slot  int    // send: index into the queue order
	label string // message label
}

func (e event) String() string {
	if e.send {
		return fmt.Sprintf("send#%d:%s", e.slot, e.label)
	}
	return "recv:" + e.label
}

type refRun struct {
	events     []event
	badAt      int   // index of the first queued message that is not permitted when its turn comes (-1: conforming)
	badInDone  bool  // ... because the conversation has already terminated
	recvBefore []int // number of receive events before the send of queue element k (only for k < badAt or all)
	final      string
}

// run is the sequential interpretation of queue (alphabet indices in queue order).
func (m *model) run(queue []int) refRun {
	rr := refRun{badAt: -1}
	r := m.newResponder()
	i, recvs := 0, 0
	for steps := 0; steps < 200; steps++ {
		ag := m.spec.AgencyOf(r.state)
		if ag == protos.Nobody {
			if i < len(queue) {
				rr.badAt, rr.badInDone = i, true
			}
			break
		}
		if ag == m.local() {
			if i == len(queue) {
				break
			}
			a := m.alpha[queue[i]]
			ok := !a.Unknown && a.FromClient == m.localIsClient
			if ok {
				_, ok, _ = m.spec.Step(r.state, a.Spec)
			}
			if !ok {
				rr.badAt = i
				break
			}
			rr.recvBefore = append(rr.recvBefore, recvs)
			rr.events = append(rr.events, event{send: true, slot: i, label: a.Label})
			r.receive(a.Label)
			i++
			continue
		}
		k := r.next()
		if k < 0 {
			panic("c12 model: peer holds agency and has no permitted message in " + r.state)
		}
		r.sent(k)
		rr.events = append(rr.events, event{label: m.alpha[k].Label})
		recvs++
	}
	rr.final = r.state
	return rr
}

// recvLabels of a run.
func (rr refRun) recvLabels() []string {
	var out []string
	for _, e := range rr.events {
		if !e.send {
			out = append(out, e.label)
		}
	}
	return out
}

func evString(es []event) string {
	s := make([]string, len(es))
	for i, e := range es {
		s[i] = e.String()
	}
	return strings.Join(s, " ")
}

// conforming enumerates every conforming queue of length 1..maxLen over the local letters.
func (m *model) conforming(maxLen int) [][]int {
	var out [][]int
	letters := m.localLetters()
	var rec func(cur []int)
	rec = func(cur []int) {
		if len(cur) > 0 {
			out = append(out, append([]int(nil), cur...))
		}
		if len(cur) == maxLen {
			return
		}
		for _, l := range letters {
			nx := append(append([]int(nil), cur...), l)
			if m.run(nx).badAt < 0 {
				rec(nx)
			}
		}
	}
	rec(nil)
	return out
}

// illegalAfter lists every alphabet letter (either direction, and the unknown type) that is
// NOT permitted as the next queued message after the conforming queue prefix.
func (m *model) illegalAfter(prefix []int) []int {
	var out []int
	for i := range m.alpha {
		if m.hidden[i] {
			continue
		}
		q := append(append([]int(nil), prefix...), i)
		if m.run(q).badAt == len(prefix) {
			out = append(out, i)
		}
	}
	return out
}

// interleavings of two sequences (as sequences of owner ids 0/1).
func interleavings(n0, n1 int) [][]int {
	var out [][]int
	var rec func(cur []int, a, b int)
	rec = func(cur []int, a, b int) {
		if a == n0 && b == n1 {
			out = append(out, append([]int(nil), cur...))
			return
		}
		if a < n0 {
			rec(append(cur, 0), a+1, b)
		}
		if b < n1 {
			rec(append(cur, 1), a, b+1)
		}
	}
	rec(nil, 0, 0)
	return out
}

// racePairs enumerates unordered pairs of non-empty call sequences (total length <= maxLen)
// every interleaving of which is a conforming queue.
func (m *model) racePairs(maxLen int) [][2][]int {
	var seqs [][]int
	letters := m.localLetters()
	var rec func(cur []int)
	rec = func(cur []int) {
		if len(cur) > 0 {
			seqs = append(seqs, append([]int(nil), cur...))
		}
		if len(cur) == maxLen-1 {
			return
		}
		for _, l := range letters {
			rec(append(append([]int(nil), cur...), l))
		}
	}
	rec(nil)
	var out [][2][]int
	for i, s0 := range seqs {
		for j, s1 := range seqs {
			if j < i || len(s0)+len(s1) > maxLen {
				continue
			}
			ok := true
			for _, il := range interleavings(len(s0), len(s1)) {
				var q []int
				a, b := 0, 0
				for _, o := range il {
					if o == 0 {
						q = append(q, s0[a])
						a++
					} else {
						q = append(q, s1[b])
						b++
					}
				}
				if m.run(q).badAt >= 0 {
					ok = false
					break
				}
			}
			if ok {
				out = append(out, [2][]int{s0, s1})
			}
		}
	}
	return out
}
