// C12: outbound messages keep their order and drive the state machine in that order.
// Seam S2: the real protocol engine (protocol.Protocol on a real muxer) configured with
// the REAL state map, match functions, state context and codec of a mini-protocol role; the
// harness issues API histories (SendMessage calls, back-to-back = pipelined, or after the
// replies were handled, or from two racing goroutines); the peer is a harness goroutine on
// the raw connection that parses the wire with its own reader and answers as a conforming
// responder driven by the specification automaton (model_test.go).
package c12

import (
	"fmt"
	"net"
	"reflect"
	"sort"
	"strconv"
	"strings"
	"testing"
	"time"

	"github.com/blinklabs-io/gouroboros/muxer"
	"github.com/blinklabs-io/gouroboros/protocol"
	rt "github.com/blinklabs-io/gouroboros/verifrt"
	vtime "github.com/blinklabs-io/gouroboros/verifrt/vtime"
	"verif/e1/e1lib"
	"verif/e1/protos"
	"verif/e1/s2lib"
)

// scen describes one API history.
type scen struct {
	kind  string // "seq" (one caller), "race" (two callers), "illegal" (conforming waited prefix + one non-permitted message)
	calls []int  // alphabet index of every call, slot = position
	wait  []bool // seq/illegal: before call k, wait until the replies to the calls so far were handled ('~')
	drain []bool // seq: before call k, wait (public API WaitSendQueueDrained) until sendLoop has taken the calls so far ('^'): call k starts a new batch
	slow  bool   // the peer is a slow reader: writes to the connection block (TCP back-pressure) until every call was issued
	bp    bool   // back-pressure as an environment choice: any single connection write may find the window shut (one deviation) and blocks, with every later write, until every call was issued
	owner []int  // race: which goroutine (0/1) issues slot k (each goroutine issues its slots in slot order, back-to-back)
}

// clone returns a distinct message object with the same contents (pointer identity tells the
// harness which queued message a state transition is evaluated for).
func clone(m protocol.Message) protocol.Message {
	v := reflect.ValueOf(m)
	n := reflect.New(v.Type().Elem())
	n.Elem().Set(v.Elem())
	return n.Interface().(protocol.Message)
}

// gatedConn models TCP back-pressure on top of the scheduler's connection (whose writes never
// block): while the window is shut every Write blocks, as it does on a socket whose peer does
// not read. Closing the window channel opens it for good.
type gatedConn struct {
	*rt.Conn
	window chan struct{}
	choice bool // the window is open until the environment shuts it at some write
	shut   bool
}

func (c *gatedConn) Write(b []byte) (int, error) {
	if c.window != nil {
		if c.choice && !c.shut && rt.Choice("h:socket-buffer-full", 2) == 1 {
			c.shut = true
		}
		if !c.choice || c.shut {
			rt.Recv2("h:window?", c.window)
		}
	}
	return c.Conn.Write(b)
}

// newEndpoint is s2lib.NewEndpoint for an arbitrary net.Conn.
func newEndpoint(conn net.Conn, cfg protocol.ProtocolConfig) *s2lib.Endpoint {
	m := muxer.New(conn)
	ep := &s2lib.Endpoint{Mux: m, Errs: make(chan error, 10)}
	cfg.Muxer = m
	cfg.ErrorChan = ep.Errs
	ep.Proto = protocol.New(cfg)
	return ep
}

type shared struct {
	p    *protos.Proto
	ctx0 string
	mod  map[bool]*model
}

var sharedByID = map[string]*shared{}

// the real client/server object is constructed once per configuration, outside the
// executions (only its configuration is used; the mutable state context is reset at the
// start of every execution)
func getShared(id string) *shared {
	if s, ok := sharedByID[id]; ok {
		return s
	}
	p := protos.Build(id)
	if p == nil || p.Spec == nil {
		panic("c12: no configuration / specification for " + id)
	}
	isClient := p.Role == protocol.ProtocolRoleClient
	s := &shared{p: p, ctx0: p.Snapshot(), mod: map[bool]*model{false: newModel(p, isClient, false), true: newModel(p, isClient, true)}}
	sharedByID[id] = s
	return s
}

func (sc scen) name(m *model) string {
	var sb strings.Builder
	switch sc.kind {
	case "race":
		for g := 0; g < 2; g++ {
			if g == 1 {
				sb.WriteString(" & ")
			}
			first := true
			for k, c := range sc.calls {
				if sc.owner[k] != g {
					continue
				}
				if !first {
					sb.WriteString("+")
				}
				first = false
				sb.WriteString(m.alpha[c].Label)
			}
		}
	default:
		for k, c := range sc.calls {
			if k > 0 {
				switch {
				case sc.wait[k]:
					sb.WriteString("~")
				case sc.drain != nil && sc.drain[k]:
					sb.WriteString("^")
				default:
					sb.WriteString("+")
				}
			}
			if sc.kind == "illegal" && k == len(sc.calls)-1 {
				sb.WriteString("!")
			}
			sb.WriteString(m.alpha[c].Label)
		}
	}
	pol := "first"
	if m.last {
		pol = "last"
	}
	kind := sc.kind
	if sc.slow {
		kind += "-slowreader"
	}
	return fmt.Sprintf("%s|%s|%s|peer-%s", m.id, kind, sb.String(), pol)
}

func scenario(id string, sc scen, last bool) e1lib.Scenario {
	sh := getShared(id)
	p, m := sh.p, sh.mod[last]
	n := len(sc.calls)
	// the driver's waits: number of handled replies the reference predicts before call k
	// (one caller: the queue order is the call order)
	rr := m.run(sc.calls)
	needBefore := make([]int, n)
	for k := 0; k < n; k++ {
		if k < len(rr.recvBefore) {
			needBefore[k] = rr.recvBefore[k]
		} else {
			// the non-permitted message of an "illegal" history: everything the reference receives
			needBefore[k] = len(rr.recvLabels())
		}
	}
	localIsServer := p.Role == protocol.ProtocolRoleServer
	wantSegID := p.Config.ProtocolId
	if localIsServer {
		wantSegID |= 0x8000
	}

	body := func() {
		p.Restore(sh.ctx0)
		a, b := rt.ConnPair("local", "peer")
		cfg := p.Config
		msgs := make([]protocol.Message, n)
		for k, c := range sc.calls {
			msgs[k] = clone(m.alpha[c].Msg)
		}
		// every transition of a copy of the state map logs when it is taken (the MatchFunc
		// runs inside stateLoop exactly when the transition is evaluated)
		sm := protocol.StateMap{}
		for st, e := range cfg.StateMap {
			trs := make([]protocol.StateTransition, len(e.Transitions))
			for i, tr := range e.Transitions {
				orig, from, to := tr.MatchFunc, st, tr.NewState
				tr.MatchFunc = func(ctx any, msg protocol.Message) bool {
					if orig != nil && !orig(ctx, msg) {
						return false
					}
					for k, mm := range msgs {
						if mm == msg {
							rt.Log("tr send %d %s -> %s", k, from.Name, to.Name)
							return true
						}
					}
					rt.Log("tr recv %s %s -> %s", m.label(msg.Cbor()), from.Name, to.Name)
					return true
				}
				trs[i] = tr
			}
			e.Transitions = trs
			sm[st] = e
		}
		cfg.StateMap = sm
		got := make(chan struct{}, 64)
		cfg.MessageHandlerFunc = func(msg protocol.Message) error {
			rt.Log("handle %s", m.label(msg.Cbor()))
			rt.Send("h:got", got, struct{}{})
			return nil
		}
		// a slow reader: the local side's connection writes block until the window opens
		var window chan struct{}
		if sc.slow || sc.bp {
			window = make(chan struct{})
		}
		ep := newEndpoint(&gatedConn{Conn: a, window: window, choice: sc.bp}, cfg)
		errDone := make(chan struct{})
		stopped := make(chan struct{})
		rt.Go("errs", func() {
			first := true
			for err := range rt.Range("h:errs", ep.Errs) {
				rt.Log("error %v", err)
				if first {
					first = false
					rt.Close("h:stopped", stopped)
				}
			}
			rt.Close("h:errDone", errDone)
		})
		// the conforming peer
		peerDone := make(chan struct{})
		rt.Go("peer", func() {
			r := m.newResponder()
			act := func() {
				for {
					k := r.next()
					if k < 0 {
						return
					}
					r.sent(k)
					rt.Log("peer-send %s", m.alpha[k].Label)
					if _, err := b.Write(s2lib.Segment(cfg.ProtocolId, !localIsServer, m.enc[k])); err != nil {
						return
					}
				}
			}
			act()
			s2lib.WireReader(b, func(sid uint16, payload []byte) {
				rt.Log("seg %d", len(payload))
			}, func(sid uint16, raw []byte) {
				lab := m.label(raw)
				if sid != wantSegID {
					lab = fmt.Sprintf("?segment-id-%04x:%s", sid, lab)
				}
				rt.Log("wire %s", lab)
				if r.dead {
					return
				}
				st := r.state
				if !r.receive(lab) {
					rt.Log("peer-reject %s in %s", lab, st)
					return
				}
				act()
			})
			rt.Close("h:peerDone", peerDone)
		})
		ep.Start()

		issue := func(k int) {
			rt.Log("call %d", k)
			err := ep.Proto.SendMessage(msgs[k])
			if err != nil {
				rt.Log("ret %d err %v", k, err)
			} else {
				rt.Log("ret %d ok", k)
			}
		}
		if sc.kind == "race" {
			done := make(chan struct{}, 2)
			for g := 0; g < 2; g++ {
				rt.Go(fmt.Sprintf("caller%d", g), func() {
					for k := range sc.calls {
						if sc.owner[k] == g {
							issue(k)
						}
					}
					rt.Send("h:callerDone", done, struct{}{})
				})
			}
			rt.Recv("h:caller?", done)
			rt.Recv("h:caller?", done)
		} else {
			seen, halted := 0, false
			for k := range sc.calls {
				if sc.wait[k] {
					for seen < needBefore[k] && !halted {
						s := rt.NewSel("h:waitReplies", false)
						rt.SelRecvCase(s, got)
						rt.SelRecvCase(s, stopped)
						if s.Choose() == 0 {
							seen++
						} else {
							halted = true
						}
					}
				}
				if sc.drain != nil && sc.drain[k] {
					// the caller hands over the next message once the previous one left the send
					// queue (it is then sent in a segment of its own)
					ep.Proto.WaitSendQueueDrained(20 * time.Millisecond)
				}
				if sc.kind == "illegal" && k == len(sc.calls)-1 && k > 0 {
					// the caller issues the non-permitted message long after the conversation
					// went quiet: it is the first message sendLoop takes, not part of a batch
					vtime.Sleep(10 * time.Millisecond)
				}
				issue(k)
			}
		}
		if sc.slow || sc.bp {
			// the peer starts reading only now
			vtime.Sleep(10 * time.Millisecond)
			rt.Close("h:window", window)
		}
		// let everything that can happen happen (no state timeout is shorter than 5 s)
		vtime.Sleep(100 * time.Millisecond)
		rt.Log("quiet")
		rt.Log("final %s", ep.Proto.VerifCurrentState().Name)
		// what the connection owner does once the conversation is over
		ep.Proto.Stop()
		b.Close()
		ep.Mux.Stop()
		rt.Recv("h:done", ep.Proto.DoneChan())
		for range rt.Range("h:muxerrs", ep.Mux.ErrorChan()) {
		}
		rt.Close("h:closeErrs", ep.Errs)
		rt.Recv("h:errDone?", errDone)
		rt.Recv("h:peerDone?", peerDone)
		rt.Log("end")
	}

	check := func(r *rt.Result) []rt.Finding {
		return oracle(p, m, sc, r)
	}
	return e1lib.Scenario{Name: sc.name(m), Body: body, Check: check, Cfg: rt.Config{Horizon: time.Hour}}
}

type trEv struct {
	send     bool
	slot     int
	label    string
	from, to string
}

func one(key, format string, a ...any) []rt.Finding {
	return []rt.Finding{{Key: key, What: fmt.Sprintf(format, a...)}}
}

// oracle evaluates one execution against the reference model.
func oracle(p *protos.Proto, m *model, sc scen, r *rt.Result) []rt.Finding {
	if r.Verdict.Kind != "ok" {
		k := r.Verdict.Kind
		if k == "panic" {
			k += ":" + strings.SplitN(r.Verdict.Detail, "\n", 2)[0]
		}
		return one("verdict:"+k, "%s %s", r.Verdict.Detail, strings.Join(r.Verdict.Stuck, "; "))
	}
	n := len(sc.calls)
	callAt, retAt := make([]int, n), make([]int, n)
	retErr := make([]string, n)
	for k := range callAt {
		callAt[k], retAt[k] = -1, -1
	}
	var wire, handled, rejects, errsBefore, errsAfter []string
	var segs []int
	var trs []trEv
	quiet, final := false, ""
	for i, l := range r.Logs {
		f := strings.SplitN(l, " ", 2)
		rest := ""
		if len(f) == 2 {
			rest = f[1]
		}
		switch f[0] {
		case "call":
			k, _ := strconv.Atoi(rest)
			callAt[k] = i
		case "ret":
			g := strings.SplitN(rest, " ", 3)
			k, _ := strconv.Atoi(g[0])
			retAt[k] = i
			if g[1] == "err" {
				retErr[k] = g[2]
			}
		case "seg":
			sz, _ := strconv.Atoi(rest)
			segs = append(segs, sz)
		case "wire":
			wire = append(wire, rest)
		case "handle":
			handled = append(handled, rest)
		case "peer-reject":
			rejects = append(rejects, rest)
		case "error":
			if quiet {
				errsAfter = append(errsAfter, rest)
			} else {
				errsBefore = append(errsBefore, rest)
			}
		case "quiet":
			quiet = true
		case "final":
			final = rest
		case "tr":
			// "send <k> <from> -> <to>" | "recv <label> <from> -> <to>"
			g := strings.Split(rest, " ")
			if len(g) != 5 {
				return one("c12:harness", "unparsable transition log %q", l)
			}
			ev := trEv{send: g[0] == "send", from: g[2], to: g[4]}
			if ev.send {
				ev.slot, _ = strconv.Atoi(g[1])
				ev.label = m.alpha[sc.calls[ev.slot]].Label
			} else {
				ev.label = g[1]
			}
			trs = append(trs, ev)
		}
	}
	for k := 0; k < n; k++ {
		if callAt[k] < 0 || retAt[k] < 0 {
			return one("c12:harness", "call %d did not happen / return (logs %v)", k, r.Logs)
		}
	}
	// a must be queued before b when the same caller issues a first or a's call returned
	// before b's call started (only what the log orders)
	before := func(a, b int) bool {
		if sc.kind == "race" && sc.owner[a] == sc.owner[b] || sc.kind != "race" {
			return a < b
		}
		return retAt[a] < callAt[b]
	}
	nGood := n // number of leading slots that form the conforming part
	if sc.kind == "illegal" {
		nGood = n - 1
	}
	// (2a) every queued conforming message advances the local state exactly once
	var sigma []int
	cnt := make([]int, n)
	for _, t := range trs {
		if t.send {
			cnt[t.slot]++
			sigma = append(sigma, t.slot)
		}
	}
	if sc.kind == "illegal" {
		bad := n - 1
		badLabel := m.alpha[sc.calls[bad]].Label
		ref := m.run(sc.calls)
		// (4) rejected with an error instead of being sent
		if cnt[bad] > 0 {
			return one("c12:illegal-message-advanced-state", "the non-permitted message %s made a state transition: %v", badLabel, trs)
		}
		wantWire := make([]string, 0, nGood)
		for k := 0; k < nGood; k++ {
			wantWire = append(wantWire, m.alpha[sc.calls[k]].Label)
		}
		if len(wire) > nGood {
			return one("c12:illegal-message-on-the-wire", "the peer read %v off the wire; %s is not permitted in the current state and must not be sent (permitted prefix %v)", wire, badLabel, wantWire)
		}
		if len(errsBefore) == 0 && retErr[bad] == "" {
			key := "c12:illegal-message-no-error"
			if ref.badInDone {
				key = "c12:message-after-termination-no-error"
			}
			return one(key, "%s is not permitted in the current state (reference state %s) but neither SendMessage nor ErrorChan reported an error (logs %v)", badLabel, ref.final, r.Logs)
		}
		// the conforming prefix is judged below on its own
		sigma = nil
		for _, t := range trs {
			if t.send && t.slot < nGood {
				sigma = append(sigma, t.slot)
			}
		}
	} else {
		if len(errsBefore) > 0 {
			return one("c12:error-on-conforming-history", "conforming history, but ErrorChan reported %q (transitions %v, wire %v)", errsBefore[0], trs, wire)
		}
		if len(errsAfter) > 0 {
			return one("c12:error-on-conforming-history", "conforming history, but ErrorChan reported %q during shutdown", errsAfter[0])
		}
		for k := 0; k < n; k++ {
			if retErr[k] != "" {
				return one("c12:sendmessage-failed", "SendMessage of call %d (%s) returned %q in a conforming history", k, m.alpha[sc.calls[k]].Label, retErr[k])
			}
		}
	}
	for k := 0; k < nGood; k++ {
		if cnt[k] == 0 {
			return one("c12:message-did-not-advance-state", "queued message %d (%s) never made its state transition; transitions %v, wire %v", k, m.alpha[sc.calls[k]].Label, trs, wire)
		}
		if cnt[k] > 1 {
			return one("c12:message-advanced-state-twice", "queued message %d (%s) made %d state transitions: %v", k, m.alpha[sc.calls[k]].Label, cnt[k], trs)
		}
	}
	// (2b) in queue order
	for i := 0; i < len(sigma); i++ {
		for j := i + 1; j < len(sigma); j++ {
			if before(sigma[j], sigma[i]) {
				return one("c12:transitions-out-of-queue-order", "call %d was queued before call %d but its state transition came later: %v", sigma[j], sigma[i], trs)
			}
		}
	}
	// (1) the wire carries the queue, each message exactly once, byte-identical, in the same order
	if len(wire) != len(sigma) {
		return one("c12:wire-count", "the peer read %d messages off the wire %v, %d were queued (transition order %v)", len(wire), wire, len(sigma), sigma)
	}
	for i, k := range sigma {
		if want := m.alpha[sc.calls[k]].Label; wire[i] != want {
			key := "c12:wire-order"
			if strings.HasPrefix(wire[i], "?") {
				key = "c12:wire-bytes"
			}
			return one(key, "wire message %d is %s, the queue (= local transition order %v) has %s there; wire %v", i, wire[i], sigma, want, wire)
		}
	}
	// (1') reassembly of the wire: every segment carries 1..65535 payload bytes and the segments
	// together carry exactly the queued messages' encodings, nothing extra
	segSum, wantSum := 0, 0
	for _, sz := range segs {
		if sz < 1 || sz > 65535 {
			return one("c12:segment-size", "a segment with %d payload bytes is on the wire (segments %v, wire %v)", sz, segs, wire)
		}
		segSum += sz
	}
	for _, k := range sigma {
		wantSum += len(m.enc[sc.calls[k]])
	}
	if segSum != wantSum {
		return one("c12:wire-extra-bytes", "the segments carry %d payload bytes, the queued messages encode to %d (segments %v, wire %v)", segSum, wantSum, segs, wire)
	}
	// (3) the conforming peer accepts everything
	if len(rejects) > 0 {
		return one("c12:peer-rejects", "the conforming peer's automaton rejected %s; wire %v", rejects[0], wire)
	}
	// (2c) the whole local transition sequence is the reference run of this queue order
	queue := make([]int, len(sigma))
	for i, k := range sigma {
		queue[i] = sc.calls[k]
	}
	ref := m.run(queue)
	if ref.badAt >= 0 {
		return one("c12:harness", "reference rejects queue order %v of a conforming history", sigma)
	}
	if len(trs) != len(ref.events) {
		return one("c12:transition-sequence", "local transitions %v, reference run %s", trs, evString(ref.events))
	}
	for i, e := range ref.events {
		t := trs[i]
		if t.send != e.send || t.label != e.label || (e.send && t.slot != sigma[e.slot]) {
			return one("c12:transition-sequence", "transition %d is %v, reference run %s (all: %v)", i, t, evString(ref.events), trs)
		}
	}
	// (2d) a valid run of the REAL state map: chained, sends where the local side holds
	// agency, receives only where the peer holds agency
	cur := p.Config.InitialState.Name
	agency := map[string]protocol.ProtocolStateAgency{}
	for st, e := range p.Config.StateMap {
		agency[st.Name] = e.Agency
	}
	localAg, peerAg := protocol.AgencyClient, protocol.AgencyServer
	if p.Role == protocol.ProtocolRoleServer {
		localAg, peerAg = peerAg, localAg
	}
	for i, t := range trs {
		if t.from != cur {
			return one("c12:transition-chain", "transition %d leaves %s but the state was %s: %v", i, t.from, cur, trs)
		}
		if t.send && agency[t.from] != localAg {
			return one("c12:send-without-agency", "transition %d sends in %s where the local side has no agency: %v", i, t.from, trs)
		}
		if !t.send && agency[t.from] != peerAg {
			return one("c12:receive-without-peer-agency", "transition %d receives in %s where the peer has no agency: %v", i, t.from, trs)
		}
		cur = t.to
	}
	if final != cur {
		return one("c12:final-state", "current state at the end is %s, the transitions end in %s", final, cur)
	}
	// the handler saw exactly the peer's replies
	want := ref.recvLabels()
	if strings.Join(handled, ",") != strings.Join(want, ",") {
		return one("c12:handled", "handler saw %v, reference %v", handled, want)
	}
	return nil
}

// gaps enumerates the wait patterns of a history of n calls (wait[0] is always false).
func gaps(n int) [][]bool {
	var out [][]bool
	for mask := 0; mask < 1<<(n-1); mask++ {
		w := make([]bool, n)
		for k := 1; k < n; k++ {
			w[k] = mask&(1<<(k-1)) != 0
		}
		out = append(out, w)
	}
	return out
}

var streamConfigs = []string{
	"block-fetch/NtN/server",
	"chain-sync/NtN/server",
}

var configs = []string{
	"chain-sync/NtN/client",
	"block-fetch/NtN/client",
	"tx-submission/NtN/server",
	"local-tx-monitor/NtC/client",
	"keep-alive/NtN/client",
}

// uniform reports whether all gaps of a wait pattern are of the same kind.
func uniform(w []bool) bool {
	for k := 2; k < len(w); k++ {
		if w[k] != w[1] {
			return false
		}
	}
	return true
}

// generate enumerates the API histories. Bounds (deviations from the canonical schedule):
//
//	quick:    length <= 3; responder "first": bound 1; responder "last": canonical schedule
//	thorough: length <= 4;
//	  responder "first": chain-sync length <= 2 and RequestNext x3 pipelined: bound 2; the other
//	  protocols: single calls and the first two pipelined pairs: bound 2; everything else of
//	  length <= 3 bound 1; length 4 bound 1 (chain-sync: every wait pattern, the other protocols:
//	  all-pipelined and all-waited);
//	  responder "last": length <= 2 bound 1, longer canonical;
//	  racing callers: 2 calls bound 2 (chain-sync all, others the first pair), 3 calls bound 1,
//	  4 calls bound 1 for chain-sync (canonical otherwise);
//	  non-permitted first message bound 2 (chain-sync all, others the first), after a waited
//	  prefix bound 1
//
// Streaming servers (block-fetch, chain-sync; responder "first"): every conforming history,
// all-'+' and all-'^'; towards a slow reader (all connection writes block until every call was
// issued): canonical schedule (thorough bound 1); normal connection, where "this write finds the
// socket buffer full" is an environment answer costing one deviation: bound 1 (thorough:
// block-fetch server up to 2 calls bound 2).
func generate(thorough bool) []e1lib.Scenario {
	var heavy, light []e1lib.Scenario
	maxLen := 3
	if thorough {
		maxLen = 4
	}
	for _, id := range configs {
		sh := getShared(id)
		chainSync := strings.HasPrefix(id, "chain-sync")
		for _, last := range []bool{false, true} {
			m := sh.mod[last]
			add := func(sc scen, bound int) {
				s := scenario(id, sc, last)
				s.MinB, s.MaxB = bound, bound
				s.Budget = []time.Duration{20 * time.Second, 90 * time.Second, 15 * time.Minute}[bound] // CPU time of the worker
				if bound == 2 {
					heavy = append(heavy, s)
				} else {
					light = append(light, s)
				}
			}
			// one caller: every conforming history, every pattern of pipelined / waited calls
			pairs := 0
			for _, h := range m.conforming(maxLen) {
				for _, w := range gaps(len(h)) {
					sc := scen{kind: "seq", calls: h, wait: w}
					n := len(h)
					switch {
					case !thorough && last:
						add(sc, 0)
					case !thorough:
						add(sc, 1)
					case n == 4 && !chainSync && !uniform(w):
						// not generated
					case last && n >= 3:
						add(sc, 0)
					case last:
						add(sc, 1)
					case n <= 2 && chainSync, n == 1:
						add(sc, 2)
					case n == 2 && !w[1] && pairs < 2:
						pairs++
						add(sc, 2)
					case n == 3 && chainSync && !w[1] && !w[2] && h[0] == h[1] && h[1] == h[2] && m.alpha[h[0]].Label == "RequestNext":
						add(sc, 2)
					default:
						add(sc, 1)
					}
				}
			}
			// two racing callers
			for i, pr := range m.racePairs(maxLen) {
				sc := scen{kind: "race"}
				for g := 0; g < 2; g++ {
					for _, c := range pr[g] {
						sc.calls = append(sc.calls, c)
						sc.owner = append(sc.owner, g)
					}
				}
				n := len(sc.calls)
				switch {
				case !thorough && last:
					add(sc, 0)
				case !thorough:
					add(sc, 1)
				case n == 4 && (last || !chainSync):
					add(sc, 0)
				case last || n >= 3:
					add(sc, 1)
				case chainSync || i == 0:
					add(sc, 2)
				default:
					add(sc, 1)
				}
			}
			// a non-permitted message: first of the history, or after a conforming prefix whose
			// replies the caller waited for and a pause (so it is the first message sendLoop takes)
			if last {
				continue
			}
			prefixes := [][]int{nil}
			pl := 1
			if thorough {
				pl = 2
			}
			prefixes = append(prefixes, m.conforming(pl)...)
			for _, pre := range prefixes {
				bad := m.illegalAfter(pre)
				if len(bad) == 0 {
					continue
				}
				if m.run(append(append([]int(nil), pre...), bad[0])).badInDone {
					// after termination every letter is non-permitted: one letter after the
					// shortest terminating history suffices
					if len(pre) > 1 {
						continue
					}
					bad = bad[:1]
				}
				for i, x := range bad {
					calls := append(append([]int(nil), pre...), x)
					w := make([]bool, len(calls))
					for k := 1; k < len(calls); k++ {
						w[k] = true
					}
					sc := scen{kind: "illegal", calls: calls, wait: w}
					if thorough && len(pre) == 0 && (chainSync || i == 0) {
						add(sc, 2)
					} else {
						add(sc, 1)
					}
				}
			}
		}
	}
	// streaming servers: the local side keeps agency over several sends (block-fetch server:
	// StartBatch, Block*, BatchDone; chain-sync server: AwaitReply, RollForward), so that
	// consecutive batches are assembled while earlier segments may still wait in the muxer:
	// calls back-to-back ('+') or each after the previous left the send queue ('^', a batch of
	// its own), on a normal connection and towards a slow reader (connection writes block
	// until every call was issued)
	for _, id := range streamConfigs {
		sh := getShared(id)
		m := sh.mod[false]
		for _, h := range m.conforming(maxLen) {
			n := len(h)
			for _, drained := range []bool{false, true} {
				if n == 1 && drained {
					continue
				}
				for _, slow := range []bool{false, true} {
					sc := scen{kind: "seq", calls: h, wait: make([]bool, n), slow: slow, bp: !slow}
					if drained {
						sc.drain = make([]bool, n)
						for k := 1; k < n; k++ {
							sc.drain[k] = true
						}
					}
					bound := 1
					if slow && !thorough {
						bound = 0
					}
					if thorough && !slow && n <= 2 && strings.HasPrefix(id, "block-fetch") {
						bound = 2
					}
					s := scenario(id, sc, false)
					s.MinB, s.MaxB = bound, bound
					s.Budget = []time.Duration{20 * time.Second, 90 * time.Second, 15 * time.Minute}[bound]
					if bound == 2 {
						heavy = append(heavy, s)
					} else {
						light = append(light, s)
					}
				}
			}
		}
	}
	// large outbound messages around the segment boundary (block-fetch server): one Block whose
	// encoding is 65533..131070 bytes, as a batch of its own ('^') and coalesced with StartBatch
	// ('+': the batch is then 2 bytes longer); the peer reassembles the wire
	{
		id := "block-fetch/NtN/server"
		m := getShared(id).mod[false]
		for i := range m.alpha {
			if !m.hidden[i] {
				continue
			}
			for _, drained := range []bool{false, true} {
				// the server starts streaming once it has seen the request (while still in Idle
				// the engine rightly refuses to queue more than the Idle state's byte limit)
				sc := scen{kind: "seq", calls: []int{m.letter("StartBatch"), i, m.letter("BatchDone")}, wait: []bool{true, false, false}}
				if drained {
					sc.drain = []bool{false, true, true}
				}
				s := scenario(id, sc, false)
				s.MinB, s.MaxB, s.Budget = 0, 0, 60*time.Second
				if thorough {
					s.MinB, s.MaxB, s.Budget = 1, 1, 5*time.Minute
				}
				light = append(light, s)
			}
		}
	}
	// a non-permitted message of a streaming server (legality from the specification automaton):
	// first message after the peer's request, or after a conforming prefix and a pause
	for _, id := range streamConfigs {
		m := getShared(id).mod[false]
		prefixes := [][]int{nil}
		pl := 1
		if thorough {
			pl = 2
		}
		prefixes = append(prefixes, m.conforming(pl)...)
		for _, pre := range prefixes {
			bad := m.illegalAfter(pre)
			if len(bad) == 0 || m.run(append(append([]int(nil), pre...), bad[0])).badInDone {
				continue
			}
			for _, x := range bad {
				calls := append(append([]int(nil), pre...), x)
				w := make([]bool, len(calls))
				for k := 1; k < len(calls); k++ {
					w[k] = true
				}
				s := scenario(id, scen{kind: "illegal", calls: calls, wait: w}, false)
				s.MinB, s.MaxB, s.Budget = 1, 1, 90*time.Second
				if !thorough && len(pre) > 0 {
					s.MinB, s.MaxB = 0, 0 // quick: after a prefix on the canonical schedule only
				}
				light = append(light, s)
			}
		}
	}
	// the long scenarios are spread evenly over the list (the driver hands out contiguous batches)
	if len(heavy) == 0 {
		return light
	}
	var scs []e1lib.Scenario
	stride := len(light)/len(heavy) + 1
	for i, l := range light {
		if i%stride == 0 && len(heavy) > 0 {
			scs = append(scs, heavy[0])
			heavy = heavy[1:]
		}
		scs = append(scs, l)
	}
	return append(scs, heavy...)
}

func TestC12(t *testing.T) {
	e1lib.Main(t, "C12", generate)
}

func TestCount(t *testing.T) {
	for _, th := range []bool{false, true} {
		cnt := map[string]int{}
		for _, s := range generate(th) {
			f := strings.Split(s.Name, "|")
			cnt[fmt.Sprintf("%s %s %s len=%d maxB=%d", f[0], f[1], f[3], strings.Count(f[2], "+")+strings.Count(f[2], "~")+strings.Count(f[2], " & ")+1, s.MaxB)]++
		}
		var ks []string
		for k := range cnt {
			ks = append(ks, k)
		}
		sort.Strings(ks)
		tot := 0
		for _, k := range ks {
			fmt.Println(th, k, cnt[k])
			tot += cnt[k]
		}
		fmt.Println("total", tot)
	}
}
