// C11: received messages are checked against the protocol state machine.
// Seam S2: the real protocol engine (protocol.Protocol on a real muxer) configured with
// the REAL state map, match functions, state context and codec of each mini-protocol and
// role (read from the real client/server object through the probe), a logging handler,
// and an adversarial raw peer that sends scripts over the protocol's message alphabet.
package c11

import (
	"fmt"
	"strings"
	"testing"
	"time"

	"github.com/blinklabs-io/gouroboros/protocol"
	rt "github.com/blinklabs-io/gouroboros/verifrt"
	vtime "github.com/blinklabs-io/gouroboros/verifrt/vtime"
	"verif/e1/e1lib"
	"verif/e1/protos"
	"verif/e1/s2lib"
)

// letter of a peer script
type letter struct {
	label   string
	idx     int // index into the alphabet, -1 = malformed body
	garbage bool
}

// reference: sequential interpretation of the state map. Returns the labels the handler
// must see (in order), the local sends to perform after the k-th handled message
// (k = 0: at start), and whether an error must be reported.
type plan struct {
	handled   []string
	sendAfter map[int][]int // alphabet indices
	wantErr   bool          // a state-machine violation is processed: error certain, handled exact
	garbageAt int           // index in the script of the first undecodable message (-1 none): error certain, handled is an upper bound
}

func makePlan(p *protos.Proto, script []letter, localBudget int) plan {
	pl := plan{sendAfter: map[int][]int{}, garbageAt: -1}
	for i, l := range script {
		if l.garbage {
			pl.garbageAt = i
			break
		}
	}
	cur := p.Initial()
	localIs := protos.Client
	if p.Role == protocol.ProtocolRoleServer {
		localIs = protos.Server
	}
	pos := 0
	for steps := 0; steps < 50; steps++ {
		ag, _ := p.AgencyOf(cur.State)
		switch {
		case ag == protos.Nobody:
			return pl
		case ag == localIs:
			if localBudget == 0 {
				return pl
			}
			// first letter of the alphabet that the local side may send here
			sent := false
			for i, m := range p.Alphabet {
				if m.Unknown || (m.FromClient != (localIs == protos.Client)) {
					continue
				}
				if nx, _, err := p.Step(cur, m.Msg); err == nil {
					pl.sendAfter[len(pl.handled)] = append(pl.sendAfter[len(pl.handled)], i)
					cur = nx
					localBudget--
					sent = true
					break
				}
			}
			if !sent {
				return pl
			}
		default: // the peer holds agency: process its next message
			if pos >= len(script) {
				return pl
			}
			l := script[pos]
			pos++
			if l.garbage {
				return pl // decoding fails before the state machine is consulted
			}
			nx, _, err := p.Step(cur, p.Alphabet[l.idx].Msg)
			if err != nil {
				pl.wantErr = true
				return pl
			}
			pl.handled = append(pl.handled, l.label)
			cur = nx
		}
	}
	return pl
}

func scenario(id string, script []letter, localBudget int) e1lib.Scenario {
	names := make([]string, len(script))
	for i, l := range script {
		names[i] = l.label
	}
	name := fmt.Sprintf("%s|%s|L%d", id, strings.Join(names, ","), localBudget)
	// the plan is computed on a private instance (Step mutates the state context)
	ref := protos.Build(id)
	pl := makePlan(ref, script, localBudget)
	// the real client/server object is constructed once, outside the executions (its own
	// background goroutines are not started); only its configuration is used, and the
	// mutable state context is reset at the start of every execution
	p := protos.Build(id)
	ctx0 := p.Snapshot()
	body := func() {
		p.Restore(ctx0)
		a, b := rt.ConnPair("local", "peer")
		a.Frag = true
		cfg := p.Config
		nHandled := 0
		var ep *s2lib.Endpoint
		sendLocal := func(k int) {
			for _, i := range pl.sendAfter[k] {
				m := p.Alphabet[i]
				rt.Log("send %s", m.Label)
				if err := ep.Proto.SendMessage(m.Msg); err != nil {
					rt.Log("senderr %v", err)
				}
			}
		}
		cfg.MessageHandlerFunc = func(m protocol.Message) error {
			lab := "?"
			for _, am := range p.Alphabet {
				if fmt.Sprintf("%T", am.Msg) == fmt.Sprintf("%T", m) && am.Msg.Type() == m.Type() {
					if r, _, err := p.Roundtrip(am.Msg); err == nil && string(r.Cbor()) == string(m.Cbor()) {
						lab = am.Label
						break
					}
				}
			}
			rt.Log("handle %s", lab)
			nHandled++
			sendLocal(nHandled)
			return nil
		}
		ep = s2lib.NewEndpoint(a, cfg)
		errDone := make(chan struct{})
		rt.Go("errs", func() {
			for err := range rt.Range("h:errs", ep.Errs) {
				rt.Log("error %v", err)
			}
			rt.Close("h:errDone", errDone)
		})
		ep.Start()
		sendLocal(0)
		fromResponder := p.Role == protocol.ProtocolRoleClient
		for _, l := range script {
			var payload []byte
			if l.idx >= 0 {
				payload, _ = protos.Encode(p.Alphabet[l.idx].Msg)
			} else {
				// a known first message type with a body that cannot be that message
				payload = []byte{0x89, byte(p.Alphabet[0].Msg.Type()), 1, 2, 3, 4, 5, 6, 7, 8}
			}
			b.Write(s2lib.Segment(cfg.ProtocolId, fromResponder, payload))
		}
		// let everything that can happen happen, then the peer goes away
		vtime.Sleep(100 * time.Millisecond)
		rt.Log("quiet")
		b.Close()
		// what the connection owner does once the conversation is over
		ep.Proto.Stop()
		ep.Mux.Stop()
		rt.Recv("h:done", ep.Proto.DoneChan())
		for range rt.Range("h:muxerrs", ep.Mux.ErrorChan()) {
		}
		rt.Close("h:closeErrs", ep.Errs)
		rt.Recv("h:errDone?", errDone)
		rt.Log("end")
	}
	check := func(r *rt.Result) []rt.Finding {
		if r.Verdict.Kind != "ok" {
			k := r.Verdict.Kind
			if k == "panic" {
				k += ":" + strings.SplitN(r.Verdict.Detail, "\n", 2)[0]
			}
			return []rt.Finding{{Key: "verdict:" + k, What: r.Verdict.Detail + " " + strings.Join(r.Verdict.Stuck, "; ")}}
		}
		var got []string
		errBeforeQuiet, quiet, sawErr := false, false, ""
		for _, l := range r.Logs {
			switch {
			case strings.HasPrefix(l, "handle "):
				got = append(got, l[7:])
			case l == "quiet":
				quiet = true
			case strings.HasPrefix(l, "error "):
				if !quiet {
					errBeforeQuiet = true
				}
				sawErr = l
			}
		}
		// 1. nothing but a prefix of the reference's handled sequence ever reaches the handler
		if len(got) > len(pl.handled) {
			return []rt.Finding{{Key: "c11:handled-not-permitted", What: fmt.Sprintf("handler saw %v, the state machine permits only %v", got, pl.handled)}}
		}
		for i := range got {
			if got[i] != pl.handled[i] {
				return []rt.Finding{{Key: "c11:handled-wrong-message", What: fmt.Sprintf("handler saw %v, reference %v", got, pl.handled)}}
			}
		}
		certainErr := pl.wantErr || pl.garbageAt >= 0
		if certainErr && !errBeforeQuiet {
			return []rt.Finding{{Key: "c11:missing-error", What: fmt.Sprintf("script must end in a protocol error, none reported (handled %v, logs %v)", got, r.Logs)}}
		}
		if !certainErr && sawErr != "" {
			return []rt.Finding{{Key: "c11:spurious-error", What: sawErr}}
		}
		if pl.garbageAt < 0 && len(got) != len(pl.handled) {
			return []rt.Finding{{Key: "c11:message-not-delivered", What: fmt.Sprintf("handler saw %v, reference %v", got, pl.handled)}}
		}
		return nil
	}
	return e1lib.Scenario{Name: name, Body: body, Check: check, Cfg: rt.Config{Horizon: time.Hour}}
}

func scripts(p *protos.Proto, maxLen int) [][]letter {
	var alpha []letter
	for i, m := range p.Alphabet {
		alpha = append(alpha, letter{label: m.Label, idx: i, garbage: m.Unknown})
	}
	alpha = append(alpha, letter{label: "Malformed", idx: -1, garbage: true})
	var out [][]letter
	var rec func(cur []letter)
	rec = func(cur []letter) {
		out = append(out, append([]letter(nil), cur...))
		if len(cur) == maxLen {
			return
		}
		for _, a := range alpha {
			rec(append(cur, a))
		}
	}
	rec(nil)
	return out
}

func TestC11(t *testing.T) {
	e1lib.Main(t, "C11", func(thorough bool) []e1lib.Scenario {
		var scs []e1lib.Scenario
		full := map[string]bool{"chain-sync/NtN": true, "block-fetch/NtN": true, "tx-submission/NtN": true, "local-tx-monitor/NtC": true, "handshake/NtN": true}
		for _, id := range protos.IDs() {
			p := protos.Build(id)
			maxLen := 1
			if full[p.Family()] {
				if thorough {
					maxLen = 3
				} else if p.Family() == "chain-sync/NtN" || p.Family() == "tx-submission/NtN" {
					maxLen = 2
				}
			} else if thorough {
				maxLen = 2
			}
			for _, sc := range scripts(p, maxLen) {
				for _, lb := range []int{0, 3} {
					s := scenario(id, sc, lb)
					s.MinB, s.MaxB, s.Budget = 0, 1, 20*time.Second
					if !thorough && (lb == 0 || len(sc) == 2 && !strings.HasPrefix(id, "chain-sync/NtN")) {
						s.MaxB = 0 // quick: canonical schedule only for the idle-local and most two-message scripts
					}
					if thorough && full[p.Family()] && len(sc) <= 2 {
						s.MaxB = 2
						s.Budget = 60 * time.Second
					}
					scs = append(scs, s)
				}
			}
		}
		return scs
	})
}
