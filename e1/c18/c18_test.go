// C18: version negotiation agrees on the best common version.
//
// Seam A: two real ouroboros.Connections (initiator + responder) joined by a scheduler-owned
// connection; every same-family pair of {NtN, NtC, DMQ node-to-client} x client magic
// {m, m'} x full-duplex / peer-sharing / query flags on either side. The Connection API
// always offers the full table of its family, therefore
// Seam B: the real handshake.Client and handshake.Server (protocol/handshake) on two real
// muxers, configured with handshake.NewConfig(WithProtocolVersionMap(subset)) over ALL
// pairs of non-empty subsets of size <= 2 of each version table plus the full tables
// (quick: subsets of the boundary versions), x client magic {m, m'} x client query mode,
// plus the full tables of every pair of different families.
//
// Oracle (reference model written from the property): let C, S be the version numbers the
// two sides offer. Client in query mode (and the flag expressible in a proposed version):
// the client obtains exactly the responder's table and no version is selected. Otherwise,
// C∩S empty: the responder refuses and the client's error is a version-mismatch refusal
// listing S ascending. Otherwise best = max(C∩S): equal magics -> both sides finish with
// best and each reports the OTHER side's version data for best; different magics -> the
// responder refuses and the client's error is a "refused" refusal for best.
// Safety (on every explored schedule): never two different versions, never a version that
// is not best, never success across different magics, never a wrong refusal, reported data
// = the peer's data. "The initiator reports the refusal / obtains the table" is demanded on
// the canonical schedule; on schedules with deviations the responder's error path (handler
// returns an error right after queueing Refuse/QueryReply; SendError -> Stop races the send
// loop) may lose the message: tolerated, and reported as findings "observation:…" only when
// VERIF_C18_OBSERVE=1 (used to document it in FINDINGS.md).
package c18

import (
	"errors"
	"fmt"
	"os"
	"sort"
	"strings"
	"testing"
	"time"

	ouroboros "github.com/blinklabs-io/gouroboros"
	"github.com/blinklabs-io/gouroboros/connection"
	"github.com/blinklabs-io/gouroboros/muxer"
	"github.com/blinklabs-io/gouroboros/protocol"
	"github.com/blinklabs-io/gouroboros/protocol/handshake"
	rt "github.com/blinklabs-io/gouroboros/verifrt"
	"verif/e1/e1lib"
)

const (
	magicM  = 764824073
	magicM2 = 2
)

type family int

const (
	famNtN family = iota + 1
	famNtC
	famDMQNtC
	famDMQNtN
)

var famNames = []string{"none", "ntn", "ntc", "dmqntc", "dmqntn"}

func table(f family) []uint16 {
	switch f {
	case famNtN:
		return protocol.GetProtocolVersionsNtN()
	case famNtC:
		return protocol.GetProtocolVersionsNtC()
	case famDMQNtC:
		return protocol.GetProtocolVersionsDMQNtC()
	}
	return protocol.GetProtocolVersionsDMQNtN()
}

// ---- reference model of the version data (network specification) ----

// fields of the version data of version v of family f: does it carry the diffusion flag,
// the peer-sharing value, the query flag
func fields(f family, v uint16) (diff, ps, query bool) {
	switch f {
	case famNtN:
		return true, v >= 11, v >= 11
	case famNtC:
		return false, false, v&0x7fff >= 15
	case famDMQNtC:
		return false, false, true
	}
	return true, true, true
}

type side struct {
	magic         uint32
	fd, ps, query bool
	fam           family
	vs            []uint16 // offered versions, ascending
}

// what side s proposes for version v, as the VersionData interface must report it
func dataDesc(s side, v uint16) string {
	d, p, q := fields(s.fam, v)
	initiatorOnly, ps, query := true, false, false
	if d {
		initiatorOnly = !s.fd
	}
	if p {
		ps = s.ps
	}
	if q {
		query = s.query
	}
	return fmt.Sprintf("magic=%d initiatorOnly=%v peerSharing=%v query=%v", s.magic, initiatorOnly, ps, query)
}

func describe(vd protocol.VersionData) string {
	if vd == nil {
		return "nil"
	}
	return fmt.Sprintf("magic=%d initiatorOnly=%v peerSharing=%v query=%v", vd.NetworkMagic(), vd.DiffusionMode(), vd.PeerSharing(), vd.Query())
}

func tableDesc(s side) string {
	var p []string
	for _, v := range s.vs {
		p = append(p, fmt.Sprintf("%d:{%s}", v, dataDesc(s, v)))
	}
	return strings.Join(p, " ")
}

func mapDesc(m protocol.ProtocolVersionMap) string {
	var vs []int
	for v := range m {
		vs = append(vs, int(v))
	}
	sort.Ints(vs)
	var p []string
	for _, v := range vs {
		p = append(p, fmt.Sprintf("%d:{%s}", v, describe(m[uint16(v)])))
	}
	return strings.Join(p, " ")
}

type hcase struct {
	direct bool // seam B
	c, s   side
}

func (h hcase) String() string {
	seam := "conn"
	if h.direct {
		seam = "hs"
	}
	f := func(s side) string {
		return fmt.Sprintf("%s%v magic=%d fd=%v ps=%v query=%v", famNames[s.fam], s.vs, s.magic, s.fd, s.ps, s.query)
	}
	return fmt.Sprintf("%s client{%s} server{%s}", seam, f(h.c), f(h.s))
}

type expectation struct {
	class string // agree | no-common-version | magic-mismatch | query
	best  uint16
}

func model(h hcase) expectation {
	if h.c.query {
		for _, v := range h.c.vs {
			if _, _, q := fields(h.c.fam, v); q {
				return expectation{class: "query"}
			}
		}
	}
	var best uint16
	found := false
	for _, v := range h.c.vs {
		for _, w := range h.s.vs {
			if v == w && (!found || v > best) {
				best, found = v, true
			}
		}
	}
	switch {
	case !found:
		return expectation{class: "no-common-version"}
	case h.c.magic != h.s.magic:
		return expectation{class: "magic-mismatch", best: best}
	}
	return expectation{class: "agree", best: best}
}

// ---- running one handshake ----

func errDesc(err error) string {
	var vm *handshake.VersionMismatchError
	var rf *handshake.RefusedError
	var de *handshake.DecodeError
	switch {
	case errors.As(err, &vm):
		return "version-mismatch " + fmt.Sprint(vm.SupportedVersions)
	case errors.As(err, &rf):
		return fmt.Sprintf("refused v=%d msg=%q", rf.Version, rf.Message)
	case errors.As(err, &de):
		return fmt.Sprintf("decode-error v=%d msg=%q", de.Version, de.Message)
	}
	return "other " + err.Error()
}

func connOpts(s side, server bool) []ouroboros.ConnectionOptionFunc {
	o := []ouroboros.ConnectionOptionFunc{
		ouroboros.WithNetworkMagic(s.magic), ouroboros.WithServer(server), ouroboros.WithDelayProtocolStart(true),
		ouroboros.WithFullDuplex(s.fd), ouroboros.WithPeerSharing(s.ps), ouroboros.WithQueryMode(s.query),
	}
	switch s.fam {
	case famNtN:
		o = append(o, ouroboros.WithNodeToNode(true))
	case famDMQNtC:
		o = append(o, ouroboros.WithDMQ(true))
	}
	return o
}

func runConnections(i int, h hcase) {
	a, b := rt.ConnPair("client", "server")
	srvDone := make(chan struct{})
	cliDone := make(chan struct{})
	rt.Go("server", func() {
		s, err := ouroboros.NewConnection(append(connOpts(h.s, true), ouroboros.WithConnection(b))...)
		if err != nil {
			rt.Log("case %d server err %s", i, errDesc(err))
		} else {
			v, vd := s.ProtocolVersion()
			rt.Log("case %d server ok v=%d %s", i, v, describe(vd))
			rt.Recv("h:cliDone?", cliDone)
			_ = s.Close()
			for range rt.Range("h:srvErrs", s.ErrorChan()) {
			}
		}
		rt.Close("h:srvDone", srvDone)
	})
	c, err := ouroboros.NewConnection(append(connOpts(h.c, false), ouroboros.WithConnection(a))...)
	if err != nil {
		rt.Log("case %d client err %s", i, errDesc(err))
	} else {
		v, vd := c.ProtocolVersion()
		if qm := c.QueryReplyVersionMap(); qm != nil {
			rt.Log("case %d client query-reply %s", i, mapDesc(qm))
		}
		rt.Log("case %d client ok v=%d %s", i, v, describe(vd))
		_ = c.Close()
		for range rt.Range("h:cliErrs", c.ErrorChan()) {
		}
	}
	rt.Close("h:cliDone", cliDone)
	rt.Recv("h:srvDone?", srvDone)
	// whatever is left of a failed side: the other end goes away
	_ = a.Close()
	_ = b.Close()
}

// the table a deployment would configure for side s (the library's own table generators,
// restricted to the offered versions)
func versionMap(s side) protocol.ProtocolVersionMap {
	var full protocol.ProtocolVersionMap
	switch s.fam {
	case famNtN:
		full = protocol.GetProtocolVersionMap(protocol.ProtocolModeNodeToNode, s.magic, !s.fd, s.ps, s.query)
	case famNtC:
		full = protocol.GetProtocolVersionMap(protocol.ProtocolModeNodeToClient, s.magic, !s.fd, s.ps, s.query)
	case famDMQNtC:
		full = protocol.GetProtocolVersionMapDMQNtC(s.magic, s.query)
	default:
		full = protocol.GetProtocolVersionMapDMQNtN(s.magic, !s.fd, s.ps, s.query)
	}
	out := protocol.ProtocolVersionMap{}
	for _, v := range s.vs {
		out[v] = full[v]
	}
	return out
}

func modeOf(f family) protocol.ProtocolMode {
	if f == famNtN || f == famDMQNtN {
		return protocol.ProtocolModeNodeToNode
	}
	return protocol.ProtocolModeNodeToClient
}

// one endpoint of seam B: what a Connection does around the handshake object (start, wait
// for completion or the first protocol error, on error shut the muxer down at once)
func runEndpoint(i int, who string, conn *rt.Conn, s side, server bool) {
	m := muxer.New(conn)
	errs := make(chan error, 10)
	finished := make(chan struct{})
	nFin := 0
	cfg := handshake.NewConfig(
		handshake.WithProtocolVersionMap(versionMap(s)),
		handshake.WithFinishedFunc(func(_ handshake.CallbackContext, v uint16, vd protocol.VersionData) error {
			nFin++
			rt.Log("case %d %s ok v=%d %s", i, who, v, describe(vd))
			if nFin == 1 {
				rt.Close("h:finished", finished)
			}
			return nil
		}),
		handshake.WithQueryReplyFunc(func(_ handshake.CallbackContext, vm protocol.ProtocolVersionMap) error {
			rt.Log("case %d %s query-reply %s", i, who, mapDesc(vm))
			return nil
		}),
	)
	opts := protocol.ProtocolOptions{ConnectionId: connection.ConnectionId{LocalAddr: conn.LocalAddr(), RemoteAddr: conn.RemoteAddr()},
		Muxer: m, ErrorChan: errs, Mode: modeOf(s.fam)}
	var p *protocol.Protocol
	if server {
		opts.Role = protocol.ProtocolRoleServer
		sv := handshake.NewServer(opts, &cfg)
		sv.Start()
		p = sv.Protocol
	} else {
		opts.Role = protocol.ProtocolRoleClient
		cl := handshake.NewClient(opts, &cfg)
		cl.Start()
		p = cl.Protocol
	}
	m.StartOnce()
	sel := rt.NewSel("h:outcome:"+who, false)
	rt.SelRecvCase(sel, errs)
	rt.SelRecvCase(sel, finished)
	rt.SelRecvCase(sel, m.ErrorChan())
	failed := false
	switch sel.Choose() {
	case 0:
		rt.Log("case %d %s err %s", i, who, errDesc(rt.SelVal(sel, errs)))
		failed = true
	case 1:
		rt.SelVal(sel, finished)
	case 2:
		// Connection: a muxer error during the handshake closes the connection and
		// setupConnection returns "connection shutdown initiated"
		e, _ := rt.SelVal2(sel, m.ErrorChan())
		rt.Log("case %d %s err other muxer: %v", i, who, e)
		failed = true
	}
	if failed {
		m.Stop() // Connection.setupConnection: c.Close() on a handshake error
	} else {
		m.Start() // Connection.setupConnection after a completed handshake
		if server {
			// a responder that finished keeps the connection; it goes away with the peer
			for range rt.Range("h:muxErrs0:"+who, m.ErrorChan()) {
			}
		} else {
			// an initiator that finished closes the connection (end of the scenario)
			m.Stop()
		}
	}
	p.Stop()
	m.Stop()
	rt.Recv("h:protoDone:"+who, p.DoneChan())
	for range rt.Range("h:muxErrs:"+who, m.ErrorChan()) {
	}
}

func runDirect(i int, h hcase) {
	a, b := rt.ConnPair("client", "server")
	srvDone := make(chan struct{})
	rt.Go("server", func() {
		runEndpoint(i, "server", b, h.s, true)
		rt.Close("h:srvDone", srvDone)
	})
	runEndpoint(i, "client", a, h.c, false)
	rt.Recv("h:srvDone?", srvDone)
}

// ---- scenario + oracle ----

const chunkSize = 30

var observe = os.Getenv("VERIF_C18_OBSERVE") != ""

// scenario: the handshakes of one class. A grouped scenario starts with an enumerated
// environment choice of the chunk to run: answer 0 (canonical) runs nothing, answer k>0 (one
// "deviation") runs cases [(k-1)*chunkSize, k*chunkSize) on the canonical schedule; deviation
// bound 1 on a grouped scenario therefore is: every handshake of the class, each on the
// canonical schedule. A single (sched) scenario has no chunk choice.
// desc: every instrumented map iteration of the execution runs in descending key order
// (rt.SetMapDescending) - used for the classes whose oracle looks at the ORDER of the
// refusal's version list, so that a list that is only accidentally ascending (built by
// ranging over the responder's table without sorting) is seen.
func scenario(name string, cases []hcase, grouped bool, desc bool) e1lib.Scenario {
	nChunks := (len(cases) + chunkSize - 1) / chunkSize
	rng := func(k int) (int, int) {
		lo, hi := (k-1)*chunkSize, k*chunkSize
		if k == 0 {
			lo, hi = 0, 0
		}
		if hi > len(cases) {
			hi = len(cases)
		}
		return lo, hi
	}
	body := func() {
		if desc {
			rt.SetMapDescending(true)
		}
		lo, hi := 0, len(cases)
		if grouped {
			k := rt.Choice("h:chunk", nChunks+1)
			rt.Log("chunk %d of %d (%d handshakes in this class)", k, nChunks, len(cases))
			lo, hi = rng(k)
		}
		for i := lo; i < hi; i++ {
			if cases[i].direct {
				runDirect(i, cases[i])
			} else {
				runConnections(i, cases[i])
			}
		}
		rt.Log("end")
	}
	check := func(r *rt.Result) []rt.Finding {
		if r.Verdict.Kind != "ok" && !dmqCleanerOnly(r, cases) {
			k := r.Verdict.Kind
			if k == "panic" {
				k += ":" + strings.SplitN(r.Verdict.Detail, "\n", 2)[0]
			}
			return []rt.Finding{{Key: "verdict:" + k, What: r.Verdict.Detail + " " + strings.Join(r.Verdict.Stuck, "; ") + " | " + strings.Join(tailOf(r.Logs, 4), " / ")}}
		}
		deviations := 0
		for _, d := range r.Decisions {
			if d.Chosen != 0 {
				deviations++
			}
		}
		lo, hi := 0, len(cases)
		ev := map[int]map[string][]string{} // case -> "client ok" / "server err" / "client query-reply" -> payloads
		for _, l := range r.Logs {
			var k, i int
			if n, _ := fmt.Sscanf(l, "chunk %d ", &k); n == 1 {
				lo, hi = rng(k)
				if k > 0 {
					deviations-- // the chunk choice is not a schedule deviation
				}
				continue
			}
			if n, _ := fmt.Sscanf(l, "case %d ", &i); n != 1 {
				continue
			}
			f := strings.SplitN(l, " ", 5)
			if len(f) < 4 {
				continue
			}
			if ev[i] == nil {
				ev[i] = map[string][]string{}
			}
			rest := ""
			if len(f) == 5 {
				rest = f[4]
			}
			ev[i][f[2]+" "+f[3]] = append(ev[i][f[2]+" "+f[3]], rest)
		}
		canonical := deviations == 0
		byKey := map[string][]string{}
		add := func(key, what string) { byKey[key] = append(byKey[key], what) }
		for i := lo; i < hi; i++ {
			h := cases[i]
			x := model(h)
			e := ev[i]
			id := h.String()
			one := func(k string) (string, bool) {
				if len(e[k]) > 1 {
					add("c18:reported-twice", fmt.Sprintf("%s: %s %v", id, k, e[k]))
				}
				if len(e[k]) == 0 {
					return "", false
				}
				return e[k][0], true
			}
			cok, cOK := one("client ok")
			sok, sOK := one("server ok")
			cerr, cErr := one("client err")
			_, sErr := one("server err")
			qr, hasQR := one("client query-reply")
			if _, ok := one("server query-reply"); ok {
				add("c18:responder-got-query-reply", id)
			}
			if !(cOK || cErr) || !(sOK || sErr) {
				add("c18:no-outcome", fmt.Sprintf("%s: events %v", id, e))
				continue
			}
			var cv, sv int
			var cdata, sdata string
			if cOK {
				fmt.Sscanf(cok, "v=%d", &cv)
				cdata = cok[strings.Index(cok, " ")+1:]
			}
			if sOK {
				fmt.Sscanf(sok, "v=%d", &sv)
				sdata = sok[strings.Index(sok, " ")+1:]
			}
			// ---- safety: every schedule ----
			selectedC := cOK && !(cv == 0 && cdata == "nil") // FinishedFunc(0, nil) = "nothing selected" (query)
			if selectedC && sOK && cv != sv {
				add("c18:two-different-versions", fmt.Sprintf("%s: client %d, server %d", id, cv, sv))
			}
			for _, side := range []struct {
				who  string
				ok   bool
				v    int
				data string
				peer *side
			}{{"client", selectedC, cv, cdata, &h.s}, {"server", sOK, sv, sdata, &h.c}} {
				if !side.ok {
					continue
				}
				switch {
				case x.class == "query":
					add("c18:version-selected-in-query-mode", fmt.Sprintf("%s: %s finished with %d", id, side.who, side.v))
				case x.class == "no-common-version":
					add("c18:finished-without-common-version", fmt.Sprintf("%s: %s finished with %d", id, side.who, side.v))
				case x.class == "magic-mismatch":
					add("c18:finished-across-different-magics", fmt.Sprintf("%s: %s finished with %d", id, side.who, side.v))
				case side.v != int(x.best):
					add("c18:not-the-best-common-version", fmt.Sprintf("%s: %s finished with %d, best common version is %d", id, side.who, side.v, x.best))
				case side.data != dataDesc(*side.peer, x.best):
					add("c18:reported-data-differs", fmt.Sprintf("%s: %s reports {%s}, the peer offered {%s} for %d", id, side.who, side.data, dataDesc(*side.peer, x.best), x.best))
				}
			}
			if hasQR && x.class != "query" {
				add("c18:query-reply-without-query", fmt.Sprintf("%s: %s", id, qr))
			}
			if hasQR && x.class == "query" && qr != tableDesc(h.s) {
				add("c18:query-reply-differs-from-responder-table", fmt.Sprintf("%s: got {%s}, responder's table {%s}", id, qr, tableDesc(h.s)))
			}
			if cErr && !strings.HasPrefix(cerr, "other ") {
				// a refusal reached the initiator: it must be the matching one
				want := ""
				switch x.class {
				case "no-common-version":
					want = "version-mismatch " + fmt.Sprint(h.s.vs)
				case "magic-mismatch":
					want = fmt.Sprintf("refused v=%d ", x.best)
				default:
					want = "\x00none"
				}
				if !strings.HasPrefix(cerr, want) {
					add("c18:wrong-refusal", fmt.Sprintf("%s (%s): initiator reports %q", id, x.class, cerr))
				}
			}
			// ---- the expected outcome is reached ----
			reached := true
			switch x.class {
			case "agree":
				reached = selectedC && sOK
			case "query":
				reached = hasQR && cOK
			default:
				reached = cErr && !strings.HasPrefix(cerr, "other ")
			}
			if !reached {
				what := fmt.Sprintf("%s (%s): client ok=%v err=%q query-reply=%v, server ok=%v", id, x.class, cOK, cerr, hasQR, sOK)
				switch {
				case canonical || x.class == "agree":
					add("c18:"+x.class+"-outcome-not-reached", what)
				case observe:
					add("observation:"+x.class+"-reply-lost-under-deviation", what)
				}
			}
		}
		var keys []string
		for k := range byKey {
			keys = append(keys, k)
		}
		sort.Strings(keys)
		var out []rt.Finding
		for _, k := range keys {
			w := byKey[k]
			what := fmt.Sprintf("%d reports over the %d handshakes run (cases %d..%d of %d in this class); first: %s", len(w), hi-lo, lo, hi-1, len(cases), w[0])
			if len(w) > 1 {
				what += "; last: " + w[len(w)-1]
			}
			out = append(out, rt.Finding{Key: k, What: what})
		}
		return out
	}
	return e1lib.Scenario{Name: name, Body: body, Check: check, Cfg: rt.Config{Horizon: 10 * time.Minute, MaxSteps: 20000000}}
}

// dmqCleanerOnly: see e1/c19 — a Connection WithDMQ leaks the localmessagenotification
// server's expiration-cleaner goroutine (a one-minute ticker loop; C15 territory). An
// execution that ends at the virtual-time horizon with nothing but those loops left counts
// as ended.
func dmqCleanerOnly(r *rt.Result, cases []hcase) bool {
	if r.Verdict.Kind != "horizon" || len(r.Verdict.Stuck) == 0 || len(r.Logs) == 0 || r.Logs[len(r.Logs)-1] != "end" {
		return false
	}
	dmq := 0
	for _, h := range cases {
		if !h.direct && h.c.fam == famDMQNtC {
			dmq += 2
		}
	}
	if len(r.Verdict.Stuck) > dmq {
		return false
	}
	for _, s := range r.Verdict.Stuck {
		if !strings.Contains(s, "blocked in select at server.go:") {
			return false
		}
	}
	return true
}

func tailOf(s []string, n int) []string {
	if len(s) > n {
		return s[len(s)-n:]
	}
	return s
}

// ---- enumeration ----

func subsets(vs []uint16) [][]uint16 {
	var out [][]uint16
	for i := range vs {
		out = append(out, []uint16{vs[i]})
	}
	for i := range vs {
		for j := i + 1; j < len(vs); j++ {
			out = append(out, []uint16{vs[i], vs[j]})
		}
	}
	if len(vs) > 2 {
		out = append(out, append([]uint16(nil), vs...))
	}
	return out
}

// boundary versions of a table: lowest and highest version of every version-data shape
func boundary(f family, l []uint16) []uint16 {
	sig := func(v uint16) string { a, b, c := fields(f, v); return fmt.Sprint(a, b, c) }
	var out []uint16
	for i, v := range l {
		if i == 0 || i == len(l)-1 || sig(l[i-1]) != sig(v) || sig(l[i+1]) != sig(v) || (f == famNtN && (v == 12 || v == 13)) {
			out = append(out, v)
		}
	}
	return out
}

func gen(thorough bool) []e1lib.Scenario {
	groups := map[string][]hcase{}
	var order []string
	add := func(prefix string, h hcase) {
		name := prefix + "|" + model(h).class
		if _, ok := groups[name]; !ok {
			order = append(order, name)
		}
		groups[name] = append(groups[name], h)
	}
	bools := []bool{false, true}
	// seam A
	for _, f := range []family{famNtN, famNtC, famDMQNtC} {
		for _, cm := range []uint32{magicM, magicM2} {
			for _, cq := range bools {
				for _, sq := range bools {
					for _, cfd := range bools {
						for _, sfd := range bools {
							for _, cps := range bools {
								for _, sps := range bools {
									if f != famNtN && (cfd != sfd || cps != sps || cfd != cps) {
										continue // flags without a field in node-to-client version data: all off / all on
									}
									add("conn|"+famNames[f], hcase{
										c: side{magic: cm, fd: cfd, ps: cps, query: cq, fam: f, vs: table(f)},
										s: side{magic: magicM, fd: sfd, ps: sps, query: sq, fam: f, vs: table(f)}})
								}
							}
						}
					}
				}
			}
		}
	}
	// seam B: all pairs of subsets within a family
	fams := []family{famNtN, famNtC, famDMQNtC, famDMQNtN}
	for _, f := range fams {
		vs := table(f)
		if !thorough {
			vs = boundary(f, vs)
		}
		ss := subsets(vs)
		for _, cs := range ss {
			for _, sv := range ss {
				for _, v := range []struct {
					cm uint32
					cq bool
				}{{magicM, false}, {magicM2, false}, {magicM, true}} {
					add("hs|"+famNames[f], hcase{direct: true,
						c: side{magic: v.cm, fd: false, ps: false, query: v.cq, fam: f, vs: cs},
						s: side{magic: magicM, fd: true, ps: true, fam: f, vs: sv}})
				}
			}
		}
	}
	// seam B: full tables of different families (never a common version)
	for _, cf := range fams {
		for _, sf := range fams {
			if cf == sf || modeOf(cf) != modeOf(sf) && false {
				continue
			}
			add("hs|cross", hcase{direct: true,
				c: side{magic: magicM, fam: cf, vs: table(cf)},
				s: side{magic: magicM, fd: true, ps: true, fam: sf, vs: table(sf)}})
		}
	}
	var scs []e1lib.Scenario
	for _, name := range order {
		s := scenario(name, groups[name], true, false)
		s.MinB, s.MaxB, s.Budget = 1, 1, 900*time.Second
		scs = append(scs, s)
		if strings.HasSuffix(name, "|no-common-version") {
			// the version-mismatch refusal lists the responder's versions: once with ascending,
			// once with descending map iteration inside the implementation
			s := scenario(name+"|map-desc", groups[name], true, true)
			s.MinB, s.MaxB, s.Budget = 1, 1, 900*time.Second
			scs = append(scs, s)
		}
	}
	// schedules: all schedules with <= 1 deviation for structurally different handshakes
	for _, name := range order {
		if !thorough && !(strings.HasPrefix(name, "hs|ntn|") || name == "conn|ntn|agree" || name == "conn|ntn|magic-mismatch") {
			continue
		}
		if strings.HasPrefix(name, "hs|cross") {
			continue
		}
		// the classes in which the unchanged tree loses the responder's reply get a schedule
		// scenario only under the node-to-node configurations (fewer finding keys)
		if !strings.HasSuffix(name, "|agree") && !strings.Contains(name, "|ntn|") {
			continue
		}
		l := groups[name]
		s := scenario("sched|"+name, []hcase{l[len(l)/2]}, false, false)
		s.MinB, s.MaxB, s.Budget = 1, 1, 300*time.Second
		scs = append(scs, s)
		if strings.HasSuffix(name, "|no-common-version") {
			rep := l[len(l)/2]
			for _, h := range l { // a responder with at least two versions to list
				if len(h.s.vs) >= 2 {
					rep = h
					break
				}
			}
			s := scenario("sched|"+name+"|map-desc", []hcase{rep}, false, true)
			s.MinB, s.MaxB, s.Budget = 1, 1, 300*time.Second
			scs = append(scs, s)
		}
		if thorough && strings.HasSuffix(name, "|agree") && len(l) > 2 {
			for _, r := range []struct {
				tag string
				h   hcase
			}{{"#first", l[0]}, {"#last", l[len(l)-1]}} {
				s := scenario("sched|"+name+r.tag, []hcase{r.h}, false, false)
				s.MinB, s.MaxB, s.Budget = 1, 1, 300*time.Second
				scs = append(scs, s)
			}
		}
	}
	return scs
}

func TestC18(t *testing.T) { e1lib.Main(t, "C18", gen) }
