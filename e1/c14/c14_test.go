//go:build verif

// C14: state timeouts fire exactly when the peer stalls.
//
// Seam S2 (as C11): the real protocol engine (own protocol.New on a real muxer) with the REAL
// state map (after the constructor's edits: Timeout / TimeoutFunc values), match functions,
// state context and codec of every mini-protocol x mode x role of the catalogue, and a raw
// peer. The conversation is driven into the state under test by a conforming prefix (shortest
// path found over the implementation's own transition function), all at virtual time 0; then
// the holder of agency (raw peer, or the local driver) moves after delta of VIRTUAL time.
//
// Oracle (from the property statement; T = the state's timeout as configured, or the value the
// engine drew for a TimeoutFunc state):
//
//	delta < T              => no error is ever reported (observed until T + 1 ms, i.e. past the
//	                          moment a timer that was not disarmed would fire)
//	delta > T or never     => exactly one error, it says "timeout" and names the state, it is not
//	                          reported before T, and the protocol stops by itself (DoneChan
//	                          closes before the harness shuts anything down)
//	delta = T              => either of the two
//	no timeout / initial   => the holder moves after 10 x (largest T of the map): no error
//
// Virtual time: "computation is instantaneous"; Cfg.TimeJumps stays off.
package c14

import (
	"fmt"
	"os"
	"sort"
	"strconv"
	"strings"
	"testing"
	"time"

	"github.com/blinklabs-io/gouroboros/muxer"
	"github.com/blinklabs-io/gouroboros/protocol"
	"github.com/blinklabs-io/gouroboros/protocol/blockfetch"
	"github.com/blinklabs-io/gouroboros/protocol/chainsync"
	"github.com/blinklabs-io/gouroboros/protocol/handshake"
	"github.com/blinklabs-io/gouroboros/protocol/keepalive"
	"github.com/blinklabs-io/gouroboros/protocol/leiosfetch"
	"github.com/blinklabs-io/gouroboros/protocol/leiosnotify"
	"github.com/blinklabs-io/gouroboros/protocol/leiosvotes"
	"github.com/blinklabs-io/gouroboros/protocol/localmessagenotification"
	"github.com/blinklabs-io/gouroboros/protocol/localmessagesubmission"
	"github.com/blinklabs-io/gouroboros/protocol/localstatequery"
	"github.com/blinklabs-io/gouroboros/protocol/localtxmonitor"
	"github.com/blinklabs-io/gouroboros/protocol/localtxsubmission"
	"github.com/blinklabs-io/gouroboros/protocol/messagesubmission"
	"github.com/blinklabs-io/gouroboros/protocol/peersharing"
	"github.com/blinklabs-io/gouroboros/protocol/txsubmission"
	rt "github.com/blinklabs-io/gouroboros/verifrt"
	vtime "github.com/blinklabs-io/gouroboros/verifrt/vtime"
	"verif/e1/e1lib"
	"verif/e1/protos"
	"verif/e1/s2lib"
)

const (
	kaPeriod = 89 * time.Second // background traffic keeping the muxer's 120 s segment read deadline from firing
	kaProto  = 0x1234
	grace    = time.Millisecond
)

type deltaKind int

const (
	dZero deltaKind = iota
	dBefore          // T - 1ns
	dAt              // T
	dAfter           // T + 1ns
	dNever
	dLong  // states without a timeout / the initial state: 10 x largest T
	dQuiet // 121 s without ANY inbound traffic on the connection (no background protocol), in a state without a timeout
)

const quietFor = 121 * time.Second

var deltaNames = map[deltaKind]string{dZero: "0", dBefore: "T-1ns", dAt: "T", dAfter: "T+1ns", dNever: "never", dLong: "10xmaxT", dQuiet: "121s-no-traffic"}

// target is one state under test of one protocol configuration.
type target struct {
	id       string
	state    protocol.State
	path     []int // alphabet indices of the conforming prefix
	move     int   // alphabet index of the holder's move (-1: none exists in the alphabet)
	localMv  bool  // the local side holds agency in the state
	T        time.Duration
	dynamic  bool          // T comes from a TimeoutFunc
	Tmax     time.Duration // upper bound of a dynamic T (for the horizon)
	nextT    time.Duration // timeout of the state reached by the move (0: none), lower bound if dynamic
	initial  bool          // the state is the initial state, entered at start (timeout never armed)
	reenter  bool          // the state is the initial state, re-entered by the prefix
	maxT     time.Duration // largest timeout of the map
	Tlo      time.Duration // lower end of a drawn timeout according to the package's declaration
}

func timeoutOf(e protocol.StateMapEntry) (t, tmax time.Duration, dynamic bool) {
	if e.TimeoutFunc != nil {
		// outside a controlled execution the instrumented random draw answers 0: the lower end
		lo := e.TimeoutFunc()
		return lo, lo + 200*time.Second, true
	}
	return e.Timeout, e.Timeout, false
}

// declared returns the state map as the protocol's PACKAGE declares it, before any client or
// server constructor copied and edited it: the independent source for "which states have a
// timeout, and is it a fixed or a drawn one".
func declared(p *protos.Proto) protocol.StateMap {
	ntn := p.Mode == protocol.ProtocolModeNodeToNode
	switch p.Name {
	case "handshake":
		if ntn {
			return handshake.StateMapNtN
		}
		return handshake.StateMapNtC
	case "chain-sync":
		if ntn {
			return chainsync.StateMapNtN
		}
		return chainsync.StateMapNtC
	case "block-fetch":
		return blockfetch.StateMap
	case "tx-submission":
		return txsubmission.StateMap
	case "keep-alive":
		return keepalive.StateMap
	case "peer-sharing":
		return peersharing.StateMap
	case "local-tx-submission":
		return localtxsubmission.StateMap
	case "local-state-query":
		return localstatequery.StateMap
	case "local-tx-monitor":
		return localtxmonitor.StateMap
	case "message-submission":
		if p.Variant == "v1" {
			return messagesubmission.VerifStateMapV1()
		}
		return messagesubmission.VerifStateMapV2()
	case "local-message-submission":
		return localmessagesubmission.VerifStateMap()
	case "local-message-notification":
		return localmessagenotification.VerifStateMap()
	case "leios-fetch":
		return leiosfetch.StateMap
	case "leios-notify":
		return leiosnotify.StateMap
	case "leios-votes":
		return leiosvotes.StateMap
	}
	panic("no declared state map known for " + p.Name)
}

// structure compares, state by state, the running configuration of a protocol object with the
// package-level declaration. Constructors legitimately replace FIXED timeout values by their
// configuration's; everything else must carry over.
func structure(id string) []rt.Finding {
	p := protos.Build(id)
	decl, run := declared(p), p.Config.StateMap
	var out []rt.Finding
	bad := func(state, what, detail string) {
		out = append(out, rt.Finding{Key: fmt.Sprintf("c14:structure|%s|%s|%s", id, state, what), What: detail})
	}
	names := map[string]bool{}
	for s := range decl {
		names[s.Name] = true
	}
	for s := range run {
		names[s.Name] = true
	}
	var sorted []string
	for n := range names {
		sorted = append(sorted, n)
	}
	sort.Strings(sorted)
	find := func(m protocol.StateMap, name string) (protocol.StateMapEntry, bool) {
		for s, e := range m {
			if s.Name == name {
				return e, true
			}
		}
		return protocol.StateMapEntry{}, false
	}
	for _, n := range sorted {
		d, okD := find(decl, n)
		r, okR := find(run, n)
		switch {
		case !okD || !okR:
			bad(n, "state-missing", fmt.Sprintf("state %s: declared=%v running=%v", n, okD, okR))
			continue
		case d.Agency != r.Agency:
			bad(n, "agency-differs", fmt.Sprintf("state %s: declared agency %v, running %v", n, d.Agency, r.Agency))
		}
		switch {
		case d.TimeoutFunc != nil && r.TimeoutFunc == nil:
			bad(n, "dynamic-timeout-lost", fmt.Sprintf("state %s is declared with a TimeoutFunc (drawn timeout, lower end %v); the running %s has none (fixed Timeout %v)", n, d.TimeoutFunc(), id, r.Timeout))
		case d.TimeoutFunc == nil && r.TimeoutFunc != nil:
			bad(n, "dynamic-timeout-added", fmt.Sprintf("state %s is declared with the fixed timeout %v; the running %s draws one", n, d.Timeout, id))
		case d.TimeoutFunc != nil && d.TimeoutFunc() != r.TimeoutFunc():
			bad(n, "dynamic-timeout-differs", fmt.Sprintf("state %s: lower end declared %v, running %v", n, d.TimeoutFunc(), r.TimeoutFunc()))
		case d.TimeoutFunc == nil && d.Timeout > 0 && r.Timeout <= 0:
			bad(n, "timeout-lost", fmt.Sprintf("state %s is declared with timeout %v; the running %s has none", n, d.Timeout, id))
		}
	}
	return out
}

func localIs(p *protos.Proto) protos.Agency {
	if p.Role == protocol.ProtocolRoleServer {
		return protos.Server
	}
	return protos.Client
}

// plan finds, for every state of the map, the shortest conforming path from the initial state
// (breadth first over the implementation's own transition function and the catalogue's
// alphabet) and the first move the holder of agency can make there.
func plan(id string) ([]target, []string) {
	p := protos.Build(id)
	decl := declared(p)
	var notes []string
	type node struct {
		st   protos.ImplState
		path []int
	}
	letters := func(cur protos.ImplState) []int {
		ag, _ := p.AgencyOf(cur.State)
		var out []int
		if ag == protos.Nobody {
			return nil
		}
		for i, m := range p.Alphabet {
			if m.Unknown || m.FromClient != (ag == protos.Client) {
				continue
			}
			out = append(out, i)
		}
		return out
	}
	first := map[protocol.State]node{}
	var reenter *node
	init := p.Initial()
	queue := []node{{st: init}}
	seen := map[string]bool{init.String(): true}
	first[init.State] = queue[0]
	for len(queue) > 0 {
		n := queue[0]
		queue = queue[1:]
		if len(n.path) >= 6 {
			continue
		}
		for _, i := range letters(n.st) {
			nx, _, err := p.Step(n.st, p.Alphabet[i].Msg)
			if err != nil {
				continue
			}
			nn := node{st: nx, path: append(append([]int(nil), n.path...), i)}
			if nx.State == init.State && reenter == nil {
				c := nn
				reenter = &c
			}
			if _, ok := first[nx.State]; !ok {
				first[nx.State] = nn
			}
			if !seen[nx.String()] {
				seen[nx.String()] = true
				queue = append(queue, nn)
			}
		}
	}
	var maxT time.Duration
	for _, e := range p.Config.StateMap {
		_, tm, _ := timeoutOf(e)
		if tm > maxT {
			maxT = tm
		}
	}
	for _, e := range decl {
		_, tm, _ := timeoutOf(e)
		if tm > maxT {
			maxT = tm
		}
	}
	mk := func(n node, initial, re bool) target {
		e := p.Config.StateMap[n.st.State]
		t := target{id: id, state: n.st.State, path: n.path, move: -1, initial: initial, reenter: re, maxT: maxT}
		t.T, t.Tmax, t.dynamic = timeoutOf(e)
		// what the package declares decides whether the state's timeout is a drawn one
		for ds, de := range decl {
			if ds.Name == n.st.State.Name && de.TimeoutFunc != nil && !t.dynamic {
				t.T, t.Tmax, t.dynamic = timeoutOf(de)
			}
		}
		t.Tlo = t.T
		ag, _ := p.AgencyOf(n.st.State)
		t.localMv = ag == localIs(p)
		for _, i := range letters(n.st) {
			nx, _, err := p.Step(n.st, p.Alphabet[i].Msg)
			if err != nil {
				continue
			}
			t.move = i
			if ne, ok := p.Config.StateMap[nx.State]; ok && ne.Agency != protocol.AgencyNone {
				t.nextT, _, _ = timeoutOf(ne)
			}
			break
		}
		return t
	}
	var out []target
	for _, s := range p.States() {
		e := p.Config.StateMap[s]
		n, ok := first[s]
		if !ok {
			if e.Timeout > 0 || e.TimeoutFunc != nil {
				notes = append(notes, fmt.Sprintf("%s: state %s has a timeout but is not reachable with the catalogue's alphabet within 6 messages", id, s.Name))
			}
			continue
		}
		if e.Agency == protocol.AgencyNone {
			if e.Timeout > 0 || e.TimeoutFunc != nil {
				notes = append(notes, fmt.Sprintf("%s: terminal state %s declares a timeout (nobody holds agency; not tested)", id, s.Name))
			}
			continue
		}
		if s == init.State {
			out = append(out, mk(n, true, false))
			if reenter != nil && (e.Timeout > 0 || e.TimeoutFunc != nil) {
				out = append(out, mk(*reenter, false, true))
			}
			continue
		}
		out = append(out, mk(n, false, false))
	}
	return out, notes
}

func (t *target) hasTimeout() bool { return !t.initial && t.T > 0 }

func stateTag(t *target) string {
	switch {
	case t.initial:
		return t.state.Name + "(initial)"
	case t.reenter:
		return t.state.Name + "(re-entered)"
	}
	return t.state.Name
}

func scenario(t target, dk deltaKind) e1lib.Scenario {
	name := fmt.Sprintf("%s|%s|delta=%s", t.id, stateTag(&t), deltaNames[dk])
	p := protos.Build(t.id)
	ctx0 := p.Snapshot()
	long := 10 * t.maxT
	if long < 1000*time.Second {
		long = 1000 * time.Second
	}
	// delta and the end of the observation, as functions of T (known at run time for a drawn T)
	delta := func(T time.Duration) time.Duration {
		switch dk {
		case dZero:
			return 0
		case dBefore:
			return T - 1
		case dAt:
			return T
		case dAfter:
			return T + 1
		case dLong:
			return long
		case dQuiet:
			return quietFor
		}
		return -1 // never
	}
	end := func(T time.Duration) time.Duration {
		switch dk {
		case dLong:
			return long + grace
		case dQuiet:
			return quietFor + grace
		case dZero, dBefore:
			e := T + grace
			// do not run into the timeout of the state the move leads to
			if t.nextT > 0 && delta(T)+t.nextT-grace < e {
				e = delta(T) + t.nextT - grace
			}
			return e
		}
		return T + grace
	}
	horizon := end(t.Tmax) + 10*kaPeriod
	if dk == dLong {
		horizon = long + 10*kaPeriod
	}
	nTicks := int(end(t.Tmax) / kaPeriod)
	if dk == dQuiet {
		nTicks = 0
		horizon = quietFor + 10*kaPeriod
	}
	body := func() {
		p.Restore(ctx0)
		local, peer := rt.ConnPair("local", "peer")
		cfg := p.Config
		tForMover := make(chan time.Duration, 8)
		tForMain := make(chan time.Duration, 8)
		// observe the value the engine draws for a dynamic timeout of the state under test
		sm := protocol.StateMap{}
		for _, s := range p.States() {
			e := cfg.StateMap[s]
			if e.TimeoutFunc != nil && s == t.state {
				f := e.TimeoutFunc
				e.TimeoutFunc = func() time.Duration {
					d := f()
					rt.Log("draw %d", int64(d))
					rt.Send("h:T1", tForMover, d)
					rt.Send("h:T2", tForMain, d)
					return d
				}
			}
			sm[s] = e
		}
		cfg.StateMap = sm
		cfg.MessageHandlerFunc = func(m protocol.Message) error {
			rt.Log("handle type=%d", m.Type())
			return nil
		}
		ep := s2lib.NewEndpoint(local, cfg)
		now := func() int64 { return int64(vtime.Now().Sub(rt.Epoch)) }
		errDone := make(chan struct{})
		rt.Go("errs", func() {
			for err := range rt.Range("h:errs", ep.Errs) {
				rt.Log("error t=%d %v", now(), err)
			}
			rt.Close("h:errDone", errDone)
		})
		muxErrDone := make(chan struct{})
		rt.Go("muxerrs", func() {
			for err := range rt.Range("h:muxerrs", ep.Mux.ErrorChan()) {
				rt.Log("muxerror t=%d %v", now(), err)
			}
			rt.Close("h:muxErrDone", muxErrDone)
		})
		// a second protocol id with background traffic (what keep-alive is on a real connection)
		_, kaRecv, _ := ep.Mux.RegisterProtocol(kaProto, muxer.ProtocolRoleResponder)
		rt.Go("ka-sink", func() {
			for range rt.Range("h:ka", kaRecv) {
			}
		})
		ep.Start()
		rt.Go("done-watch", func() {
			rt.Recv("h:donew", ep.Proto.DoneChan())
			rt.Log("done t=%d", now())
		})
		fromResponder := p.Role == protocol.ProtocolRoleClient
		wire := func(i int) []byte {
			payload, err := protos.Encode(p.Alphabet[i].Msg)
			if err != nil {
				panic(err)
			}
			return s2lib.Segments(cfg.ProtocolId, fromResponder, payload, 65535)
		}
		isLocal := func(i int) bool { return p.Alphabet[i].FromClient == (p.Role == protocol.ProtocolRoleClient) }
		rt.Go("ka-peer", func() {
			for i := 0; i < nTicks; i++ {
				vtime.Sleep(kaPeriod)
				if _, err := peer.Write(s2lib.Segment(kaProto, false, []byte{0x80})); err != nil {
					return
				}
			}
		})
		// the conforming prefix, all at virtual time 0: the local sends are queued, the peer's
		// messages are written, the engine orders them by agency
		peerPrefix, localPrefix := make(chan struct{}), make(chan struct{})
		rt.Go("peer", func() {
			for _, i := range t.path {
				if !isLocal(i) {
					peer.Write(wire(i))
				}
			}
			rt.Close("h:peerPrefix", peerPrefix)
		})
		for _, i := range t.path {
			if isLocal(i) {
				if err := ep.Proto.SendMessage(p.Alphabet[i].Msg); err != nil {
					rt.Log("prefix-senderr %v", err)
				}
			}
		}
		rt.Close("h:localPrefix", localPrefix)
		rt.Go("mover", func() {
			// the move follows the prefix on the wire / in the send queue
			rt.Recv("h:peerPrefix?", peerPrefix)
			rt.Recv("h:localPrefix?", localPrefix)
			T := t.T
			if t.dynamic && !t.initial {
				T = awaitDraw("h:T1?", tForMover, t.Tmax)
			}
			d := delta(T)
			if d < 0 || t.move < 0 {
				return
			}
			vtime.Sleep(d)
			rt.Log("move t=%d", now())
			if t.localMv {
				if err := ep.Proto.SendMessage(p.Alphabet[t.move].Msg); err != nil {
					rt.Log("move-refused %v", err)
				}
			} else {
				peer.Write(wire(t.move))
			}
		})
		T := t.T
		if t.dynamic && !t.initial {
			T = awaitDraw("h:T2?", tForMain, t.Tmax)
		}
		vtime.Sleep(end(T))
		rt.Log("closing t=%d", now())
		// the owner of the connection closes it
		ep.Mux.Stop()
		ep.Proto.Stop()
		rt.Recv("h:done", ep.Proto.DoneChan())
		rt.Recv("h:muxErrDone?", muxErrDone)
		rt.Close("h:closeErrs", ep.Errs)
		rt.Recv("h:errDone?", errDone)
		rt.Log("end")
	}
	check := func(r *rt.Result) []rt.Finding {
		if r.Verdict.Kind != "ok" {
			k := r.Verdict.Kind
			if k == "panic" {
				k += ":" + strings.SplitN(r.Verdict.Detail, "\n", 2)[0]
			}
			return []rt.Finding{{Key: "verdict:" + k, What: r.Verdict.Detail + " " + strings.Join(r.Verdict.Stuck, "; ")}}
		}
		T := t.T
		type ev struct {
			t   int64
			msg string
		}
		var errs, muxErrs []ev
		doneAt, closingSeen, doneBeforeClosing, handled := int64(-1), false, false, 0
		for _, l := range r.Logs {
			switch {
			case strings.HasPrefix(l, "draw "):
				v, _ := strconv.ParseInt(l[5:], 10, 64)
				T = time.Duration(v)
				if t.dynamic && (T < t.Tlo || T > t.Tmax) {
					return []rt.Finding{{Key: "c14:drawn-timeout-out-of-range", What: fmt.Sprintf("state %s: the engine drew %v, the declared TimeoutFunc yields values from %v (assumed below %v)", stateTag(&t), T, t.Tlo, t.Tmax)}}
				}
			case strings.HasPrefix(l, "error t="):
				f := strings.SplitN(l[8:], " ", 2)
				v, _ := strconv.ParseInt(f[0], 10, 64)
				errs = append(errs, ev{v, f[1]})
			case strings.HasPrefix(l, "muxerror t="):
				if !closingSeen {
					f := strings.SplitN(l[11:], " ", 2)
					v, _ := strconv.ParseInt(f[0], 10, 64)
					muxErrs = append(muxErrs, ev{v, f[1]})
				}
			case strings.HasPrefix(l, "done t="):
				doneAt, _ = strconv.ParseInt(l[7:], 10, 64)
				if !closingSeen {
					doneBeforeClosing = true
				}
			case strings.HasPrefix(l, "closing"):
				closingSeen = true
			case strings.HasPrefix(l, "handle "):
				handled++
			case l == "no-draw":
				return []rt.Finding{{Key: "c14:timeout-func-not-consulted", What: fmt.Sprintf("state %s is declared by its package with a TimeoutFunc (drawn timeout); the conforming prefix was sent at time 0 but the engine had not drawn a timeout for the state one second later; %v", stateTag(&t), tailLogs(r.Logs))}}
			case strings.HasPrefix(l, "prefix-senderr"):
				return []rt.Finding{{Key: "c14:harness-prefix-refused", What: l}}
			}
		}
		_ = doneAt
		wantHandled := 0
		for _, i := range t.path {
			if p.Alphabet[i].FromClient != (p.Role == protocol.ProtocolRoleClient) {
				wantHandled++
			}
		}
		if handled < wantHandled {
			return []rt.Finding{{Key: "c14:harness-prefix-not-delivered", What: fmt.Sprintf("the conforming prefix did not reach the state under test: %d of %d peer messages handled; %v", handled, wantHandled, tailLogs(r.Logs))}}
		}
		expectNone := func() []rt.Finding {
			if len(errs) > 0 {
				kind := "c14:spurious-error"
				if strings.Contains(errs[0].msg, "timeout") {
					kind = "c14:spurious-timeout"
				}
				return []rt.Finding{{Key: kind, What: fmt.Sprintf("state %s, T=%v, holder moved after %s: no error may be reported, got at t=%v: %s", stateTag(&t), T, deltaNames[dk], time.Duration(errs[0].t), errs[0].msg)}}
			}
			if doneBeforeClosing {
				return []rt.Finding{{Key: "c14:protocol-stopped-without-cause", What: fmt.Sprintf("state %s, T=%v, delta=%s: the protocol stopped by itself although nothing went wrong; %v", stateTag(&t), T, deltaNames[dk], tailLogs(r.Logs))}}
			}
			return nil
		}
		oneTimeout := func() []rt.Finding {
			if len(errs) != 1 {
				return []rt.Finding{{Key: fmt.Sprintf("c14:%d-errors-instead-of-one", len(errs)), What: fmt.Sprintf("state %s, T=%v, delta=%s: %v", stateTag(&t), T, deltaNames[dk], tailLogs(r.Logs))}}
			}
			e := errs[0]
			if !strings.Contains(e.msg, "timeout") || !strings.Contains(e.msg, "protocol state "+t.state.Name) {
				return []rt.Finding{{Key: "c14:error-does-not-name-the-timeout", What: fmt.Sprintf("state %s, T=%v: error %q must say timeout and name the state", stateTag(&t), T, e.msg)}}
			}
			if time.Duration(e.t) < T {
				return []rt.Finding{{Key: "c14:timeout-early", What: fmt.Sprintf("state %s entered at 0 with T=%v: timeout reported at %v", stateTag(&t), T, time.Duration(e.t))}}
			}
			if !doneBeforeClosing {
				return []rt.Finding{{Key: "c14:protocol-not-stopped-after-timeout", What: fmt.Sprintf("state %s: timeout reported at %v but DoneChan was still open when the owner closed the connection at T+1ms; %v", stateTag(&t), time.Duration(e.t), tailLogs(r.Logs))}}
			}
			return nil
		}
		switch {
		case dk == dQuiet:
			if len(muxErrs) > 0 {
				return []rt.Finding{{Key: "c14:quiet-connection-killed-by-muxer-read-deadline", What: fmt.Sprintf("state %s (no state timeout before %v), the peer was silent for %v and nothing else used the connection: the muxer reported %q at t=%v and shut the connection down; %v", stateTag(&t), quietFor+grace, quietFor, muxErrs[0].msg, time.Duration(muxErrs[0].t), tailLogs(r.Logs))}}
			}
			return expectNone()
		case !t.hasTimeout():
			return expectNone()
		case dk == dZero || dk == dBefore:
			return expectNone()
		case dk == dAt:
			// both outcomes allowed (the timer and the move race at T). The re-entered initial
			// state is strict like every other state: the exemption of the property covers only
			// the very first visit, before any message was exchanged.
			if len(errs) == 0 {
				return expectNone()
			}
			return oneTimeout()
		default:
			return oneTimeout()
		}
	}
	return e1lib.Scenario{Name: name, Body: body, Check: check, Cfg: rt.Config{Horizon: horizon, MaxSteps: 400000}}
}

// awaitDraw waits for the value the engine draws on entering a TimeoutFunc state (the prefix
// runs at virtual time 0, so one second is ample).
func awaitDraw(pos string, c chan time.Duration, fallback time.Duration) time.Duration {
	s := rt.NewSel(pos, false)
	rt.SelRecvCase(s, c)
	rt.SelRecvCase(s, vtime.After(time.Second))
	if s.Choose() == 0 {
		return rt.SelVal(s, c)
	}
	rt.Log("no-draw")
	return fallback
}

func tailLogs(s []string) []string {
	if len(s) > 12 {
		return s[len(s)-12:]
	}
	return s
}

func allTargets() ([]target, []string) {
	var ts []target
	var notes []string
	for _, id := range protos.IDs() {
		t, n := plan(id)
		ts = append(ts, t...)
		notes = append(notes, n...)
	}
	return ts, notes
}

// TestC14Plan prints the table of states under test (debugging aid, no executions).
func TestC14Plan(t *testing.T) {
	if os.Getenv("VERIF_PLAN") == "" {
		t.Skip()
	}
	ts, notes := allTargets()
	for _, x := range ts {
		p := protos.Build(x.id)
		var path []string
		for _, i := range x.path {
			path = append(path, p.Alphabet[i].Label)
		}
		mv := "-"
		if x.move >= 0 {
			mv = p.Alphabet[x.move].Label
		}
		fmt.Printf("%-40s %-22s T=%-10v dyn=%-5v local=%-5v nextT=%-8v maxT=%-8v path=%v move=%s\n", x.id, stateTag(&x), x.T, x.dynamic, x.localMv, x.nextT, x.maxT, path, mv)
	}
	sort.Strings(notes)
	for _, n := range notes {
		fmt.Println("NOTE", n)
	}
}

func TestC14(t *testing.T) {
	e1lib.Main(t, "C14", func(thorough bool) []e1lib.Scenario {
		var scs []e1lib.Scenario
		// every state of every running configuration against the package-level declaration
		var sf []rt.Finding
		for _, id := range protos.IDs() {
			sf = append(sf, structure(id)...)
		}
		scs = append(scs, e1lib.Scenario{Name: "structure|all-36-configurations", Body: func() { rt.Log("compared %d configurations", len(protos.IDs())) },
			Check: func(*rt.Result) []rt.Finding { return sf }, Cfg: rt.Config{Horizon: time.Second}, MinB: 0, MaxB: 0, Budget: 30 * time.Second})
		ts, _ := allTargets()
		full := map[string]bool{"chain-sync/NtN": true, "block-fetch/NtN": true, "tx-submission/NtN": true, "local-tx-monitor/NtC": true, "handshake/NtN": true, "keep-alive/NtN": true}
		for _, x := range ts {
			if x.T > 0 && x.T < time.Second || x.nextT > 0 && x.nextT < time.Second {
				panic(fmt.Sprintf("%s %s: timeouts below 1 s are not supported by the harness's 1 ms grace", x.id, x.state.Name))
			}
			add := func(dk deltaKind, minB, maxB int) {
				s := scenario(x, dk)
				s.MinB, s.MaxB, s.Budget = minB, maxB, 120*time.Second
				if thorough {
					s.Budget = 300 * time.Second
				}
				scs = append(scs, s)
			}
			big := x.T > 600*time.Second // many background ticks: canonical schedule (+1 deviation in thorough)
			b := 1
			if big && !thorough {
				b = 0
			}
			// a connection nobody else uses (NtC has no keep-alive protocol), quiet for 121 s in a state
			// without a timeout: ONE representative (chain-sync NtC client waiting at the tip for the
			// next block); VERIF_C14_QUIET=all runs it for every NtC client state
			if strings.HasSuffix(x.id, "NtC/client") && (!x.hasTimeout() || x.T > quietFor+time.Second) && x.move >= 0 &&
				(os.Getenv("VERIF_C14_QUIET") == "all" || x.id == "chain-sync/NtC/client" && x.state.Name == "MustReply") {
				add(dQuiet, 0, 0)
			}
			if !x.hasTimeout() {
				lb := 0
				if thorough && x.maxT <= 600*time.Second {
					lb = 1
				}
				add(dLong, 0, lb)
				continue
			}
			if x.move >= 0 {
				add(dZero, b, b)
				add(dBefore, b, b)
				// the race between the timer and the arriving move: two deviations in thorough for
				// the structurally different families
				if thorough && !big && full[x.id[:strings.LastIndex(x.id, "/")]] {
					add(dAt, 1, 2)
				} else {
					add(dAt, b, b)
				}
				add(dAfter, b, b)
			}
			add(dNever, b, b)
		}
		return scs
	})
}
