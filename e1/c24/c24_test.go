// C24: tx-submission keeps its acknowledgement window consistent.
//
// Seam S3: the real txsubmission.Server (inbound side, requests ids) and the real
// txsubmission.Client (outbound side) each on a real muxer, joined by two scheduler-owned
// connections with a harness relay ("tap") in between that parses every segment with the
// harness' own CBOR reader, logs the messages and forwards the bytes. A connection-owner
// goroutine per side does what ouroboros.Connection does: the first error on the protocol
// error channel or the muxer error channel stops the muxer.
//
// Outer loop: server-side API histories, explored breadth-first over the states of the
// reference model of the window (dedup argued in harness/c24/meta.json); plus every
// history up to a small length without dedup; plus a mirror in which a raw misbehaving
// server drives the real Client.
package c24

import (
	"encoding/binary"
	"errors"
	"fmt"
	"io"
	"math/big"
	"strings"
	"testing"
	"time"

	"github.com/blinklabs-io/gouroboros/connection"
	"github.com/blinklabs-io/gouroboros/muxer"
	"github.com/blinklabs-io/gouroboros/protocol"
	"github.com/blinklabs-io/gouroboros/protocol/txsubmission"
	rt "github.com/blinklabs-io/gouroboros/verifrt"
	vtime "github.com/blinklabs-io/gouroboros/verifrt/vtime"
	"verif/e1/e1lib"
	"verif/e1/s2lib"
	"verif/space"
)

const protoID = 4 // tx-submission (network specification, mini-protocol numbers)

// ---- histories -------------------------------------------------------------------------

// op is one server-side API call together with the answer the client application gives.
type op struct {
	txs      bool // RequestTxs(all ids received and not yet acknowledged)
	blocking bool
	req      int
	ans      int // number of ids the client callback returns; -1 = the stop error
}

func (o op) String() string {
	if o.txs {
		return "T"
	}
	b := "n"
	if o.blocking {
		b = "b"
	}
	a := fmt.Sprint(o.ans)
	if o.ans < 0 {
		a = "stop"
	}
	if !inRange(o.req) {
		a = "-"
	}
	return fmt.Sprintf("%s%d>%s", b, o.req, a)
}

func histName(h []op) string {
	if len(h) == 0 {
		return "-"
	}
	s := make([]string, len(h))
	for i, o := range h {
		s[i] = o.String()
	}
	return strings.Join(s, ",")
}

// closingOp is issued after every history that leaves the conversation alive.
var closingOp = op{req: 1, ans: 0}

func inRange(v int) bool { return v >= 0 && v <= 65535 }

var reqAlphabet = []int{0, 1, 3, 65535, 65536}
var ansAlphabet = []int{0, 1, 2, 4, -1}

func alphabet(reqs, anss []int) []op {
	var out []op
	for _, b := range []bool{false, true} {
		for _, r := range reqs {
			if !inRange(r) {
				out = append(out, op{blocking: b, req: r})
				continue
			}
			for _, a := range anss {
				out = append(out, op{blocking: b, req: r, ans: a})
			}
		}
	}
	return append(out, op{txs: true})
}

// ---- reference model of the window (written from the property statement) -----------------

// mstate is the state of the conversation as the specification sees it.
type mstate struct {
	unacked   int  // ids the inbound side has received and not yet acknowledged
	restarted bool // the outbound side ended the protocol at least once and re-initialised
	over      bool // the connection is gone (client application error): nothing more can happen
}

// step is the reference transition. It also predicts the implementation's bookkeeping
// (next acknowledgement = everything received so far): that prediction is not part of the
// property, it is what makes the static dedup checkable (see final-state check).
func (m mstate) step(o op) mstate {
	switch {
	case m.over:
	case o.txs:
	case !inRange(o.req): // rejected locally, nothing sent
	case o.ans >= 0:
		m.unacked = o.ans // all previous ids are acknowledged by this request
	case o.blocking: // Done: conversation ends, harness re-initialises the client
		m.unacked = 0
		m.restarted = true
	default: // stop error in answer to a non-blocking request: client reports an error
		m.over = true
	}
	return m
}

// ---- the closed harness for one history ---------------------------------------------------

func errStr(err error) string {
	if err == nil {
		return "nil"
	}
	return "(" + err.Error() + ")"
}

func bigOf(n *space.Node) string {
	switch n.Major {
	case 0:
		return new(big.Int).SetUint64(n.Arg).String()
	case 1:
		v := new(big.Int).SetUint64(n.Arg)
		return v.Neg(v).Sub(v, big.NewInt(1)).String()
	}
	return fmt.Sprintf("major%d", n.Major)
}

// describe renders one tx-submission message parsed with the harness' own CBOR reader.
func describe(msg []byte) string {
	n, err := space.Parse(msg)
	if err != nil || !n.IsArray() || len(n.Items) == 0 || n.Items[0].Major != 0 {
		return fmt.Sprintf("other %x", msg)
	}
	it := n.Items
	switch it[0].Arg {
	case 0:
		if len(it) == 4 && it[1].Major == 7 && (it[1].Arg == 20 || it[1].Arg == 21) {
			return fmt.Sprintf("ids b=%t ack=%s req=%s", it[1].Arg == 21, bigOf(it[2]), bigOf(it[3]))
		}
	case 1:
		if len(it) == 2 && it[1].IsArray() {
			return fmt.Sprintf("reply n=%d", len(it[1].Items))
		}
	case 2:
		if len(it) == 2 && it[1].IsArray() {
			return fmt.Sprintf("txs k=%d", len(it[1].Items))
		}
	case 3:
		if len(it) == 2 && it[1].IsArray() {
			return fmt.Sprintf("txsreply n=%d", len(it[1].Items))
		}
	case 4:
		if len(it) == 1 {
			return "done"
		}
	case 6:
		if len(it) == 1 {
			return "init"
		}
	}
	return fmt.Sprintf("other %x", msg)
}

// relay forwards segments from src to dst, logging every complete message BEFORE the
// segment that completes it is forwarded (so the log orders the observation before any
// reaction of the receiver). When src ends, dst is closed: the end of the connection
// propagates as it would through a socket.
func relay(dir string, src, dst *rt.Conn) chan struct{} {
	done := make(chan struct{})
	rt.Go("relay "+dir, func() {
		var stream []byte
		hdr := make([]byte, 8)
		for {
			if _, err := io.ReadFull(src, hdr); err != nil {
				break
			}
			pl := make([]byte, int(binary.BigEndian.Uint16(hdr[6:])))
			if _, err := io.ReadFull(src, pl); err != nil {
				break
			}
			id := binary.BigEndian.Uint16(hdr[4:])
			if id&0x7fff != protoID {
				rt.Log("wire %s foreign-protocol %d", dir, id&0x7fff)
			}
			stream = append(stream, pl...)
			for len(stream) > 0 {
				_, used, err := space.ParsePrefix(stream)
				if err != nil {
					break
				}
				rt.Log("wire %s %s", dir, describe(stream[:used]))
				stream = stream[used:]
			}
			if _, err := dst.Write(append(append([]byte(nil), hdr...), pl...)); err != nil {
				break
			}
		}
		dst.Close()
		rt.Close("h:relayDone", done)
	})
	return done
}

// owner mimics ouroboros.Connection: the first protocol or muxer error stops the muxer
// (which closes the connection); it ends when the muxer has shut down.
func owner(name string, protoErrs chan error, m *muxer.Muxer) (down, done chan struct{}) {
	down, done = make(chan struct{}), make(chan struct{})
	rt.Go("owner "+name, func() {
		s := rt.NewSel("h:owner "+name, false)
		rt.SelRecvCase(s, protoErrs)
		rt.SelRecvCase(s, m.ErrorChan())
		switch s.Choose() {
		case 0:
			rt.Log("err %s proto %s", name, errStr(rt.SelVal(s, protoErrs)))
		case 1:
			if err, ok := rt.SelVal2(s, m.ErrorChan()); ok {
				rt.Log("err %s mux %s", name, errStr(err))
			}
		}
		rt.Close("h:down "+name, down)
		m.Stop()
		for range rt.Range("h:muxerrs "+name, m.ErrorChan()) {
		}
		rt.Close("h:ownerDone "+name, done)
	})
	return
}

func connID(c *rt.Conn) connection.ConnectionId {
	return connection.ConnectionId{LocalAddr: c.LocalAddr(), RemoteAddr: c.RemoteAddr()}
}

func mkIds(from, n int) []txsubmission.TxIdAndSize {
	out := make([]txsubmission.TxIdAndSize, n)
	for i := range out {
		out[i].TxId.EraId = 5
		binary.BigEndian.PutUint32(out[i].TxId.TxId[:], uint32(from+i+1))
		out[i].Size = uint32(100 + from + i)
	}
	return out
}

func pairBody(h []op, noDoneFunc bool) func() {
	// the client application's answers, in callback order
	var answers []int
	for _, o := range h {
		if !o.txs && inRange(o.req) {
			answers = append(answers, o.ans)
		}
	}
	answers = append(answers, closingOp.ans)
	return func() {
		sa, tapS := rt.ConnPair("srv", "tapS")
		tapC, ca := rt.ConnPair("tapC", "cli")
		r1 := relay("S>C", tapS, tapC)
		r2 := relay("C>S", tapC, tapS)

		initSeen := make(chan struct{}, 8)
		// server configuration: InitFunc is mandatory (Init is refused without it); DoneFunc
		// is optional and the restart path after Done branches on it, so both are explored
		sopts := []txsubmission.TxSubmissionOptionFunc{
			txsubmission.WithInitFunc(func(txsubmission.CallbackContext) error {
				rt.Log("cb init")
				rt.Send("h:initSeen", initSeen, struct{}{})
				return nil
			}),
		}
		if !noDoneFunc {
			sopts = append(sopts, txsubmission.WithDoneFunc(func(txsubmission.CallbackContext) error {
				rt.Log("cb done")
				return nil
			}))
		}
		scfg := txsubmission.NewConfig(sopts...)
		nCb, nIds := 0, 0
		ccfg := txsubmission.NewConfig(
			txsubmission.WithRequestTxIdsFunc(func(_ txsubmission.CallbackContext, b bool, ack, req uint16) ([]txsubmission.TxIdAndSize, error) {
				a := 0
				if nCb < len(answers) {
					a = answers[nCb]
				}
				nCb++
				rt.Log("cb ids b=%t ack=%d req=%d -> %d", b, ack, req, a)
				if a < 0 {
					return nil, txsubmission.ErrStopServerProcess
				}
				ids := mkIds(nIds, a)
				nIds += a
				return ids, nil
			}),
			txsubmission.WithRequestTxsFunc(func(_ txsubmission.CallbackContext, ids []txsubmission.TxId) ([]txsubmission.TxBody, error) {
				out := make([]txsubmission.TxBody, len(ids))
				for i, id := range ids {
					out[i] = txsubmission.TxBody{EraId: id.EraId, TxBody: []byte{0x80 + byte(i%8)}}
				}
				return out, nil
			}),
		)
		smux, cmux := muxer.New(sa), muxer.New(ca)
		serrs, cerrs := make(chan error, 10), make(chan error, 10)
		srv := txsubmission.NewServer(protocol.ProtocolOptions{ConnectionId: connID(sa), Muxer: smux, ErrorChan: serrs,
			Mode: protocol.ProtocolModeNodeToNode, Role: protocol.ProtocolRoleServer, Version: 14}, &scfg)
		cli := txsubmission.NewClient(protocol.ProtocolOptions{ConnectionId: connID(ca), Muxer: cmux, ErrorChan: cerrs,
			Mode: protocol.ProtocolModeNodeToNode, Role: protocol.ProtocolRoleClient, Version: 14}, &ccfg)
		sDown, sDone := owner("srv", serrs, smux)
		_, cDone := owner("cli", cerrs, cmux)
		srv.Start()
		smux.SetDiffusionMode(muxer.DiffusionModeResponder)
		smux.Start()
		cli.Start()
		cmux.SetDiffusionMode(muxer.DiffusionModeInitiator)
		cmux.Start()
		cli.Init()
		waitInit := func() bool {
			s := rt.NewSel("h:waitInit", false)
			rt.SelRecvCase(s, initSeen)
			rt.SelRecvCase(s, sDown)
			return s.Choose() == 0
		}
		alive := waitInit()
		ended := false                      // the outbound side ended the protocol (Done)
		var held []txsubmission.TxIdAndSize // received and not yet acknowledged (harness view)
		// an application that wants to go on after Done restarts its client and sends Init
		// again (once everything has settled)
		reinit := func() {
			if alive && ended {
				vtime.Sleep(100 * time.Millisecond)
				cli.Stop()
				cli.Start()
				cli.Init()
				alive = waitInit()
				ended = false
			}
		}
		requestIds := func(o op) {
			rt.Log("api ids b=%t req=%d", o.blocking, o.req)
			ids, err := srv.RequestTxIds(o.blocking, o.req)
			rt.Log("ret ids n=%d err=%s", len(ids), errStr(err))
			switch {
			case err == nil:
				held = ids
			case !inRange(o.req):
				// local rejection: the conversation is untouched
			case errors.Is(err, txsubmission.ErrStopServerProcess):
				held = nil
				ended = true
			default:
				alive = false
			}
		}
		for _, o := range h {
			reinit()
			if !alive {
				break
			}
			if o.txs {
				ids := make([]txsubmission.TxId, len(held))
				for j := range held {
					ids[j] = held[j].TxId
				}
				rt.Log("api txs k=%d", len(ids))
				txs, err := srv.RequestTxs(ids)
				rt.Log("ret txs n=%d err=%s", len(txs), errStr(err))
				if err != nil {
					alive = false
				}
				continue
			}
			requestIds(o)
		}
		vtime.Sleep(50 * time.Millisecond)
		sp, cp := srv.ProtocolInstance(), cli.ProtocolInstance()
		rt.Log("final ack=%d sstate=%s cstate=%s", srv.VerifAckCount(), sp.VerifCurrentState(), cp.VerifCurrentState())
		// closing request: whatever the server's bookkeeping has become after the history
		// shows on the wire as the acknowledgement of one more (non-blocking) request
		reinit()
		if alive {
			rt.Log("closing")
			requestIds(closingOp)
		}
		// connection shutdown as ouroboros.Connection does it: stop the muxers
		smux.Stop()
		cmux.Stop()
		rt.Recv("h:sDone?", sDone)
		rt.Recv("h:cDone?", cDone)
		rt.Recv("h:r1?", r1)
		rt.Recv("h:r2?", r2)
		rt.Log("end")
	}
}

func verdictFinding(r *rt.Result) []rt.Finding {
	if r.Verdict.Kind != "ok" {
		k := r.Verdict.Kind
		if k == "panic" {
			k += ":" + strings.SplitN(r.Verdict.Detail, "\n", 2)[0]
		}
		return []rt.Finding{{Key: "verdict:" + k, What: r.Verdict.Detail + " " + strings.Join(r.Verdict.Stuck, "; ")}}
	}
	return nil
}

// monitor is the oracle over the totally ordered observation log. It knows the property,
// not the implementation: it keeps the number of ids received and not yet acknowledged as
// seen ON THE WIRE and checks every request against it.
func monitor(logs []string) []rt.Finding {
	var out []rt.Finding
	add := func(key, what string) {
		for _, f := range out {
			if f.Key == key {
				return
			}
		}
		out = append(out, rt.Finding{Key: key, What: what})
	}
	unacked := new(big.Int)
	type pend struct {
		active, blocking bool
		req              int
		sent             bool
	}
	var api pend                // the RequestTxIds API call in flight
	lastReq := ""               // last server message not yet answered: "", "b", "n", "txs"
	var ctx []string            // short context for messages
	maxU16 := big.NewInt(65535) // counts are 16-bit
	for _, l := range logs {
		if len(ctx) < 40 {
			ctx = append(ctx, l)
		}
		switch {
		case strings.HasPrefix(l, "api ids "):
			api = pend{active: true}
			fmt.Sscanf(l, "api ids b=%t req=%d", &api.blocking, &api.req)
		case strings.HasPrefix(l, "ret ids "):
			if api.active && !inRange(api.req) && strings.HasSuffix(l, "err=nil") {
				add("c24:out-of-range-request-not-rejected", fmt.Sprintf("RequestTxIds(req=%d) returned no error: %s", api.req, l))
			}
			api.active = false
		case strings.HasPrefix(l, "wire S>C ids "):
			var b bool
			var acks, reqs string
			fmt.Sscanf(l, "wire S>C ids b=%t ack=%s req=%s", &b, &acks, &reqs)
			ack, ok1 := new(big.Int).SetString(strings.TrimPrefix(acks, "ack="), 10)
			req, ok2 := new(big.Int).SetString(strings.TrimPrefix(reqs, "req="), 10)
			if !ok1 || !ok2 {
				add("c24:wire-count-not-an-integer", l)
				continue
			}
			if ack.Sign() < 0 || ack.Cmp(maxU16) > 0 {
				add("c24:wire-ack-out-of-range", l)
			}
			if req.Sign() < 0 || req.Cmp(maxU16) > 0 {
				add("c24:wire-req-out-of-range", l)
			}
			if ack.Cmp(unacked) > 0 {
				add("c24:ack-exceeds-unacknowledged", fmt.Sprintf("%s while %s ids were received and not yet acknowledged; log %v", l, unacked, ctx))
			}
			if !api.active || api.sent {
				add("c24:request-without-api-call", l)
			} else {
				if !inRange(api.req) {
					add("c24:out-of-range-request-sent", fmt.Sprintf("RequestTxIds(req=%d) put %s on the wire", api.req, l))
				} else if req.Cmp(big.NewInt(int64(api.req))) != 0 || b != api.blocking {
					add("c24:wire-request-differs-from-api", fmt.Sprintf("RequestTxIds(blocking=%t, req=%d) sent %s", api.blocking, api.req, l))
				}
				api.sent = true
			}
			unacked.Sub(unacked, ack)
			if unacked.Sign() < 0 {
				unacked.SetInt64(0)
			}
			lastReq = "n"
			if b {
				lastReq = "b"
			}
		case strings.HasPrefix(l, "wire S>C txs "):
			lastReq = "txs"
		case strings.HasPrefix(l, "wire C>S reply "):
			var n int64
			fmt.Sscanf(l, "wire C>S reply n=%d", &n)
			unacked.Add(unacked, big.NewInt(n))
			lastReq = ""
		case strings.HasPrefix(l, "wire C>S txsreply "):
			lastReq = ""
		case l == "wire C>S done":
			if lastReq != "b" {
				add("c24:done-not-answering-blocking-request", fmt.Sprintf("Done on the wire while the pending server request is %q; log %v", lastReq, ctx))
			}
			lastReq = ""
			unacked.SetInt64(0) // a new conversation starts with Init
		case strings.HasPrefix(l, "wire ") && strings.Contains(l, " other "):
			add("c24:unparseable-message-on-wire", l)
		}
	}
	return out
}

// histOf remembers the history of every pair scenario (for the configuration variants).
var histOf = map[string][]op{}

// hasDone reports whether the history makes the outbound side end the protocol.
func hasDone(h []op) bool {
	m := mstate{}
	for _, o := range h {
		if !m.over && !o.txs && inRange(o.req) && o.blocking && o.ans < 0 {
			return true
		}
		m = m.step(o)
	}
	return false
}

func pairScenario(group string, h []op, noDoneFunc bool) e1lib.Scenario {
	h = append([]op(nil), h...)
	want := mstate{}
	for _, o := range h {
		want = want.step(o)
	}
	check := func(r *rt.Result) []rt.Finding {
		if f := verdictFinding(r); f != nil {
			return f
		}
		out := monitor(r.Logs)
		// expectations that make the run non-vacuous and the dedup checkable
		nWire, sawCliErr, final := 0, false, ""
		for _, l := range r.Logs {
			switch {
			case strings.HasPrefix(l, "wire S>C ids "):
				nWire++
			case strings.HasPrefix(l, "err cli proto "):
				sawCliErr = true
			case strings.HasPrefix(l, "final "):
				final = l
			}
		}
		// how many requests the reference expects on the wire
		m, wantWire := mstate{}, 0
		for _, o := range h {
			if !m.over && !o.txs && inRange(o.req) {
				wantWire++
			}
			m = m.step(o)
		}
		if !m.over {
			wantWire++ // the closing request
		}
		if nWire != wantWire {
			out = append(out, rt.Finding{Key: "harness:requests-on-wire", What: fmt.Sprintf("expected %d RequestTxIds messages on the wire, saw %d: %v", wantWire, nWire, r.Logs)})
		}
		if want.over && !sawCliErr {
			out = append(out, rt.Finding{Key: "c24:stop-on-nonblocking-not-an-error", What: fmt.Sprintf("the client application returned the stop error to a non-blocking request and the client reported no error: %v", r.Logs)})
		}
		if !want.over {
			// the implementation state the static dedup relies on (not a window property)
			wantFinal := fmt.Sprintf("final ack=%d sstate=Idle cstate=Idle", want.unacked)
			if len(h) > 0 && !h[len(h)-1].txs && inRange(h[len(h)-1].req) && h[len(h)-1].ans < 0 {
				// ended by Done and not re-initialised: server restarted and waits for Init
				wantFinal = "final ack=0 sstate=Init cstate=Done"
			}
			if final != wantFinal {
				out = append(out, rt.Finding{Key: "assumption:canonical-state-prediction", What: fmt.Sprintf("dedup assumption (not a window violation): predicted %q, implementation reports %q; log %v", wantFinal, final, r.Logs)})
			}
		}
		return out
	}
	name := group + "|" + histName(h)
	histOf[name] = h
	return e1lib.Scenario{Name: name, Body: pairBody(h, noDoneFunc), Check: check, Cfg: rt.Config{Horizon: time.Hour}}
}

// ---- mirror: a raw misbehaving server against the real Client -----------------------------

type rawReq struct {
	label    string
	blocking bool
	ack, req int64
	ans      int  // what the client application would answer
	bad      bool // the request exceeds the limits: the client must report an error and not reply
	observe  bool // forbidden by the network specification but not by the property statement:
	// what the client does is recorded as an outcome label in the log, never a finding
}

func rawIds(b bool, ack, req int64) []byte {
	return space.A(space.U(0), space.Bool(b), space.NInt(ack), space.NInt(req)).Encode()
}

func mirrorScenario(name string, script []rawReq) e1lib.Scenario {
	body := func() {
		peer, ca := rt.ConnPair("rawsrv", "cli")
		nCb, nIds := 0, 0
		ccfg := txsubmission.NewConfig(
			txsubmission.WithRequestTxIdsFunc(func(_ txsubmission.CallbackContext, b bool, ack, req uint16) ([]txsubmission.TxIdAndSize, error) {
				a := 0
				if nCb < len(script) {
					a = script[nCb].ans
				}
				nCb++
				rt.Log("cb ids b=%t ack=%d req=%d -> %d", b, ack, req, a)
				if a < 0 {
					return nil, txsubmission.ErrStopServerProcess
				}
				ids := mkIds(nIds, a)
				nIds += a
				return ids, nil
			}),
			txsubmission.WithRequestTxsFunc(func(_ txsubmission.CallbackContext, ids []txsubmission.TxId) ([]txsubmission.TxBody, error) {
				return nil, nil
			}),
		)
		cmux := muxer.New(ca)
		cerrs := make(chan error, 10)
		cli := txsubmission.NewClient(protocol.ProtocolOptions{ConnectionId: connID(ca), Muxer: cmux, ErrorChan: cerrs,
			Mode: protocol.ProtocolModeNodeToNode, Role: protocol.ProtocolRoleClient, Version: 14}, &ccfg)
		_, cDone := owner("cli", cerrs, cmux)
		rdDone := make(chan struct{})
		nAnswers := 0 // messages other than Init seen from the client
		rt.Go("rawsrv reader", func() {
			s2lib.WireReader(peer, nil, func(id uint16, msg []byte) {
				d := describe(msg)
				if d != "init" {
					nAnswers++
				}
				rt.Log("wire C>S %s", d)
			})
			rt.Close("h:rdDone", rdDone)
		})
		cli.Start()
		cmux.SetDiffusionMode(muxer.DiffusionModeInitiator)
		cmux.Start()
		cli.Init()
		vtime.Sleep(10 * time.Millisecond)
		for _, q := range script {
			rt.Log("send %s b=%t ack=%d req=%d", q.label, q.blocking, q.ack, q.req)
			if _, err := peer.Write(s2lib.Segment(protoID, true, rawIds(q.blocking, q.ack, q.req))); err != nil {
				rt.Log("peer write failed")
				break
			}
			// let everything that can happen happen (virtual time moves only when nothing can run)
			before := nAnswers
			vtime.Sleep(10 * time.Millisecond)
			if q.observe {
				if nAnswers > before {
					rt.Log("outcome %s: complied", q.label)
				} else {
					rt.Log("outcome %s: not served", q.label)
				}
			}
		}
		rt.Log("quiet")
		peer.Close()
		cmux.Stop()
		rt.Recv("h:cDone?", cDone)
		rt.Recv("h:rdDone?", rdDone)
		rt.Log("end")
	}
	check := func(r *rt.Result) []rt.Finding {
		if f := verdictFinding(r); f != nil {
			return f
		}
		var out []rt.Finding
		cur := -1 // index of the request sent last
		replies := make([]string, len(script))
		errAfter := make([]bool, len(script))
		quiet := false
		for _, l := range r.Logs {
			switch {
			case strings.HasPrefix(l, "send "):
				cur++
			case l == "quiet":
				quiet = true
			case strings.HasPrefix(l, "wire C>S reply") || l == "wire C>S done":
				if cur >= 0 && !quiet {
					replies[cur] = l
				}
			case strings.HasPrefix(l, "err cli proto "):
				if cur >= 0 && !quiet {
					errAfter[cur] = true
				}
			}
		}
		firstBad := -1
		for i, q := range script {
			if q.bad || q.observe {
				firstBad = i
				break
			}
		}
		for i, q := range script {
			switch {
			case firstBad >= 0 && i > firstBad:
			case q.observe:
				// recorded in the log ("outcome ..."), nothing demanded
			case q.bad:
				if replies[i] != "" {
					out = append(out, rt.Finding{Key: "c24:client-complies|" + q.label, What: fmt.Sprintf("the real Client answered %q to the request %s(blocking=%t ack=%d req=%d) instead of reporting a protocol error; log %v", replies[i], q.label, q.blocking, q.ack, q.req, r.Logs)})
				} else if !errAfter[i] {
					out = append(out, rt.Finding{Key: "c24:client-silent|" + q.label, What: fmt.Sprintf("no protocol error reported for %s; log %v", q.label, r.Logs)})
				}
			default:
				// a conforming request must be served (otherwise the mirror is vacuous)
				want := fmt.Sprintf("wire C>S reply n=%d", q.ans)
				if q.ans < 0 {
					want = "wire C>S done"
					if !q.blocking {
						// stop in answer to a non-blocking request: error, never Done
						if replies[i] != "" {
							out = append(out, rt.Finding{Key: "c24:done-not-answering-blocking-request", What: fmt.Sprintf("client sent %q to a non-blocking request; log %v", replies[i], r.Logs)})
						} else if !errAfter[i] {
							out = append(out, rt.Finding{Key: "c24:stop-on-nonblocking-not-an-error", What: fmt.Sprintf("log %v", r.Logs)})
						}
						continue
					}
				}
				if replies[i] != want || errAfter[i] {
					out = append(out, rt.Finding{Key: "harness:conforming-request-not-served|" + q.label, What: fmt.Sprintf("expected %q and no error, got %q err=%v; log %v", want, replies[i], errAfter[i], r.Logs)})
				}
			}
		}
		return out
	}
	full := "mirror|" + name
	if strings.HasPrefix(name, "observe:") {
		// sorts first, so that the evidence samples (first 12 scenarios) show the outcome labels
		full = "0observe|" + strings.TrimPrefix(name, "observe:")
	}
	return e1lib.Scenario{Name: full, Body: body, Check: check, Cfg: rt.Config{Horizon: time.Hour}}
}

func mirrors() []e1lib.Scenario {
	ok2 := rawReq{label: "valid-nb", ack: 0, req: 2, ans: 2}
	return []e1lib.Scenario{
		// controls: conforming servers are served
		mirrorScenario("valid:nb(0,2)>2,b(2,1)>1", []rawReq{ok2, {label: "valid-b", blocking: true, ack: 2, req: 1, ans: 1}}),
		mirrorScenario("valid:b(0,1)>stop", []rawReq{{label: "valid-b-stop", blocking: true, ack: 0, req: 1, ans: -1}}),
		mirrorScenario("valid:nb(0,65535)>4,nb(4,65535)>0", []rawReq{{label: "valid-max", req: 65535, ans: 4}, {label: "valid-max2", ack: 4, req: 65535, ans: 0}}),
		mirrorScenario("appstop:nb(0,1)>stop", []rawReq{{label: "nb-stop", req: 1, ans: -1}}),
		// counts that do not fit 16 bits
		mirrorScenario("limit:req=65536", []rawReq{{label: "req=65536", req: 65536, ans: 1, bad: true}}),
		mirrorScenario("limit:ack=65536", []rawReq{{label: "ack=65536", ack: 65536, req: 1, ans: 1, bad: true}}),
		mirrorScenario("limit:req=-1", []rawReq{{label: "req=-1", req: -1, ans: 1, bad: true}}),
		mirrorScenario("limit:ack=-1", []rawReq{{label: "ack=-1", ack: -1, req: 1, ans: 1, bad: true}}),
		mirrorScenario("limit:b,req=65536", []rawReq{{label: "b,req=65536", blocking: true, req: 65536, ans: 1, bad: true}}),
		mirrorScenario("limit:valid,then-req=65536", []rawReq{ok2, {label: "req=65536", ack: 2, req: 65536, ans: 1, bad: true}}),
		// observations (never findings): the network specification forbids these requests, the
		// property statement does not ask the outbound side to police them
		mirrorScenario("observe:first-ack=1", []rawReq{{label: "ack>outstanding", ack: 1, req: 1, ans: 1, observe: true}}),
		mirrorScenario("observe:nb(0,2)>2,ack=3", []rawReq{ok2, {label: "ack>outstanding", ack: 3, req: 1, ans: 1, observe: true}}),
		mirrorScenario("observe:nb(0,2)>2,b,ack=65535", []rawReq{ok2, {label: "ack>outstanding", blocking: true, ack: 65535, req: 1, ans: 1, observe: true}}),
		mirrorScenario("observe:b(0,0)", []rawReq{{label: "blocking-req=0", blocking: true, ack: 0, req: 0, ans: 0, observe: true}}),
		mirrorScenario("observe:nb(0,0)", []rawReq{{label: "nonblocking-ack=0-req=0", ack: 0, req: 0, ans: 0, observe: true}}),
	}
}

// ---- scenario generation ---------------------------------------------------------------

// bfs explores histories breadth-first over the reference model's states: one scenario
// per (representative history of a state, operation); a state reached again is not expanded.
func bfs(maxDepth int, ops []op) (scs []e1lib.Scenario, closedAt int, nStates int) {
	type node struct {
		st  mstate
		rep []op
	}
	seen := map[mstate]bool{{}: true}
	frontier := []node{{}}
	closedAt = -1
	for d := 1; d <= maxDepth; d++ {
		var next []node
		for _, n := range frontier {
			for _, o := range ops {
				h := append(append([]op(nil), n.rep...), o)
				scs = append(scs, pairScenario("bfs", h, false))
				st := n.st.step(o)
				if !st.over && !seen[st] {
					seen[st] = true
					next = append(next, node{st, h})
				}
			}
		}
		frontier = next
		if len(frontier) == 0 {
			closedAt = d
			break
		}
	}
	return scs, closedAt, len(seen)
}

// all enumerates every history up to maxLen without dedup (terminal prefixes not extended).
func all(maxLen int, ops []op, skip map[string]bool) []e1lib.Scenario {
	var scs []e1lib.Scenario
	var rec func(h []op, st mstate)
	rec = func(h []op, st mstate) {
		if len(h) > 0 {
			if n := histName(h); !skip[n] {
				scs = append(scs, pairScenario("all", h, false))
			}
		}
		if len(h) == maxLen || st.over {
			return
		}
		for _, o := range ops {
			rec(append(append([]op(nil), h...), o), st.step(o))
		}
	}
	rec(nil, mstate{})
	return scs
}

func TestC24(t *testing.T) {
	e1lib.Main(t, "C24", func(thorough bool) []e1lib.Scenario {
		full := alphabet(reqAlphabet, ansAlphabet)
		depth := 4
		if thorough {
			depth = 5
		}
		scs, _, _ := bfs(depth, full)
		have := map[string]bool{}
		for _, s := range scs {
			have[strings.TrimPrefix(s.Name, "bfs|")] = true
		}
		// no-dedup cross-check of the dedup argument
		addAll := func(maxLen int, ops []op) {
			for _, s := range all(maxLen, ops, have) {
				have[strings.TrimPrefix(s.Name, "all|")] = true
				scs = append(scs, s)
			}
		}
		small := alphabet([]int{1, 65535, 65536}, []int{0, 2, -1})
		if thorough {
			addAll(2, full)
			addAll(3, small)
		} else {
			addAll(2, small)
		}
		for i := range scs {
			scs[i].MinB, scs[i].MaxB, scs[i].Budget = 0, 0, 30*time.Second
		}
		// a handful under every schedule with one deviation
		handful := [][]op{
			{{blocking: true, req: 3, ans: 2}, {req: 1, ans: 1}},
			{{req: 3, ans: 4}, {txs: true}, {blocking: true, req: 65535, ans: 0}},
			{{blocking: true, req: 1, ans: -1}, {req: 3, ans: 2}},
			{{req: 1, ans: -1}},
			{{req: 65536}, {blocking: true, req: 1, ans: 1}, {blocking: true, req: 65536}},
			{{blocking: true, req: 3, ans: 4}, {blocking: true, req: 3, ans: -1}},
		}
		if !thorough {
			handful = handful[:4]
		}
		for _, h := range handful {
			s := pairScenario("sched", h, false)
			s.MinB, s.MaxB, s.Budget = 1, 1, 60*time.Second
			if thorough {
				s.Budget = 240 * time.Second
			}
			scs = append(scs, s)
		}
		// configuration dimension: every history that goes through Done (and the re-Init that
		// follows it) also runs against a server configured WITHOUT the optional DoneFunc
		for _, s := range append([]e1lib.Scenario(nil), scs...) {
			if h := histOf[s.Name]; hasDone(h) {
				v := pairScenario(strings.SplitN(s.Name, "|", 2)[0]+"/DoneFunc=nil", h, true)
				v.MinB, v.MaxB, v.Budget = s.MinB, s.MaxB, s.Budget
				scs = append(scs, v)
			}
		}
		for _, s := range mirrors() {
			s.MinB, s.MaxB, s.Budget = 1, 1, 30*time.Second
			scs = append(scs, s)
		}
		return scs
	})
}
