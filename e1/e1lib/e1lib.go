// Package e1lib drives E1 checks: it shards the scenarios of a harness over worker
// processes (the test binary re-executing itself), iterates the deviation bound inside
// each scenario, validates every finding by replaying it five times, and turns the
// aggregated result into evidence and VIOLATION / KNOWN-FINDING lines.
package e1lib

import (
	"bufio"
	"encoding/json"
	"fmt"
	"os"
	"os/exec"
	"runtime"
	"sort"
	"strconv"
	"strings"
	"sync"
	"testing"
	"time"

	rt "github.com/blinklabs-io/gouroboros/verifrt"
	"verif/vlib"
)

// Scenario is one closed harness: a body run as the first goroutine of a controlled
// execution and an oracle evaluated on every explored execution.
type Scenario struct {
	Name   string
	Body   func()
	Check  func(r *rt.Result) []rt.Finding
	Cfg    rt.Config
	MaxB   int           // largest deviation bound to attempt
	MinB   int           // bound that must complete for the scenario to count as covered
	Budget time.Duration // wall budget for this scenario (all bounds)
}

// spinLimit is the CPU time one scheduler step (goroutine-local computation between two
// synchronisation operations; normally micro- to milliseconds) may burn before the worker
// reports a livelock.
const spinLimit = 8 * time.Second

type scenResult struct {
	Name        string       `json:"name"`
	Bound       int          `json:"bound"` // largest completed bound (-1 = none)
	Exhausted   bool         `json:"exhausted"`
	Execs       int64        `json:"execs"`
	States      int64        `json:"states"`
	Transitions int64        `json:"transitions"`
	Outcomes    int          `json:"outcomes"`
	MaxDecs     int          `json:"max_decisions"`
	Unmodelled  int          `json:"unmodelled"`
	Divergences int          `json:"divergences"`
	Internal    []string     `json:"internal,omitempty"`
	Findings    []rt.Finding `json:"findings,omitempty"`
	Sample      []string     `json:"sample,omitempty"`
	Wall        float64      `json:"wall_s"`
	Poisoned    bool         `json:"poisoned,omitempty"`
}

// stableCheck makes an oracle's verdict independent of Go's randomised map iteration inside
// the oracle itself (an oracle that returns "the first problem it finds" while ranging over a
// map): when it reports anything, it is evaluated several more times on the same result and
// the findings are united by key, sorted.
func stableCheck(check func(r *rt.Result) []rt.Finding) func(r *rt.Result) []rt.Finding {
	return func(r *rt.Result) []rt.Finding {
		fs := check(r)
		if len(fs) == 0 {
			return nil
		}
		seen := map[string]rt.Finding{}
		for i := 0; i < 12; i++ {
			for _, f := range fs {
				if _, ok := seen[f.Key]; !ok {
					seen[f.Key] = f
				}
			}
			fs = check(r)
		}
		keys := make([]string, 0, len(seen))
		for k := range seen {
			keys = append(keys, k)
		}
		sort.Strings(keys)
		out := make([]rt.Finding, 0, len(keys))
		for _, k := range keys {
			out = append(out, seen[k])
		}
		return out
	}
}

func runScenario(t *testing.T, sc Scenario) scenResult {
	sc.Check = stableCheck(sc.Check)
	start := time.Now()
	res := scenResult{Name: sc.Name, Bound: -1}
	// the budget is CPU time of this (single-threaded) worker, so that a loaded machine does
	// not turn into "bound not completed"; a generous wall-clock cap remains as a safety net
	cpuDeadline := rt.ProcessCPU() + sc.Budget
	deadline := start.Add(20 * sc.Budget)
	if sc.Cfg.Horizon == 0 {
		sc.Cfg.Horizon = 24 * time.Hour
	}
	for b := 0; b <= sc.MaxB; b++ {
		x := &rt.Explorer{T: t, Cfg: sc.Cfg, Body: sc.Body, Check: sc.Check, Bound: b, Deadline: deadline, CPUDeadline: cpuDeadline}
		x.Run()
		res.Execs += x.Execs
		res.Unmodelled += x.Unmodelled
		res.Divergences += x.Divergences
		res.Internal = append(res.Internal, x.Internal...)
		for _, f := range x.Findings {
			dup := false
			for _, g := range res.Findings {
				if g.Key == f.Key {
					dup = true
				}
			}
			if !dup {
				res.Findings = append(res.Findings, f)
			}
		}
		if rt.Poisoned.Load() {
			res.Poisoned = true
			break
		}
		if x.Capped {
			break
		}
		res.Bound = b
		res.States, res.Transitions, res.Outcomes, res.MaxDecs = x.States, x.Transitions, len(x.Outcomes), x.MaxDecs
		// no alternative was cut by the bound: every interleaving of the harness was covered
		if x.BoundCuts == 0 {
			res.Exhausted = true
			break
		}
		if time.Now().After(deadline) || rt.ProcessCPU() > cpuDeadline {
			break
		}
	}
	// validate findings: the recorded schedule must reproduce the same key 5 times
	var good []rt.Finding
	for _, f := range res.Findings {
		ok := true
		for i := 0; i < 5 && ok && !rt.Poisoned.Load(); i++ {
			r := rt.Replay(t, sc.Cfg, sc.Body, f.Choices)
			hit := false
			for _, g := range sc.Check(r) {
				if g.Key == f.Key {
					hit = true
				}
			}
			if !hit {
				ok = false
			}
			if i == 0 {
				f.Trace = tail(r.Trace, 60)
			}
		}
		if ok {
			good = append(good, f)
		} else {
			res.Internal = append(res.Internal, "finding not reproducible from its schedule (nondeterminism not owned): "+f.Key)
		}
	}
	res.Findings = good
	if !rt.Poisoned.Load() {
		r := rt.Replay(t, sc.Cfg, sc.Body, nil)
		res.Sample = append([]string{"verdict=" + r.Verdict.Kind}, tail(r.Logs, 12)...)
	}
	res.Wall = time.Since(start).Seconds()
	return res
}

func tail(s []string, n int) []string {
	if len(s) > n {
		return s[len(s)-n:]
	}
	return s
}

// Main is the entry point of an E1 harness test.
func Main(t *testing.T, id string, gen0 func(thorough bool) []Scenario) {
	// VERIF_ONLY=<substring> restricts the run to matching scenarios (debugging aid; the
	// evidence of such a run is marked not exhaustive)
	gen := gen0
	if only := os.Getenv("VERIF_ONLY"); only != "" {
		gen = func(th bool) []Scenario {
			var out []Scenario
			for _, s := range gen0(th) {
				if strings.Contains(s.Name, only) {
					out = append(out, s)
				}
			}
			return out
		}
	}
	if sh := os.Getenv("VERIF_SHARD"); sh != "" {
		worker(t, sh, gen)
		return
	}
	c := vlib.New(id, "model_checking")
	scs := gen(c.Thorough())
	if os.Getenv("VERIF_ONLY") != "" {
		c.NotExhaustive("restricted to scenarios matching VERIF_ONLY")
	}
	if c.Replay != "" {
		replay(t, c, scs)
		return
	}
	if len(scs) == 0 {
		c.Internal("no scenario to run (VERIF_ONLY=%q is a substring filter on scenario names)", os.Getenv("VERIF_ONLY"))
	}
	nw := runtime.NumCPU()
	if nw > len(scs) {
		nw = len(scs)
	}
	results := map[string]scenResult{}
	var mu sync.Mutex
	var wg sync.WaitGroup
	// work queue of scenario indices; a worker process takes a batch and is restarted
	// on the rest of its batch if an execution poisons or crashes it
	queue := make([]int, len(scs))
	for i := range scs {
		queue[i] = i
	}
	batch := len(scs)/(nw*6) + 1
	if batch > 24 {
		batch = 24
	}
	retried := map[int]bool{}
	spinSeen := map[string]rt.SpinInfo{}
	spinConfirmed := map[string]bool{}
	var internal []string
	take := func() []int {
		mu.Lock()
		defer mu.Unlock()
		n := batch
		if n > len(queue) {
			n = len(queue)
		}
		b := append([]int(nil), queue[:n]...)
		queue = queue[n:]
		return b
	}
	for w := 0; w < nw; w++ {
		wg.Add(1)
		go func() {
			defer wg.Done()
			for {
				b := take()
				if len(b) == 0 {
					return
				}
				var idx []string
				for _, i := range b {
					idx = append(idx, strconv.Itoa(i))
				}
				cmd := exec.Command(os.Args[0], "-test.run", "^"+t.Name()+"$", "-test.timeout", "0")
				cmd.Env = append(os.Environ(), "VERIF_SHARD="+strings.Join(idx, ","), "GOMAXPROCS=1", "VERIF_TIER="+c.Tier)
				out, _ := cmd.StdoutPipe()
				cmd.Stderr = os.Stderr
				if err2 := cmd.Start(); err2 != nil {
					mu.Lock()
					internal = append(internal, err2.Error())
					mu.Unlock()
					continue
				}
				doneIdx := map[int]bool{}
				started := -1
				sc := bufio.NewScanner(out)
				sc.Buffer(make([]byte, 1<<20), 1<<26)
				for sc.Scan() {
					ln := sc.Text()
					if strings.HasPrefix(ln, "E1START ") {
						started, _ = strconv.Atoi(ln[8:])
						continue
					}
					if strings.HasPrefix(ln, "E1LIVELOCK ") && started >= 0 {
						var info rt.SpinInfo
						if json.Unmarshal([]byte(ln[11:]), &info) == nil {
							mu.Lock()
							name := scs[started].Name
							if prev, ok := spinSeen[name]; (ok && prev.Func == info.Func) || spinConfirmed[info.Func] {
								// reproduced by a fresh worker (in this scenario, or the same spinner was already
								// reproduced in another scenario of this run): a deterministic livelock of the implementation
								spinConfirmed[info.Func] = true
								results[name] = scenResult{Name: name, Bound: -1, Wall: info.CPU, Findings: []rt.Finding{{
									Key:     "verdict:livelock|" + info.Func,
									What:    fmt.Sprintf("a goroutine computes forever without reaching a synchronisation operation (%.0f CPU-s inside one scheduler step, reproduced by a fresh worker): spinning in %s; last released: %s", info.CPU, info.Func, info.Who),
									Choices: info.Choices, Trace: info.Stack}}}
								doneIdx[started] = true
							} else {
								spinSeen[name] = info
							}
							mu.Unlock()
						}
						continue
					}
					if !strings.HasPrefix(ln, "E1RESULT ") {
						continue
					}
					var r scenResult
					if json.Unmarshal([]byte(ln[9:]), &r) == nil {
						mu.Lock()
						results[r.Name] = r
						mu.Unlock()
						doneIdx[started] = true
					}
				}
				werr := cmd.Wait()
				mu.Lock()
				for _, i := range b {
					if doneIdx[i] {
						continue
					}
					if i == started && retried[i] {
						internal = append(internal, fmt.Sprintf("worker died twice in scenario %q (%v)", scs[i].Name, werr))
						continue
					}
					if i == started {
						retried[i] = true
					}
					queue = append(queue, i)
				}
				mu.Unlock()
			}
		}()
	}
	wg.Wait()
	// aggregate
	var names []string
	for n := range results {
		names = append(names, n)
	}
	sort.Strings(names)
	var states, trans, execs int64
	minBound := 1 << 30
	allCovered := true
	perScen := []map[string]any{}
	outcomesTotal := 0
	for _, n := range names {
		r := results[n]
		states += r.States
		trans += r.Transitions
		execs += r.Execs
		outcomesTotal += r.Outcomes
		var sc Scenario
		for _, s := range scs {
			if s.Name == n {
				sc = s
			}
		}
		if r.Bound < sc.MinB {
			allCovered = false
			c.NotExhaustive(fmt.Sprintf("scenario %s completed bound %d < required %d within its budget", n, r.Bound, sc.MinB))
		}
		if r.Bound < minBound {
			minBound = r.Bound
		}
		if r.Unmodelled > 0 || r.Divergences > 0 {
			c.NotExhaustive(fmt.Sprintf("scenario %s: %d unmodelled blocks, %d model divergences", n, r.Unmodelled, r.Divergences))
		}
		internal = append(internal, r.Internal...)
		if r.Poisoned {
			c.Note("scenario " + n + ": an execution could not be torn down; its worker stopped early")
		}
		perScen = append(perScen, map[string]any{"scenario": n, "bound_completed": r.Bound, "all_interleavings": r.Exhausted, "executions": r.Execs,
			"states": r.States, "transitions": r.Transitions, "distinct_outcomes": r.Outcomes, "max_decisions": r.MaxDecs, "wall_s": r.Wall})
		if len(r.Sample) > 0 {
			c.Sample(map[string]any{"scenario": n, "canonical_execution": r.Sample})
		}
		for _, f := range r.Findings {
			c.Violation(n+"|"+f.Key, f.What, map[string]any{"scenario": n, "choices": f.Choices, "logs": f.Logs, "trace": f.Trace})
		}
	}
	_ = allCovered
	for n, info := range spinSeen {
		if r, ok := results[n]; !ok || len(r.Findings) == 0 || !strings.HasPrefix(r.Findings[0].Key, "verdict:livelock|") {
			c.Note(fmt.Sprintf("scenario %s: a worker reported %.0f CPU-s inside one scheduler step (in %s) once; the retry did not reproduce it, no verdict", n, info.CPU, info.Func))
		}
	}
	if len(results) != len(scs) {
		c.NotExhaustive(fmt.Sprintf("%d of %d scenarios produced a result", len(results), len(scs)))
	}
	c.Set("states", states)
	c.Set("transitions", trans)
	c.Set("traces_validated_against_impl", execs)
	c.Set("evaluations", execs)
	c.Set("distinct_nontrivial", int64(outcomesTotal))
	c.Set("scenarios", perScen)
	c.Set("min_bound_completed", minBound)
	c.Set("rule", "every scenario is a closed harness over the real instrumented code; all schedules / environment answers with at most bound_completed deviations from the canonical schedule are executed (state-cached on happens-before keys); every execution runs the implementation itself, so traces_validated_against_impl = executions; distinct_nontrivial = distinct oracle-visible outcomes (verdict + observation log) summed over scenarios")
	c.Assume("sequential consistency; goroutine-local computation deterministic; all inter-goroutine communication of the instrumented packages goes through instrumented operations (DESIGN §2.5 A1)")
	if len(internal) > 0 {
		sort.Strings(internal)
		for _, s := range internal {
			fmt.Fprintln(os.Stderr, "INTERNAL:", s)
		}
		c.Internal("%d internal errors, first: %s", len(internal), internal[0])
	}
	c.Finish()
}

func worker(t *testing.T, shard string, gen func(bool) []Scenario) {
	scs := gen(os.Getenv("VERIF_TIER") == "thorough")
	// a goroutine that computes forever without reaching a synchronisation operation would hang
	// the explorer: the watchdog reports it (E1LIVELOCK) and ends this worker
	rt.StartSpinWatchdog(spinLimit)
	for _, f := range strings.Split(shard, ",") {
		idx, err := strconv.Atoi(f)
		if err != nil || idx < 0 || idx >= len(scs) {
			continue
		}
		fmt.Printf("E1START %d\n", idx)
		r := runScenario(t, scs[idx])
		b, _ := json.Marshal(r)
		fmt.Printf("E1RESULT %s\n", b)
		os.Stdout.Sync()
		if rt.Poisoned.Load() {
			break // the parent restarts a fresh worker on the rest of the batch
		}
	}
	if os.Getenv("VERIF_PROFILE") != "" {
		return
	}
	// leftover goroutines of a poisoned bubble would make the test binary hang or panic
	os.Exit(0)
}

func replay(t *testing.T, c *vlib.Check, scs []Scenario) {
	rt.StartSpinWatchdog(spinLimit) // a livelock finding replays as an E1LIVELOCK line and exit status 3
	b, err := os.ReadFile(c.Replay)
	if err != nil {
		c.Internal("replay: %v", err)
	}
	var doc struct {
		Replay struct {
			Scenario string `json:"scenario"`
			Choices  []int  `json:"choices"`
		} `json:"replay"`
		Key string `json:"key"`
	}
	if err := json.Unmarshal(b, &doc); err != nil {
		c.Internal("replay: %v", err)
	}
	for _, sc := range scs {
		if sc.Name != doc.Replay.Scenario {
			continue
		}
		if sc.Cfg.Horizon == 0 {
			sc.Cfg.Horizon = 24 * time.Hour
		}
		r := rt.Replay(t, sc.Cfg, sc.Body, doc.Replay.Choices)
		for _, l := range r.Trace {
			fmt.Println("  ", l)
		}
		fmt.Println("verdict:", r.Verdict.Kind, r.Verdict.Detail)
		for _, s := range r.Verdict.Stuck {
			fmt.Println("   stuck:", s)
		}
		for _, l := range r.Logs {
			fmt.Println("   log:", l)
		}
		fs := sc.Check(r)
		for _, f := range fs {
			fmt.Printf("VIOLATION property=%s replay=%s\n  key=%q %s\n", c.ID, c.Replay, sc.Name+"|"+f.Key, f.What)
		}
		if len(fs) > 0 {
			os.Exit(1)
		}
		fmt.Println("replay: no violation")
		os.Exit(0)
	}
	c.Internal("replay: scenario %q not found in this tier (try --tier thorough)", doc.Replay.Scenario)
}
