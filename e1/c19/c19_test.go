// C19: a client never settles on a version it did not offer.
//
// Seam A: the real ouroboros.Connection (initiator; NtN, NtC and DMQ node-to-client
// configuration) on one end of a scheduler-owned connection, a raw scripted responder on
// the other end. The responder reads the client's ProposeVersions off the wire with its own
// segment/CBOR reader and answers with one AcceptVersion(v, data) segment built with the
// harness's own CBOR writer.
// Seam B: the real handshake.Client (protocol/handshake) on a real muxer, configured with
// a ONE-version table (the Connection API always offers a full table), same responder.
//
// Enumerated: v in every version number of every table of protocol/versions.go united with
// {0, 1, 0x7fff, 0xffff}; data in every version-data shape of the network specification
// (node-to-client uint; [magic, bool]; [magic, bool, uint, bool]) with the client's magic
// and with another magic and the flag variants, plus well-formed CBOR that is no version
// data at all. The oracle is written from the property: the handshake succeeds iff v is
// among the versions the client put on the wire, the data has the shape the specification
// gives version v, and its magic is the client's; on success the reported version and
// data are exactly the accepted ones.
//
// Scenarios group the acceptances by class (so that one root cause is one finding key);
// the body of a scenario runs its acceptances one after the other, each on a fresh
// connection. The property is not quantified over schedules: the deciding run is the
// canonical schedule; single-acceptance "sched" scenarios add all schedules with <= 1
// deviation for one representative of every class.
package c19

import (
	"fmt"
	"sort"
	"strings"
	"testing"
	"time"

	ouroboros "github.com/blinklabs-io/gouroboros"
	"github.com/blinklabs-io/gouroboros/connection"
	"github.com/blinklabs-io/gouroboros/muxer"
	"github.com/blinklabs-io/gouroboros/protocol"
	"github.com/blinklabs-io/gouroboros/protocol/handshake"
	rt "github.com/blinklabs-io/gouroboros/verifrt"
	"verif/e1/e1lib"
	"verif/e1/s2lib"
	"verif/space"
)

const (
	ownMagic   = 764824073
	otherMagic = 2
)

// ---- reference model of version numbers and version data (network specification) ----

type shape int

const (
	shNone shape = iota // not a version number of any table
	shUint              // node-to-client 9..14: networkMagic
	sh2                 // node-to-node 7..10: [magic, initiatorOnly]; node-to-client >=15 and DMQ node-to-client: [magic, query]
	sh4                 // node-to-node >=11, DMQ node-to-node: [magic, initiatorOnly, peerSharing, query]
)

type family int

const (
	famNone family = iota
	famNtN
	famNtC
	famDMQNtC
	famDMQNtN
)

var famNames = []string{"none", "ntn", "ntc", "dmqntc", "dmqntn"}

// the version tables, read through the repository's exported list functions (so that a
// new version is enumerated automatically); everything else about a version is derived
// from its number by the rules of the specification.
func tables() map[family][]uint16 {
	return map[family][]uint16{
		famNtN:    protocol.GetProtocolVersionsNtN(),
		famNtC:    protocol.GetProtocolVersionsNtC(),
		famDMQNtC: protocol.GetProtocolVersionsDMQNtC(),
		famDMQNtN: protocol.GetProtocolVersionsDMQNtN(),
	}
}

func familyOf(v uint16) family {
	for f, l := range tables() {
		for _, x := range l {
			if x == v {
				return f
			}
		}
	}
	return famNone
}

// shapeOf: the version-data shape the specification gives version number v.
func shapeOf(v uint16) shape {
	switch familyOf(v) {
	case famNtN:
		if v >= 11 {
			return sh4
		}
		return sh2
	case famNtC:
		if v&0x7fff >= 15 {
			return sh2
		}
		return shUint
	case famDMQNtC:
		return sh2
	case famDMQNtN:
		return sh4
	}
	return shNone
}

// datum is one version-data value the responder can put into AcceptVersion.
type datum struct {
	label string
	node  *space.Node
	shape shape // shNone = no version data of any version
	magic uint32
	b1    bool   // second element of sh2 / sh4
	ps    uint64 // third element of sh4
	q     bool   // fourth element of sh4
}

func shaped(magic uint32) []datum {
	var out []datum
	out = append(out, datum{label: fmt.Sprintf("uint(%d)", magic), node: space.U(uint64(magic)), shape: shUint, magic: magic})
	for _, b := range []bool{false, true} {
		out = append(out, datum{label: fmt.Sprintf("[%d,%v]", magic, b), node: space.A(space.U(uint64(magic)), space.Bool(b)), shape: sh2, magic: magic, b1: b})
	}
	for _, c := range []struct {
		b  bool
		ps uint64
		q  bool
	}{{false, 0, false}, {true, 1, false}, {false, 1, true}} {
		out = append(out, datum{label: fmt.Sprintf("[%d,%v,%d,%v]", magic, c.b, c.ps, c.q),
			node:  space.A(space.U(uint64(magic)), space.Bool(c.b), space.U(c.ps), space.Bool(c.q)),
			shape: sh4, magic: magic, b1: c.b, ps: c.ps, q: c.q})
	}
	return out
}

// well-formed CBOR that is not the version data of any version
func garbage() []datum {
	m := space.U(ownMagic)
	g := func(l string, n *space.Node) datum { return datum{label: l, node: n} }
	return []datum{
		g("text", space.T("x")),
		g("bytes", space.B([]byte{1})),
		g("neg", space.NInt(-1)),
		g("null", space.Null()),
		g("undefined", space.Simple(23)),
		g("true", space.Bool(true)),
		g("map{}", space.M()),
		g("[]", space.A()),
		g("[m]", space.A(m)),
		g("[m,true,1]", space.A(m, space.Bool(true), space.U(1))),
		g("[m,true,1,false,0]", space.A(m, space.Bool(true), space.U(1), space.Bool(false), space.U(0))),
		g("[true,m]", space.A(space.Bool(true), m)),
		g("[m,1]", space.A(m, space.U(1))),
		g("[m,true,false,false]", space.A(m, space.Bool(true), space.Bool(false), space.Bool(false))),
		g("[text,true]", space.A(space.T("m"), space.Bool(true))),
		g("uint(2^32)", space.U(1<<32)),
		g("[2^32,false]", space.A(space.U(1<<32), space.Bool(false))),
		g("[2^32,false,0,false]", space.A(space.U(1<<32), space.Bool(false), space.U(0), space.Bool(false))),
	}
}

// what a success must report for (v, d): magic, diffusion (initiator-only), peer sharing, query
func reported(v uint16, d datum) string {
	diff, ps, q := true, false, false // the node-to-client defaults of the VersionData interface
	switch {
	case shapeOf(v) == sh2 && (familyOf(v) == famNtN):
		diff = d.b1
	case shapeOf(v) == sh2:
		q = d.b1
	case shapeOf(v) == sh4:
		diff, ps, q = d.b1, d.ps >= 1, d.q
	}
	return fmt.Sprintf("v=%d magic=%d initiatorOnly=%v peerSharing=%v query=%v", v, d.magic, diff, ps, q)
}

func describe(v uint16, vd protocol.VersionData) string {
	if vd == nil {
		return fmt.Sprintf("v=%d data=nil", v)
	}
	return fmt.Sprintf("v=%d magic=%d initiatorOnly=%v peerSharing=%v query=%v", v, vd.NetworkMagic(), vd.DiffusionMode(), vd.PeerSharing(), vd.Query())
}

// ---- the cases ----

type clientCfg struct {
	fam    family
	direct bool   // seam B: handshake.Client with the one-version table {v0}
	v0     uint16 // seam B
}

type acceptance struct {
	cfg clientCfg
	v   uint16
	d   datum
}

// classes of an acceptance relative to a client that offers `offered`
func vclass(offered []uint16, v uint16) string {
	for _, x := range offered {
		if x == v {
			return "offered"
		}
	}
	if familyOf(v) != famNone {
		return "known-not-offered"
	}
	return "unknown-version"
}

func dclass(v uint16, d datum) string {
	s := shapeOf(v)
	if s == shNone {
		return "any"
	}
	if d.label == "null" || d.label == "undefined" {
		return "null-data" // CBOR null / undefined in the place of the version data
	}
	if d.shape != s {
		return "undecodable"
	}
	if d.magic != ownMagic {
		return "valid-other-magic"
	}
	return "valid-own-magic"
}

func allVersions() []uint16 {
	seen := map[uint16]bool{}
	var out []uint16
	add := func(v uint16) {
		if !seen[v] {
			seen[v] = true
			out = append(out, v)
		}
	}
	for _, f := range []family{famNtN, famNtC, famDMQNtC, famDMQNtN} {
		for _, v := range tables()[f] {
			add(v)
		}
	}
	for _, v := range []uint16{0, 1, 0x7fff, 0xffff} {
		add(v)
	}
	sort.Slice(out, func(i, j int) bool { return out[i] < out[j] })
	return out
}

func allData() []datum {
	var out []datum
	out = append(out, shaped(ownMagic)...)
	out = append(out, shaped(otherMagic)...)
	out = append(out, garbage()...)
	return out
}

// ---- running one acceptance ----

func parseProposed(msg []byte) (string, bool) {
	n, err := space.Parse(msg)
	if err != nil || !n.IsArray() || n.Len() != 2 || !n.Items[1].IsMap() {
		return "", false
	}
	if t, ok := n.Items[0].Uint(); !ok || t != 0 {
		return "", false
	}
	var vs []int
	m := n.Items[1]
	for i := 0; i+1 < len(m.Items); i += 2 {
		k, ok := m.Items[i].Uint()
		if !ok {
			return "", false
		}
		vs = append(vs, int(k))
	}
	sort.Ints(vs)
	return strings.Trim(fmt.Sprint(vs), "[]"), true
}

// responder: reads the proposal, answers once, reads until the client goes away
func responder(i int, b *rt.Conn, ac acceptance, done chan struct{}) {
	answered := false
	_ = s2lib.WireReader(b, nil, func(id uint16, msg []byte) {
		if answered {
			rt.Log("case %d extra-from-client proto=%#x", i, id)
			return
		}
		answered = true
		pv, ok := parseProposed(msg)
		if id != 0 || !ok {
			rt.Log("case %d first-message-not-a-proposal proto=%#x", i, id)
			return
		}
		rt.Log("case %d proposed %s", i, pv)
		payload := space.A(space.U(1), space.U(uint64(ac.v)), ac.d.node).Encode()
		_, _ = b.Write(s2lib.Segment(0, true, payload))
	})
	_ = b.Close()
	rt.Close("h:peerDone", done)
}

func connOptions(cfg clientCfg) []ouroboros.ConnectionOptionFunc {
	opts := []ouroboros.ConnectionOptionFunc{ouroboros.WithNetworkMagic(ownMagic), ouroboros.WithDelayProtocolStart(true)}
	switch cfg.fam {
	case famNtN:
		opts = append(opts, ouroboros.WithNodeToNode(true))
	case famDMQNtC:
		opts = append(opts, ouroboros.WithDMQ(true))
	}
	return opts
}

func runConnection(i int, ac acceptance) {
	cfg := ac.cfg
	a, b := rt.ConnPair("client", "peer")
	done := make(chan struct{})
	rt.Go("peer", func() { responder(i, b, ac, done) })
	c, err := ouroboros.NewConnection(append(connOptions(cfg), ouroboros.WithConnection(a))...)
	if err != nil {
		rt.Log("case %d result err %v", i, err)
	} else {
		v, vd := c.ProtocolVersion()
		rt.Log("case %d result ok %s", i, describe(v, vd))
		_ = c.Close()
		for e := range rt.Range("h:errs", c.ErrorChan()) {
			rt.Log("case %d errorchan %v", i, e)
		}
	}
	rt.Recv("h:peerDone?", done)
}

// one-version table for seam B, built by the harness (own magic, plain flags)
func oneVersionTable(v0 uint16) protocol.ProtocolVersionMap {
	switch shapeOf(v0) {
	case shUint:
		return protocol.ProtocolVersionMap{v0: protocol.VersionDataNtC9to14(ownMagic)}
	case sh2:
		if familyOf(v0) == famNtN {
			return protocol.ProtocolVersionMap{v0: protocol.VersionDataNtN7to10{CborNetworkMagic: ownMagic, CborInitiatorAndResponderDiffusionMode: true}}
		}
		return protocol.ProtocolVersionMap{v0: protocol.VersionDataNtC15andUp{CborNetworkMagic: ownMagic}}
	}
	d := protocol.VersionDataNtN11to12{CborNetworkMagic: ownMagic, CborInitiatorAndResponderDiffusionMode: true}
	if v0 >= 13 || familyOf(v0) == famDMQNtN {
		return protocol.ProtocolVersionMap{v0: protocol.VersionDataNtN13andUp{VersionDataNtN11to12: d}}
	}
	return protocol.ProtocolVersionMap{v0: d}
}

func runDirect(i int, ac acceptance) {
	cfg := ac.cfg
	a, b := rt.ConnPair("client", "peer")
	done := make(chan struct{})
	rt.Go("peer", func() { responder(i, b, ac, done) })
	m := muxer.New(a)
	errs := make(chan error, 10)
	finished := make(chan struct{})
	var gotV uint16
	var gotD protocol.VersionData
	nFinished := 0
	hcfg := handshake.NewConfig(
		handshake.WithProtocolVersionMap(oneVersionTable(cfg.v0)),
		handshake.WithFinishedFunc(func(_ handshake.CallbackContext, v uint16, vd protocol.VersionData) error {
			nFinished++
			if nFinished == 1 {
				gotV, gotD = v, vd
				rt.Close("h:finished", finished)
			}
			return nil
		}),
	)
	mode := protocol.ProtocolModeNodeToClient
	if cfg.fam == famNtN || cfg.fam == famDMQNtN {
		mode = protocol.ProtocolModeNodeToNode
	}
	cl := handshake.NewClient(protocol.ProtocolOptions{ConnectionId: connection.ConnectionId{LocalAddr: a.LocalAddr(), RemoteAddr: a.RemoteAddr()}, Muxer: m, ErrorChan: errs, Mode: mode, Role: protocol.ProtocolRoleClient}, &hcfg)
	cl.Start()
	m.StartOnce()
	s := rt.NewSel("h:outcome", false)
	rt.SelRecvCase(s, errs)
	rt.SelRecvCase(s, finished)
	switch s.Choose() {
	case 0:
		rt.Log("case %d result err %v", i, rt.SelVal(s, errs))
	case 1:
		rt.SelVal(s, finished)
		rt.Log("case %d result ok %s", i, describe(gotV, gotD))
	}
	cl.Stop()
	m.Stop()
	rt.Recv("h:protoDone", cl.DoneChan())
	for range rt.Range("h:muxErrs", m.ErrorChan()) {
	}
	rt.Recv("h:peerDone?", done)
	if nFinished > 1 {
		rt.Log("case %d finished-called %d times", i, nFinished)
	}
}

// ---- scenario + oracle ----

// chunkSize bounds the acceptances run in one execution (the scheduler's cost per step
// grows with the number of goroutines an execution has ever started).
const chunkSize = 40

// scenario: the acceptances of one class. A grouped scenario starts with an enumerated
// environment choice of the chunk to run: answer 0 (the canonical one) runs nothing, answer
// k>0 (one "deviation") runs cases [(k-1)*chunkSize, k*chunkSize) on the canonical schedule.
// Deviation bound 1 on a grouped scenario therefore is: every acceptance of the class, each
// on the canonical schedule. A single (sched) scenario has no chunk choice.
func scenario(name string, cases []acceptance, grouped bool) e1lib.Scenario {
	nChunks := (len(cases) + chunkSize - 1) / chunkSize
	body := func() {
		lo, hi := 0, len(cases)
		if grouped {
			k := rt.Choice("h:chunk", nChunks+1)
			rt.Log("chunk %d of %d (%d acceptances in this class)", k, nChunks, len(cases))
			lo, hi = (k-1)*chunkSize, k*chunkSize
			if k == 0 {
				lo, hi = 0, 0
			}
			if hi > len(cases) {
				hi = len(cases)
			}
		}
		for i := lo; i < hi; i++ {
			ac := cases[i]
			if ac.cfg.direct {
				runDirect(i, ac)
			} else {
				runConnection(i, ac)
			}
		}
		rt.Log("end")
	}
	check := func(r *rt.Result) []rt.Finding {
		if r.Verdict.Kind != "ok" && !dmqCleanerOnly(r, cases) {
			k := r.Verdict.Kind
			if k == "panic" {
				k += ":" + strings.SplitN(r.Verdict.Detail, "\n", 2)[0]
			}
			return []rt.Finding{{Key: "verdict:" + k, What: r.Verdict.Detail + " " + strings.Join(r.Verdict.Stuck, "; ") + " | " + strings.Join(tailOf(r.Logs, 4), " / ")}}
		}
		proposed := map[int]string{}
		result := map[int]string{}
		var other []string
		lo, hi := 0, len(cases)
		for _, l := range r.Logs {
			var i int
			var k int
			if n, _ := fmt.Sscanf(l, "chunk %d ", &k); n == 1 {
				lo, hi = (k-1)*chunkSize, k*chunkSize
				if k == 0 {
					lo, hi = 0, 0
				}
				if hi > len(cases) {
					hi = len(cases)
				}
				continue
			}
			if n, _ := fmt.Sscanf(l, "case %d ", &i); n != 1 {
				continue
			}
			rest := l[strings.Index(l[5:], " ")+6:]
			switch {
			case strings.HasPrefix(rest, "proposed "):
				proposed[i] = rest[9:]
			case strings.HasPrefix(rest, "result "):
				result[i] = rest[7:]
			default:
				other = append(other, l)
			}
		}
		byKey := map[string][]string{}
		add := func(key, what string) { byKey[key] = append(byKey[key], what) }
		for i := lo; i < hi; i++ {
			ac := cases[i]
			id := fmt.Sprintf("accept(v=%d, %s)", ac.v, ac.d.label)
			if ac.cfg.direct {
				id = fmt.Sprintf("offer={%d} ", ac.cfg.v0) + id
			}
			pv, ok := proposed[i]
			if !ok {
				add("c19:no-proposal-seen", id)
				continue
			}
			res, ok := result[i]
			if !ok {
				add("c19:no-result", id)
				continue
			}
			offered := false
			for _, f := range strings.Fields(pv) {
				if f == fmt.Sprint(ac.v) {
					offered = true
				}
			}
			valid := ac.d.shape != shNone && ac.d.shape == shapeOf(ac.v)
			expectOK := offered && valid && ac.d.magic == ownMagic
			isOK := strings.HasPrefix(res, "ok ")
			switch {
			case isOK && !offered:
				add("c19:accepted-version-not-offered", fmt.Sprintf("%s while the client offered {%s}: %s", id, pv, res))
			case isOK && !valid:
				add("c19:accepted-invalid-version-data", fmt.Sprintf("%s: %s", id, res))
			case isOK && ac.d.magic != ownMagic:
				add("c19:accepted-foreign-magic", fmt.Sprintf("%s, client magic %d: %s", id, ownMagic, res))
			case !isOK && expectOK:
				add("c19:valid-acceptance-failed", fmt.Sprintf("%s offered {%s}: %s", id, pv, res))
			case isOK && res[3:] != reported(ac.v, ac.d):
				add("c19:reported-version-differs", fmt.Sprintf("%s: reported %q, accepted %q", id, res[3:], reported(ac.v, ac.d)))
			}
		}
		for _, l := range other {
			add("c19:unexpected-event", l)
		}
		var keys []string
		for k := range byKey {
			keys = append(keys, k)
		}
		sort.Strings(keys)
		var out []rt.Finding
		for _, k := range keys {
			w := byKey[k]
			what := fmt.Sprintf("%d of the %d acceptances run (cases %d..%d of %d in this class); first: %s", len(w), hi-lo, lo, hi-1, len(cases), w[0])
			if len(w) > 1 {
				what += "; last: " + w[len(w)-1]
			}
			out = append(out, rt.Finding{Key: k, What: what})
		}
		return out
	}
	return e1lib.Scenario{Name: name, Body: body, Check: check, Cfg: rt.Config{Horizon: 10 * time.Minute, MaxSteps: 20000000}}
}

// dmqCleanerOnly: a Connection constructed WithDMQ creates a localmessagenotification
// server whose expiration-cleaner goroutine (protocol/localmessagenotification/server.go,
// startExpirationCleaner: a one-minute ticker loop that ends only with the server
// protocol's DoneChan or a client-done message) never ends on a connection whose server
// side is not started. That goroutine leak is outside C19 (it belongs to C15, "nothing
// leaks"); here an execution that ends at the virtual-time horizon with nothing but those
// ticker loops left (one per DMQ connection that completed its handshake) counts as ended.
func dmqCleanerOnly(r *rt.Result, cases []acceptance) bool {
	if r.Verdict.Kind != "horizon" || len(r.Verdict.Stuck) == 0 {
		return false
	}
	dmqOK := 0
	for _, l := range r.Logs {
		var i int
		if n, _ := fmt.Sscanf(l, "case %d result ok", &i); n == 1 && strings.Contains(l, " result ok ") && i < len(cases) && !cases[i].cfg.direct && cases[i].cfg.fam == famDMQNtC {
			dmqOK++
		}
	}
	if len(r.Verdict.Stuck) != dmqOK || r.Logs[len(r.Logs)-1] != "end" {
		return false
	}
	for _, s := range r.Verdict.Stuck {
		if !strings.Contains(s, "blocked in select at server.go:") {
			return false
		}
	}
	return true
}

func tailOf(s []string, n int) []string {
	if len(s) > n {
		return s[len(s)-n:]
	}
	return s
}

// boundary versions of a table: the lowest and highest version of every version-data shape
func boundary(l []uint16) []uint16 {
	var out []uint16
	for i, v := range l {
		if i == 0 || i == len(l)-1 || shapeOf(l[i-1]) != shapeOf(v) || shapeOf(l[i+1]) != shapeOf(v) ||
			(familyOf(v) == famNtN && (v == 12 || v == 13)) { // peer-sharing encoding changes at 13
			out = append(out, v)
		}
	}
	return out
}

func gen(thorough bool) []e1lib.Scenario {
	vs, ds := allVersions(), allData()
	tb := tables()
	groups := map[string][]acceptance{}
	var order []string
	add := func(name string, ac acceptance) {
		if _, ok := groups[name]; !ok {
			order = append(order, name)
		}
		groups[name] = append(groups[name], ac)
	}
	class := func(offered []uint16, v uint16, d datum) string {
		vc, dc := vclass(offered, v), dclass(v, d)
		if vc == "known-not-offered" {
			return vc // a version that was not offered: one class whatever the data
		}
		return vc + "|" + dc
	}
	// seam A: the Connection API (always offers the full table of its family)
	for _, f := range []family{famNtN, famNtC, famDMQNtC} {
		for _, v := range vs {
			for _, d := range ds {
				add("conn|"+famNames[f]+"|"+class(tb[f], v, d), acceptance{clientCfg{fam: f}, v, d})
			}
		}
	}
	// seam B: handshake.Client with a one-version table {v0}, every v0 of every table (quick:
	// the boundary versions of every table); the offered versions of one family share a
	// scenario (one root cause = one finding key)
	for _, f := range []family{famNtN, famNtC, famDMQNtC, famDMQNtN} {
		v0s := tb[f]
		if !thorough {
			v0s = boundary(v0s)
		}
		for _, v0 := range v0s {
			for _, v := range vs {
				for _, d := range ds {
					add("hsclient|"+famNames[f]+"|"+class([]uint16{v0}, v, d), acceptance{clientCfg{fam: f, direct: true, v0: v0}, v, d})
				}
			}
		}
	}
	var scs []e1lib.Scenario
	for _, name := range order {
		s := scenario(name, groups[name], true)
		s.MinB, s.MaxB, s.Budget = 1, 1, 900*time.Second
		scs = append(scs, s)
	}
	// all schedules with <= 1 deviation (thorough: <= 2 where the budget allows) for one
	// representative acceptance of every class. The classes in which the unchanged tree
	// violates the property get a schedule scenario only under the node-to-node
	// configurations (the acceptance does not depend on the schedule; fewer finding keys).
	for _, name := range order {
		l := groups[name]
		clean := strings.HasSuffix(name, "|offered|valid-own-magic") || strings.HasSuffix(name, "|offered|undecodable") || strings.HasSuffix(name, "|unknown-version|any")
		ntn := strings.HasPrefix(name, "conn|ntn|") || strings.HasPrefix(name, "hsclient|ntn|")
		if !clean && !ntn {
			continue
		}
		if !thorough && !(strings.HasPrefix(name, "conn|ntn|") || strings.HasSuffix(name, "|offered|valid-own-magic")) {
			continue
		}
		rep := l[len(l)/2]
		if strings.HasSuffix(name, "|known-not-offered") {
			for _, ac := range l { // a decodable acceptance with the client's magic for a version that was not offered
				if dclass(ac.v, ac.d) == "valid-own-magic" {
					rep = ac
					break
				}
			}
		}
		s := scenario("sched|"+name, []acceptance{rep}, false)
		s.MinB, s.MaxB, s.Budget = 1, 1, 120*time.Second
		if thorough {
			s.MaxB, s.Budget = 2, 300*time.Second
		}
		scs = append(scs, s)
	}
	return scs
}

func TestC19(t *testing.T) { e1lib.Main(t, "C19", gen) }
