// C46 (schedule part): the opcert-counter rule of the DMQ authenticator under concurrency.
//
// One real (instrumented) MessageAuthenticator; a first genuine message with counter 1 is
// accepted sequentially, then two goroutines call VerifyMessage concurrently with counters
// (a, b) of the same pool, and when both have returned a further call with counter c is
// made. Every schedule within the deviation bound is executed.
//
// Oracle (reference authenticator over the observation log, which is a total order): every
// call logs "start" before and "end" after VerifyMessage. A call X is *definitely after* an
// accepted call Y when Y's end precedes X's start in the log. X may be accepted only if its
// counter is >= the counter of every accepted call definitely before it. Calls that overlap
// are not ordered by the oracle (either linearisation is allowed), so the unchanged tree —
// where check and update happen under one lock — can never be flagged.
package c46

import (
	"crypto/ed25519"
	"crypto/sha256"
	"fmt"
	"io"
	"log/slog"
	"strings"
	"testing"
	"time"

	"golang.org/x/crypto/blake2b"

	pcommon "github.com/blinklabs-io/gouroboros/protocol/common"
	rt "github.com/blinklabs-io/gouroboros/verifrt"
	"verif/e1/e1lib"
	"verif/space"
)

type msgData struct {
	id, body         []byte
	kesPeriod        uint64
	expires          uint32
	kesSig           []byte
	hot              []byte
	issue, ocPeriod  uint64
	coldSig, coldKey []byte
}

func (m msgData) real() *pcommon.DmqMessage {
	cp := func(b []byte) []byte { return append([]byte{}, b...) }
	return &pcommon.DmqMessage{
		MessageID:    cp(m.id),
		Payload:      pcommon.DmqMessagePayload{MessageBody: cp(m.body), KESPeriod: m.kesPeriod, ExpiresAt: m.expires},
		KESSignature: cp(m.kesSig),
		OperationalCertificate: pcommon.OperationalCertificate{
			KESVerificationKey: cp(m.hot), IssueNumber: m.issue, KESPeriod: m.ocPeriod, ColdSignature: cp(m.coldSig)},
		ColdVerificationKey: cp(m.coldKey),
	}
}

var (
	coldPriv = func() ed25519.PrivateKey {
		h := sha256.Sum256([]byte("verif-c46-sched-cold"))
		return ed25519.NewKeyFromSeed(h[:])
	}()
	coldPub = []byte(coldPriv.Public().(ed25519.PublicKey))
	poolID  = func() string { h := blake2b.Sum256(coldPub); return fmt.Sprintf("%x", h[:]) }()
	msgs    = map[uint64]msgData{}
)

// genuine message with the given opcert counter. The KES verifier of this scenario is a
// stub that accepts (the KES check is not what is explored here and real KES verification
// would dominate the cost of every execution); id and cold signature are real.
func message(n uint64) msgData {
	if m, ok := msgs[n]; ok {
		return m
	}
	hot := sha256.Sum256([]byte("verif-c46-sched-hot"))
	m := msgData{body: []byte(fmt.Sprintf("sched-%d", n)), kesPeriod: 7, expires: 1_900_000_000, kesSig: make([]byte, 448),
		hot: hot[:], issue: n, ocPeriod: 7, coldKey: coldPub}
	pl := space.A(space.B(m.body), space.U(m.kesPeriod), space.U(uint64(m.expires))).Encode()
	id := blake2b.Sum256(pl)
	m.id = id[:]
	m.coldSig = ed25519.Sign(coldPriv, space.A(space.B(m.hot), space.U(m.issue), space.U(m.ocPeriod)).Encode())
	msgs[n] = m
	return m
}

func init() {
	for n := uint64(0); n <= 4; n++ {
		message(n)
	}
}

var quiet = slog.New(slog.NewTextHandler(io.Discard, nil))

func scenario(a, b, c uint64) e1lib.Scenario {
	name := fmt.Sprintf("counter-rotation|first=1,concurrent=%d+%d,then=%d", a, b, c)
	body := func() {
		auth := pcommon.NewMessageAuthenticator(quiet)
		auth.SetKESVerifier(func([]byte, []byte, []byte, uint64, uint64, uint64) (bool, error) { return true, nil })
		auth.RegisterSPOPool(poolID)
		call := func(tag string, n uint64) {
			rt.Log("start %s counter=%d", tag, n)
			err := auth.VerifyMessage(message(n).real())
			rt.Log("end %s counter=%d accepted=%v", tag, n, err == nil)
		}
		call("first", 1)
		done := make(chan struct{}, 2)
		rt.Go("va", func() { call("va", a); rt.Send("h:done", done, struct{}{}) })
		rt.Go("vb", func() { call("vb", b); rt.Send("h:done", done, struct{}{}) })
		rt.Recv("h:done?", done)
		rt.Recv("h:done?", done)
		call("then", c)
		rt.Log("finished")
	}
	check := func(r *rt.Result) []rt.Finding {
		if r.Verdict.Kind != "ok" {
			return []rt.Finding{{Key: "verdict:" + r.Verdict.Kind, What: r.Verdict.Detail + " " + strings.Join(r.Verdict.Stuck, "; ")}}
		}
		type ev struct {
			start, end int
			counter    uint64
			accepted   bool
		}
		calls := map[string]*ev{}
		var order []string
		finished := false
		for i, l := range r.Logs {
			var tag string
			var n uint64
			var acc bool
			if k, _ := fmt.Sscanf(l, "start %s counter=%d", &tag, &n); k == 2 {
				calls[tag] = &ev{start: i, end: -1, counter: n}
				order = append(order, tag)
				continue
			}
			if k, _ := fmt.Sscanf(l, "end %s counter=%d accepted=%t", &tag, &n, &acc); k == 3 {
				if e := calls[tag]; e != nil {
					e.end, e.accepted = i, acc
				}
				continue
			}
			if l == "finished" {
				finished = true
			}
		}
		if !finished || len(order) != 4 {
			return []rt.Finding{{Key: "harness-did-not-finish", What: strings.Join(r.Logs, " / ")}}
		}
		for _, x := range order {
			X := calls[x]
			if X.end < 0 {
				return []rt.Finding{{Key: "call-did-not-return", What: x}}
			}
			var highest uint64
			seen := false
			for _, y := range order {
				Y := calls[y]
				if y == x || !Y.accepted || Y.end < 0 || Y.end > X.start {
					continue
				}
				if !seen || Y.counter > highest {
					highest, seen = Y.counter, true
				}
			}
			if X.accepted && seen && X.counter < highest {
				return []rt.Finding{{Key: fmt.Sprintf("counter-regression|accepted=%d-after-accepted=%d", X.counter, highest),
					What: fmt.Sprintf("call %q with opcert counter %d was accepted although a call with counter %d had been accepted and had returned before it started; log: %s", x, X.counter, highest, strings.Join(r.Logs, " / "))}}
			}
			// the sequential part is fully determined: a call that overlaps nothing and is not below
			// the highest accepted counter must be accepted
			if x == "first" && !X.accepted {
				return []rt.Finding{{Key: "genuine-first-message-rejected", What: strings.Join(r.Logs, " / ")}}
			}
		}
		return nil
	}
	return e1lib.Scenario{Name: name, Body: body, Check: check, Cfg: rt.Config{Horizon: 5 * time.Second}}
}

func TestC46Sched(t *testing.T) {
	e1lib.Main(t, "C46", func(thorough bool) []e1lib.Scenario {
		scs := []e1lib.Scenario{scenario(2, 3, 2), scenario(3, 2, 2), scenario(2, 3, 3)}
		if thorough {
			scs = append(scs, scenario(3, 3, 2), scenario(4, 2, 3), scenario(2, 2, 1))
		}
		for i := range scs {
			scs[i].MinB, scs[i].MaxB, scs[i].Budget = 2, 4, 40*time.Second
			if thorough {
				scs[i].MinB, scs[i].MaxB, scs[i].Budget = 3, 8, 4*time.Minute
			}
		}
		return scs
	})
}
