//go:build verif

// C13: receive buffering is bounded.
//
// Seam S2: the real protocol engine (protocol.Protocol on a real muxer, both instrumented) on
// one end of a scheduler-owned connection, a raw peer on the other end that streams valid
// messages as fast as the connection takes them, while the receiving application is slow
// (its handler blocks on a gate owned by the harness).
//
// Oracles (all written from the property statement, none reads the implementation's
// decisions):
//
//	O1  state invariant, evaluated by the scheduler in EVERY quiescent state of every explored
//	    schedule: the engine's own count of received-but-unhandled bytes (probe) never exceeds
//	    limit + size of the message whose handler was entered last.
//	O2  state invariant independent of the engine's accounting: payload bytes the receiving end
//	    has taken from the connection minus bytes of messages whose handler was entered stays
//	    <= limit + slack, slack = 12 segments + (largest message - 1): 10 segments in the
//	    muxer's per-protocol channel, one in the muxer's hands, and the engine's reassembly
//	    buffer (an incomplete message plus the segment that completes it).
//	O3  once the application lets go, ALL messages are handled, in order, byte-identical, NO
//	    error is reported, and the run ends cleanly (no deadlock / horizon verdict).
//	O4  one message of limit+1 bytes, or an incomplete item that grows past 16 MiB, ends the
//	    protocol with an error (ErrorChan + DoneChan closes), and the offending message never
//	    reaches the handler.
package c13

import (
	"fmt"
	"strings"
	"testing"
	"time"

	"github.com/blinklabs-io/gouroboros/protocol"
	"github.com/blinklabs-io/gouroboros/protocol/blockfetch"
	"github.com/blinklabs-io/gouroboros/protocol/chainsync"
	rt "github.com/blinklabs-io/gouroboros/verifrt"
	vtime "github.com/blinklabs-io/gouroboros/verifrt/vtime"
	"verif/e1/e1lib"
	"verif/e1/protos"
	"verif/e1/s2lib"
)

// ---- receiver configurations ------------------------------------------------------------

const smallLimit = 100

var stS = protocol.NewState(1, "S")

// ownCfg: one state in which the peer (client) keeps agency, with a byte limit of our own.
func ownCfg(limit int) protocol.ProtocolConfig {
	return protocol.ProtocolConfig{
		Name: "c13", ProtocolId: 7, Mode: protocol.ProtocolModeNodeToNode, Role: protocol.ProtocolRoleServer,
		InitialState: stS,
		StateMap: protocol.StateMap{
			stS: protocol.StateMapEntry{
				Agency:                  protocol.AgencyClient,
				PendingMessageByteLimit: limit,
				Transitions: []protocol.StateTransition{
					{MsgType: 0, NewState: stS},
					{MsgType: 1, NewState: stS},
				},
			},
		},
	}
}

// realCfg: name, id, mode, role, initial state and the state map (after the constructor's
// edits) of the REAL client/server object; the codec is replaced by a raw one so that message
// sizes can be chosen freely (the state machine only looks at the message type).
func realCfg(id string) protocol.ProtocolConfig {
	p := protos.Build(id)
	if p == nil {
		panic("no such protocol configuration: " + id)
	}
	c := p.Config
	return protocol.ProtocolConfig{
		Name: c.Name, ProtocolId: c.ProtocolId, Mode: c.Mode, Role: c.Role,
		InitialState: c.InitialState, StateMap: c.StateMap, StateContext: c.StateContext,
	}
}

func limitOf(cfg protocol.ProtocolConfig, stateName string) int {
	for s, e := range cfg.StateMap {
		if s.Name == stateName {
			return e.PendingMessageByteLimit
		}
	}
	panic("state " + stateName + " not in the state map of " + cfg.Name)
}

func rawFromCbor(t uint, b []byte) (protocol.Message, error) {
	if t > 23 {
		return nil, nil
	}
	return &s2lib.RawMsg{T: uint8(t), B: append([]byte(nil), b...)}, nil
}

// ---- scenario description ---------------------------------------------------------------

type gateMode int

const (
	gateSlow gateMode = iota // closed until the peer is done and 3 ms of virtual time passed, then open for good
	gateStep                 // one message let through per millisecond
	gateOpen                 // the application is fast: the gate is open from the start
	gateRace                 // decoding the 2nd message takes as long as handling the 1st: both finish at the same moment (the wait for room races with the handler's completion)
	gateStop                 // the connection owner shuts down while the gate is still closed
	gateProtoStop            // the application stops the mini-protocol while the sender is being held back; the connection is closed a second later
)

type spec struct {
	name    string
	cfg     protocol.ProtocolConfig
	limit   int                       // the declared limit of the state(s) the stream is received in
	local   map[int][]*s2lib.RawMsg   // local sends after k handled messages (k = 0: at start)
	stream  []*s2lib.RawMsg           // what the peer sends, in order
	packed  bool                      // one byte stream cut at 65535 (else every message starts a segment)
	bad     int                       // index of the message that must end the protocol (-1: none)
	errSub  string                    // what the error must mention
	endless bool                      // the last "message" never completes (bad = its index)
	gate    gateMode
	horizon time.Duration
}

func (sp *spec) segments() (segs [][]byte, maxSeg int) {
	fromResponder := sp.cfg.Role == protocol.ProtocolRoleClient
	cut := func(stream []byte) {
		for len(stream) > 0 {
			n := 65535
			if n > len(stream) {
				n = len(stream)
			}
			if n > maxSeg {
				maxSeg = n
			}
			segs = append(segs, s2lib.Segment(sp.cfg.ProtocolId, fromResponder, stream[:n]))
			stream = stream[n:]
		}
	}
	if sp.packed {
		var all []byte
		for _, m := range sp.stream {
			all = append(all, m.B...)
		}
		cut(all)
	} else {
		for _, m := range sp.stream {
			cut(m.B)
		}
	}
	return
}

// payloadBytes converts "bytes taken from the connection" into "payload bytes taken" for a
// known wire layout (segment headers are not message bytes).
func payloadBytes(segs [][]byte, n int) int {
	p := 0
	for _, s := range segs {
		if n <= 8 {
			break
		}
		k := n - 8
		if k > len(s)-8 {
			k = len(s) - 8
		}
		p += k
		n -= len(s)
	}
	return p
}

func scenario(sp spec) e1lib.Scenario {
	segs, maxSeg := sp.segments()
	maxMsg := 0
	var want []string
	for i, m := range sp.stream {
		if len(m.B) > maxMsg && !(sp.endless && i == sp.bad) {
			maxMsg = len(m.B)
		}
		if sp.bad < 0 || i < sp.bad {
			want = append(want, s2lib.Sum(m.B))
		}
	}
	slack := 12*maxSeg + maxMsg - 1
	nValid := len(want)
	body := func() {
		peer, local := rt.ConnPair("peer", "local")
		cfg := sp.cfg
		// the codec is the harness's own: every call is one message the engine has taken out of
		// its reassembly buffer and is about to admit to its receive queue (at most ONE decoded
		// message is not admitted yet: readLoop holds it while it waits for room)
		var decodedBytes, lastDecoded, nDecoded int
		decodeGate := make(chan struct{})
		cfg.MessageFromCborFunc = func(t uint, b []byte) (protocol.Message, error) {
			m, err := rawFromCbor(t, b)
			if m != nil && err == nil {
				decodedBytes += len(b)
				lastDecoded = len(b)
				nDecoded++
				if sp.gate == gateRace && nDecoded == 2 {
					rt.Recv("h:decodeGate", decodeGate) // a slow decode
				}
			}
			return m, err
		}
		gate := make(chan struct{}, len(sp.stream)+1)
		handled := make(chan struct{}, len(sp.stream)+1)
		// harness-side bookkeeping, written by the handler goroutine, read by the invariant
		// while everything is parked
		var lastEntered, enteredBytes, nHandled int
		opened := false
		var ep *s2lib.Endpoint
		sendLocal := func(k int) {
			for _, m := range sp.local[k] {
				if err := ep.Proto.SendMessage(&s2lib.RawMsg{T: m.T, B: m.B}); err != nil {
					rt.Log("senderr %v", err)
				}
			}
		}
		cfg.MessageHandlerFunc = func(m protocol.Message) error {
			n := len(m.Cbor())
			lastEntered = n
			enteredBytes += n
			rt.Log("begin %s", s2lib.Sum(m.Cbor()))
			rt.Recv("h:gate", gate)
			rt.Log("end %s", s2lib.Sum(m.Cbor()))
			nHandled++
			sendLocal(nHandled)
			rt.Send("h:handled", handled, struct{}{})
			return nil
		}
		ep = s2lib.NewEndpoint(local, cfg)
		if sp.limit > 0 {
			rt.SetInvariant(func() string {
				if p := ep.Proto.VerifPendingRecvBytesQuiescent(); p > sp.limit+lastEntered {
					return fmt.Sprintf("O1 pending-above-limit: the engine holds %d received unhandled bytes, limit %d, message in the handler %d", p, sp.limit, lastEntered)
				}
				// O5: bytes really sitting in the receive queue, measured by the harness (decoded by
				// our codec, handler not yet entered, minus the one message that may still wait for
				// admission) must respect the limit, whatever the engine's own counter says
				if sp.limit > 0 && sp.bad < 0 {
					if q := decodedBytes - enteredBytes - lastDecoded; q > sp.limit {
						return fmt.Sprintf("O5 queued-above-limit: %d bytes of messages decoded from the wire and not yet given to the application (the last decoded message of %d bytes not counted) > limit %d", q, lastDecoded, sp.limit)
					}
				}
				if sp.endless {
					return ""
				}
				if held := payloadBytes(segs, local.ReadN) - enteredBytes; held > sp.limit+slack {
					return fmt.Sprintf("O2 consumed-above-limit: the receiving end took %d payload bytes from the connection, %d belong to messages already given to the application: %d unprocessed bytes held > limit %d + slack %d", payloadBytes(segs, local.ReadN), enteredBytes, held, sp.limit, slack)
				}
				return ""
			})
		}
		if sp.gate == gateOpen {
			opened = true
			rt.Close("h:preopen", gate)
		}
		ep.Start()
		sendLocal(0)
		rt.Go("peer", func() {
			for _, s := range segs {
				if _, err := peer.Write(s); err != nil {
					rt.Log("peer-write-failed")
					return
				}
			}
			rt.Log("peer-done")
		})
		open := func() {
			if !opened {
				opened = true
				rt.Log("open")
				rt.Close("h:open", gate)
			}
		}
		failed := false
		var stopperDone chan struct{}
		waitOne := func() {
			s := rt.NewSel("h:wait", false)
			rt.SelRecvCase(s, handled)
			rt.SelRecvCase(s, ep.Errs)
			if s.Choose() == 1 {
				rt.Log("error %v", rt.SelVal(s, ep.Errs))
				failed = true
			}
		}
		switch sp.gate {
		case gateSlow:
			vtime.Sleep(3 * time.Millisecond)
			open()
			for i := 0; i < nValid && !failed; i++ {
				waitOne()
			}
		case gateOpen:
			for i := 0; i < nValid && !failed; i++ {
				waitOne()
			}
		case gateRace:
			vtime.Sleep(3 * time.Millisecond)
			rt.Log("release")
			rt.Close("h:decoded", decodeGate)
			open()
			for i := 0; i < nValid && !failed; i++ {
				waitOne()
			}
		case gateStep:
			for i := 0; i < nValid && !failed; i++ {
				vtime.Sleep(time.Millisecond)
				rt.Log("token")
				rt.Send("h:token", gate, struct{}{})
				waitOne()
			}
		case gateStop:
			vtime.Sleep(3 * time.Millisecond)
		case gateProtoStop:
			vtime.Sleep(3 * time.Millisecond)
			stopperDone = make(chan struct{})
			rt.Go("stopper", func() {
				rt.Log("stop-called")
				ep.Proto.Stop()
				rt.Log("stop-returned")
				rt.Close("h:stopperDone", stopperDone)
			})
			vtime.Sleep(2 * time.Millisecond)
			open() // the application finishes what it was doing
			vtime.Sleep(time.Second)
		}
		if sp.bad >= 0 && !failed {
			// the error may still be on its way
			s := rt.NewSel("h:waiterr", false)
			rt.SelRecvCase(s, ep.Errs)
			rt.SelRecvCase(s, vtime.After(time.Second))
			if s.Choose() == 0 {
				rt.Log("error %v", rt.SelVal(s, ep.Errs))
				failed = true
			} else {
				rt.Log("no-error-within-1s")
			}
		}
		rt.Log("closing")
		// what the owner of the connection does on an error or when it is done: it stops the
		// muxer (Connection.Close), the protocol follows; the application returns eventually
		ep.Mux.Stop()
		open()
		ep.Proto.Stop()
		if stopperDone != nil {
			rt.Recv("h:stopperDone?", stopperDone)
		}
		rt.Recv("h:done", ep.Proto.DoneChan())
		for range rt.Range("h:muxerrs", ep.Mux.ErrorChan()) {
		}
		// anything reported late
		for {
			s := rt.NewSel("h:late", true)
			rt.SelRecvCase(s, ep.Errs)
			if s.Choose() != 0 {
				break
			}
			rt.Log("error %v", rt.SelVal(s, ep.Errs))
		}
		rt.Log("end")
	}
	check := func(r *rt.Result) []rt.Finding {
		if r.Verdict.Kind == "invariant" {
			return []rt.Finding{{Key: "c13:" + strings.SplitN(r.Verdict.Detail, ":", 2)[0], What: r.Verdict.Detail}}
		}
		if r.Verdict.Kind != "ok" {
			k := r.Verdict.Kind
			if k == "panic" {
				k += ":" + strings.SplitN(r.Verdict.Detail, "\n", 2)[0]
			}
			return []rt.Finding{{Key: "verdict:" + k, What: r.Verdict.Detail + " " + strings.Join(r.Verdict.Stuck, "; ")}}
		}
		var begun, ended, errs []string
		closing := false
		var errBeforeClosing []string
		for _, l := range r.Logs {
			switch {
			case strings.HasPrefix(l, "begin "):
				begun = append(begun, l[6:])
			case strings.HasPrefix(l, "end "):
				ended = append(ended, l[4:])
			case l == "closing":
				closing = true
			case strings.HasPrefix(l, "error "):
				errs = append(errs, l[6:])
				if !closing {
					errBeforeClosing = append(errBeforeClosing, l[6:])
				}
			case strings.HasPrefix(l, "senderr ") && !closing:
				return []rt.Finding{{Key: "c13:local-send-refused", What: l}}
			}
		}
		// nothing but a prefix of the valid messages ever reaches the application
		if len(begun) > len(want) {
			return []rt.Finding{{Key: "c13:offending-message-handled", What: fmt.Sprintf("handler saw %v, only %v are valid", begun, want)}}
		}
		for i := range begun {
			if begun[i] != want[i] {
				return []rt.Finding{{Key: "c13:bytes-or-order", What: fmt.Sprintf("message %d: handler saw %s, sent %s", i, begun[i], want[i])}}
			}
		}
		if sp.bad >= 0 {
			// O4
			if len(errBeforeClosing) == 0 {
				return []rt.Finding{{Key: "c13:missing-error", What: fmt.Sprintf("no error within 1 s of virtual time after a stream that must end the protocol (%s); logs %v", sp.errSub, e1tail(r.Logs))}}
			}
			if !strings.Contains(errBeforeClosing[0], sp.errSub) {
				return []rt.Finding{{Key: "c13:wrong-error", What: fmt.Sprintf("error %q does not mention %q", errBeforeClosing[0], sp.errSub)}}
			}
			return nil
		}
		if sp.gate == gateProtoStop {
			// "the slowing down never deadlocks the connection": stopping the held-back
			// mini-protocol must not hang until somebody closes the whole connection
			for _, l := range r.Logs {
				if l == "stop-returned" {
					break
				}
				if l == "closing" {
					return []rt.Finding{{Key: "c13:stop-of-held-back-protocol-hangs", What: "Protocol.Stop() called while the fast sender was being held back (application idle again 2 ms later) had not returned after 1 s of virtual time; it returned only when the owner closed the connection: the muxer's read loop is blocked for every mini-protocol of the connection. " + strings.Join(e1tail(r.Logs), " / ")}}
				}
			}
		}
		// O3
		if len(errs) > 0 {
			return []rt.Finding{{Key: "c13:error-on-valid-stream", What: fmt.Sprintf("a fast sender of valid messages caused an error instead of being slowed down: %s", errs[0])}}
		}
		if sp.gate != gateStop && sp.gate != gateProtoStop && len(ended) != len(want) {
			return []rt.Finding{{Key: "c13:message-lost", What: fmt.Sprintf("handled %d of %d messages: %v", len(ended), len(want), e1tail(r.Logs))}}
		}
		return nil
	}
	h := sp.horizon
	if h == 0 {
		h = 10 * time.Second
	}
	return e1lib.Scenario{Name: sp.name, Body: body, Check: check, Cfg: rt.Config{Horizon: h, MaxSteps: 400000}}
}

func e1tail(s []string) []string {
	if len(s) > 14 {
		return s[len(s)-14:]
	}
	return s
}

// ---- generators -------------------------------------------------------------------------

func seqs(alpha []int, minLen, maxLen int) [][]int {
	var out [][]int
	var rec func(cur []int)
	rec = func(cur []int) {
		if len(cur) >= minLen {
			out = append(out, append([]int(nil), cur...))
		}
		if len(cur) == maxLen {
			return
		}
		for _, a := range alpha {
			rec(append(cur, a))
		}
	}
	rec(nil)
	return out
}

func sizesName(s []int) string {
	parts := make([]string, len(s))
	for i, v := range s {
		parts[i] = fmt.Sprint(v)
	}
	return strings.Join(parts, ",")
}

func msgs(typ func(i int) uint8, sizes []int) []*s2lib.RawMsg {
	var out []*s2lib.RawMsg
	for i, n := range sizes {
		out = append(out, s2lib.SizedMsg(typ(i), n, byte(i+1)))
	}
	return out
}

func alt01(i int) uint8 { return uint8(i % 2) }

func constT(t uint8) func(int) uint8 { return func(int) uint8 { return t } }

func small(t uint8) *s2lib.RawMsg { return &s2lib.RawMsg{T: t, B: []byte{0x81, t}} }

// own state map, limit 100
func ownScenario(prefix string, sizes []int, packed bool, g gateMode) e1lib.Scenario {
	sp := spec{cfg: ownCfg(smallLimit), limit: smallLimit, stream: msgs(alt01, sizes), packed: packed, bad: -1, gate: g}
	pk := "each"
	if packed {
		pk = "packed"
	}
	sp.name = fmt.Sprintf("%s|%s|%s", prefix, sizesName(sizes), pk)
	for i, n := range sizes {
		if n > smallLimit && sp.bad < 0 {
			sp.bad = i
			sp.errSub = "oversized"
		}
	}
	return scenario(sp)
}

// chain-sync NtN client: k pipelined RequestNext, the peer answers with k RollForward of the given sizes
func chainSyncClient(sizes []int, awaitFirst bool, gate ...gateMode) e1lib.Scenario {
	cfg := realCfg("chain-sync/NtN/client")
	lim := limitOf(cfg, "CanAwait")
	sp := spec{cfg: cfg, limit: lim, bad: -1, gate: gateSlow, local: map[int][]*s2lib.RawMsg{}}
	if len(gate) > 0 {
		sp.gate = gate[0]
	}
	for range sizes {
		sp.local[0] = append(sp.local[0], small(chainsync.MessageTypeRequestNext))
	}
	name := "chain-sync/NtN/client|CanAwait"
	if awaitFirst {
		// AwaitReply first: the stream is then received in MustReply (and CanAwait again)
		sp.stream = append(sp.stream, small(chainsync.MessageTypeAwaitReply))
		name = "chain-sync/NtN/client|MustReply"
		if limitOf(cfg, "MustReply") != lim {
			panic("limits of CanAwait and MustReply differ: split the scenario")
		}
	}
	for i, n := range sizes {
		sp.stream = append(sp.stream, s2lib.SizedMsg(chainsync.MessageTypeRollForward, n, byte(i+1)))
		if n > lim && sp.bad < 0 {
			sp.bad = len(sp.stream) - 1
			sp.errSub = "oversized"
		}
	}
	if limitOf(cfg, "Idle") != lim {
		panic("limits of Idle and CanAwait differ: split the scenario")
	}
	sp.name = fmt.Sprintf("real|%s|limit=%d|%s", name, lim, sizesName(sizes))
	if sp.gate == gateStep {
		sp.name += "|step"
	}
	return scenario(sp)
}

// chain-sync NtN server: the peer pipelines k RequestNext (padded to the given sizes), the
// local server answers each with a RollBackward once its handler is through
func chainSyncServer(sizes []int) e1lib.Scenario {
	cfg := realCfg("chain-sync/NtN/server")
	lim := limitOf(cfg, "Idle")
	sp := spec{cfg: cfg, limit: lim, bad: -1, gate: gateSlow, local: map[int][]*s2lib.RawMsg{}}
	for i, n := range sizes {
		sp.stream = append(sp.stream, s2lib.SizedMsg(chainsync.MessageTypeRequestNext, n, byte(i+1)))
		sp.local[i+1] = []*s2lib.RawMsg{small(chainsync.MessageTypeRollBackward)}
		if n > lim && sp.bad < 0 {
			sp.bad = i
			sp.errSub = "oversized"
		}
	}
	if limitOf(cfg, "CanAwait") != lim {
		panic("limits of Idle and CanAwait differ: split the scenario")
	}
	sp.name = fmt.Sprintf("real|chain-sync/NtN/server|Idle|limit=%d|%s", lim, sizesName(sizes))
	return scenario(sp)
}

// block-fetch client: RequestRange, the peer answers StartBatch, k Blocks of the given sizes, BatchDone
func blockFetchClient(sizes []int) e1lib.Scenario {
	cfg := realCfg("block-fetch/NtN/client")
	lim := limitOf(cfg, "Streaming")
	if limitOf(cfg, "Busy") != lim {
		panic("limits of Busy and Streaming differ: split the scenario")
	}
	sp := spec{cfg: cfg, limit: lim, bad: -1, gate: gateSlow, local: map[int][]*s2lib.RawMsg{0: {small(blockfetch.MessageTypeRequestRange)}}}
	sp.stream = append(sp.stream, small(blockfetch.MessageTypeStartBatch))
	for i, n := range sizes {
		sp.stream = append(sp.stream, s2lib.SizedMsg(blockfetch.MessageTypeBlock, n, byte(i+1)))
		if n > lim && sp.bad < 0 {
			sp.bad = len(sp.stream) - 1
			sp.errSub = "oversized"
		}
	}
	if sp.bad < 0 {
		sp.stream = append(sp.stream, small(blockfetch.MessageTypeBatchDone))
	}
	sp.name = fmt.Sprintf("real|block-fetch/NtN/client|Streaming|limit=%d|%s", lim, sizesName(sizes))
	return scenario(sp)
}

// block-fetch server: one RequestRange of the given size in Idle
func blockFetchServer(size int) e1lib.Scenario {
	cfg := realCfg("block-fetch/NtN/server")
	lim := limitOf(cfg, "Idle")
	sp := spec{cfg: cfg, limit: lim, bad: -1, gate: gateSlow, local: map[int][]*s2lib.RawMsg{1: {small(blockfetch.MessageTypeNoBlocks)}}}
	sp.stream = append(sp.stream, s2lib.SizedMsg(blockfetch.MessageTypeRequestRange, size, 1))
	if size > lim {
		sp.bad, sp.errSub = 0, "oversized"
	}
	sp.name = fmt.Sprintf("real|block-fetch/NtN/server|Idle|limit=%d|%d", lim, size)
	return scenario(sp)
}

// endless: a byte string announcing 2^40 bytes that never ends, nSeg segments of 65535 bytes
func endless(name string, cfg protocol.ProtocolConfig, limit int, typ uint8, nSeg int) e1lib.Scenario {
	b := make([]byte, nSeg*65535)
	copy(b, []byte{0x82, typ, 0x5b, 0, 0, 1, 0, 0, 0, 0, 0})
	for i := 11; i < len(b); i++ {
		b[i] = byte(i)
	}
	sp := spec{name: name, cfg: cfg, limit: limit, stream: []*s2lib.RawMsg{{T: typ, B: b}}, bad: 0, errSub: "read buffer exceeded", endless: true, gate: gateSlow}
	return scenario(sp)
}

func TestC13(t *testing.T) {
	e1lib.Main(t, "C13", func(thorough bool) []e1lib.Scenario {
		var scs []e1lib.Scenario
		add := func(s e1lib.Scenario, minB, maxB int, budget time.Duration) {
			s.MinB, s.MaxB, s.Budget = minB, maxB, budget
			scs = append(scs, s)
		}
		L := smallLimit
		alpha := []int{L / 2, L/2 + 1, L}
		// 1. every stream of k valid messages over {limit/2, limit/2+1, limit}, slow application
		maxK := 4
		if thorough {
			maxK = 6
		}
		for _, s := range seqs(alpha, 2, maxK) {
			if len(s) == 6 {
				// length 6 over {limit/2, limit} only
				skip := false
				for _, v := range s {
					if v == L/2+1 {
						skip = true
					}
				}
				if skip {
					continue
				}
			}
			for _, packed := range []bool{false, true} {
				switch {
				case !thorough:
					add(ownScenario("slow", s, packed, gateSlow), 1, 1, 60*time.Second)
				case len(s) <= 3:
					add(ownScenario("slow", s, packed, gateSlow), 1, 2, 300*time.Second)
				default:
					add(ownScenario("slow", s, packed, gateSlow), 1, 1, 300*time.Second)
				}
			}
		}
		// sizes just around the limit and tiny messages between large ones
		for _, s := range [][]int{{L - 1, 2}, {L - 1, 2, L}, {2, L, 2, L - 1}, {L/2 - 1, L/2 + 1, L / 2}, {L, 2, 2, L}, {2, 2, 2, 2, 2, 2}} {
			for _, packed := range []bool{false, true} {
				add(ownScenario("slow", s, packed, gateSlow), 1, 1, 60*time.Second)
			}
		}
		// 2. the application lets one message through per millisecond
		stepK := 3
		if thorough {
			stepK = 4
		}
		for _, s := range seqs([]int{L / 2, L}, 2, stepK) {
			add(ownScenario("step", s, false, gateStep), 1, 1, 60*time.Second)
			if thorough {
				add(ownScenario("step", s, true, gateStep), 1, 1, 60*time.Second)
			}
		}
		// 3. the owner closes the connection while the sender is being held back
		for _, s := range [][]int{{L, L}, {L / 2, L / 2, L / 2}, {L, L / 2, L, L / 2}} {
			add(ownScenario("stop", s, false, gateStop), 1, 1, 60*time.Second)
		}
		// 3b. the application stops the held-back mini-protocol, the connection lives on for another second
		for _, n := range []int{3, 16} {
			many := make([]int, n)
			for i := range many {
				many[i] = L / 2
			}
			s := ownScenario("protostop", many, false, gateProtoStop)
			s.Name = fmt.Sprintf("protostop|%dx%d|each", n, L/2)
			add(s, 1, 1, 60*time.Second)
		}
		// 4. many more messages than every queue on the way can take (this is where O2 bites)
		for _, n := range []int{20, 40} {
			many := make([]int, n)
			for i := range many {
				many[i] = L / 2
			}
			mb := 0
			if thorough {
				mb = 1
			}
			s := ownScenario("many", many, false, gateSlow)
			s.Name = fmt.Sprintf("many|%dx%d|each", n, L/2)
			add(s, 0, mb, 60*time.Second)
		}
		// 5. one message of limit+1 bytes: alone, and after valid ones
		for _, s := range [][]int{{L + 1}, {L / 2, L + 1}, {L, L + 1}, {L / 2, L / 2, L + 1}, {L + 1, L / 2}} {
			for _, packed := range []bool{false, true} {
				mb := 1
				if thorough {
					mb = 2
				}
				add(ownScenario("oversize", s, packed, gateSlow), 1, mb, 60*time.Second)
			}
		}
		// 5b. small messages queued ahead of big ones (the accounting must follow the queue's order)
		for _, s := range [][]int{{2, 2, 2, 2, 2, 90, 90, 90}, {2, 2, 2, 50, 50, 50, 50}, {10, 10, 80, 80, 80}} {
			for _, packed := range []bool{false, true} {
				add(ownScenario("smallbig-step", s, packed, gateStep), 1, 1, 60*time.Second)
				add(ownScenario("smallbig-slow", s, packed, gateSlow), 1, 1, 60*time.Second)
			}
		}
		// 5c. a fast application: the wait for room races with the handler's completion
		fastB := 1
		if thorough {
			fastB = 2
		}
		for _, s := range [][]int{{L, L}, {L, L, L}, {L/2 + 1, L/2 + 1, L/2 + 1}, {L / 2, L, L}} {
			for _, packed := range []bool{false, true} {
				add(ownScenario("fast", s, packed, gateOpen), 1, fastB, 120*time.Second)
			}
		}
		raceB := 1
		if thorough {
			raceB = 2
		}
		for _, s := range [][]int{{L, L}, {L, L, L}, {L/2 + 1, L/2 + 1, L/2 + 1}, {L / 2, L, L}, {L, L / 2, L}} {
			for _, packed := range []bool{false, true} {
				add(ownScenario("race", s, packed, gateRace), 1, raceB, 120*time.Second)
			}
		}
		// 6. the real limits of chain-sync and block-fetch
		cs := limitOf(realCfg("chain-sync/NtN/client"), "CanAwait")
		bf := limitOf(realCfg("block-fetch/NtN/client"), "Streaming")
		bfIdle := limitOf(realCfg("block-fetch/NtN/server"), "Idle")
		rb := 0
		if thorough {
			rb = 1
		}
		for _, s := range [][]int{{cs / 2, cs / 2}, {cs, cs}, {cs / 2, cs/2 + 1, cs}, {cs, cs / 2, cs / 2, cs}, {cs, cs, cs, cs, cs, cs}, {cs / 2, cs / 2, cs / 2, cs / 2, cs / 2, cs / 2}} {
			add(chainSyncClient(s, false), 0, rb, 90*time.Second)
		}
		add(chainSyncClient([]int{cs / 2, cs, cs / 2}, true), 0, rb, 90*time.Second)
		add(chainSyncClient([]int{1000, 1000, 1000, cs - 3000, cs - 3000, cs - 3000}, false, gateStep), 0, rb, 90*time.Second)
		add(chainSyncClient([]int{cs + 1}, false), 0, rb, 60*time.Second)
		add(chainSyncClient([]int{cs / 2, cs + 1}, true), 0, rb, 60*time.Second)
		add(chainSyncServer([]int{cs / 2, cs, cs / 2}), 0, rb, 90*time.Second)
		add(chainSyncServer([]int{cs + 1}), 0, rb, 60*time.Second)
		add(blockFetchClient([]int{bf / 2, bf / 2}), 0, rb, 120*time.Second)
		add(blockFetchClient([]int{bf, bf / 2, bf}), 0, 0, 120*time.Second)
		add(blockFetchClient([]int{bf + 1}), 0, 0, 60*time.Second)
		if thorough {
			add(blockFetchClient([]int{bf, bf, bf, bf}), 0, 0, 120*time.Second)
			add(blockFetchClient([]int{bf / 2, bf / 2, bf / 2, bf / 2, bf / 2, bf / 2}), 0, 0, 120*time.Second)
		}
		add(blockFetchServer(bfIdle), 0, rb, 60*time.Second)
		add(blockFetchServer(bfIdle+1), 0, rb, 60*time.Second)
		// 7. an endless incomplete item: 260 segments of 65535 bytes (17 MB), canonical schedule only
		add(endless("endless|own-map|260x65535", ownCfg(smallLimit), smallLimit, 0, 260), 0, 0, 120*time.Second)
		if thorough {
			// in CanAwait: the client has asked for the next block, the server answers with an endless RollForward
			e := endless("endless|chain-sync/NtN/server|Idle|260x65535", realCfg("chain-sync/NtN/server"), cs, chainsync.MessageTypeRequestNext, 260)
			add(e, 0, 0, 120*time.Second)
		}
		return scs
	})
}
