// C42, C43, C44: the real (instrumented) pipeline.BlockPipeline with real decode workers,
// a recording apply function, and harness goroutines for submit / results / stop.
package pipe

import (
	"encoding/hex"
	"fmt"
	"os"
	"path/filepath"
	"sort"
	"strings"
	"testing"
	"time"

	lcommon "github.com/blinklabs-io/gouroboros/ledger/common"
	"github.com/blinklabs-io/gouroboros/pipeline"
	pcommon "github.com/blinklabs-io/gouroboros/protocol/common"
	rt "github.com/blinklabs-io/gouroboros/verifrt"
	vcontext "github.com/blinklabs-io/gouroboros/verifrt/vcontext"
	vtime "github.com/blinklabs-io/gouroboros/verifrt/vtime"
	"verif/e1/e1lib"
)

type item struct {
	name  string
	typ   uint
	cbor  []byte
	valid bool
}

var fixtures = func() map[byte]item {
	repo := os.Getenv("REPO_ROOT")
	if repo == "" {
		repo = "/repo"
	}
	rd := func(rel string) []byte {
		b, err := os.ReadFile(filepath.Join(repo, rel))
		if err != nil {
			panic(err)
		}
		out, err := hex.DecodeString(strings.TrimSpace(string(b)))
		if err != nil {
			panic(err)
		}
		return out
	}
	return map[byte]item{
		'B': {"byron", 1, rd("protocol/chainsync/testdata/byron_main_block_testnet_f38aa5e8cf0b47d1ffa8b2385aa2d43882282db2ffd5ac0e3dadec1a6f2ecf08.hex"), true},
		'S': {"shelley", 2, rd("protocol/chainsync/testdata/shelley_block_testnet_02b1c561715da9e540411123a6135ee319b02f60b9a11a603d3305556c04329f.hex"), true},
		'x': {"garbage", 2, []byte{0xff}, false},
	}
}()

func verdictFinding(r *rt.Result) []rt.Finding {
	if r.Verdict.Kind != "ok" {
		k := r.Verdict.Kind
		what := r.Verdict.Detail + " " + strings.Join(r.Verdict.Stuck, "; ")
		if k == "panic" {
			// key by the first line of the panic message
			k += ":" + strings.SplitN(r.Verdict.Detail, "\n", 2)[0]
		}
		return []rt.Finding{{Key: "verdict:" + k, What: what}}
	}
	return nil
}

// --- C42 ---------------------------------------------------------------------------------

// c42 builds: `items` submitted in order by the main goroutine, `workers` decode workers,
// results/errors consumers; if stopAfter >= 0 a separate goroutine calls Stop once the
// main goroutine has issued stopAfter submissions (racing with the rest).
func c42(name, items string, workers int, stopAfter int) e1lib.Scenario {
	return c42n(name, items, workers, stopAfter, 1)
}

// c42n: like c42 with nStop goroutines calling Stop concurrently.
func c42n(name, items string, workers int, stopAfter int, nStop int) e1lib.Scenario {
	body := func() {
		ctx := vcontext.Background()
		p := pipeline.NewBlockPipeline(
			pipeline.WithDecodeWorkers(workers),
			pipeline.WithPrefetchBufferSize(2),
			pipeline.WithApplyFunc(func(b *pipeline.BlockItem) error {
				rt.Log("apply %d", b.SequenceNumber())
				return nil
			}),
		)
		if err := p.Start(ctx); err != nil {
			rt.Log("start error %v", err)
			return
		}
		resDone := make(chan struct{})
		rt.Go("results", func() {
			for it := range rt.Range("h:results", p.Results()) {
				rt.Log("result %d applied=%v decodeErr=%v", it.SequenceNumber(), it.IsApplied(), it.DecodeError() != nil)
			}
			rt.Close("h:resDone", resDone)
		})
		errDone := make(chan struct{})
		rt.Go("errors", func() {
			for range rt.Range("h:errors", p.Errors()) {
			}
			rt.Close("h:errDone", errDone)
		})
		stopGo := make(chan struct{})
		stopped := make(chan struct{}, nStop)
		if stopAfter >= 0 {
			for k := 0; k < nStop; k++ {
				rt.Go("stopper", func() {
					rt.Recv("h:stopGo", stopGo)
					p.Stop()
					rt.Send("h:stopped", stopped, struct{}{})
				})
			}
		}
		for i := 0; i < len(items); i++ {
			if i == stopAfter {
				rt.Close("h:stopGo!", stopGo)
			}
			f := fixtures[items[i]]
			err := p.Submit(ctx, f.typ, f.cbor, pcommon.Tip{})
			if err != nil {
				rt.Log("submit %d error", i)
			} else {
				rt.Log("submit %d ok", i)
			}
		}
		if stopAfter >= len(items) {
			rt.Close("h:stopGo!", stopGo)
		}
		if stopAfter < 0 {
			if err := p.WaitForDrain(ctx); err != nil {
				rt.Log("drain error %v", err)
			}
			// drain is only approximate (C43); give in-flight items virtual time to finish
			vtime.Sleep(200 * time.Millisecond)
			p.Stop()
		} else {
			for k := 0; k < nStop; k++ {
				rt.Recv("h:stopped?", stopped)
			}
		}
		rt.Recv("h:resDone?", resDone)
		rt.Recv("h:errDone?", errDone)
		rt.Log("end")
	}
	check := func(r *rt.Result) []rt.Finding {
		if f := verdictFinding(r); f != nil {
			return f
		}
		var applied, results []int
		okSubmit := map[int]bool{}
		ended := false
		for _, l := range r.Logs {
			var n int
			switch {
			case strings.HasPrefix(l, "apply "):
				fmt.Sscanf(l, "apply %d", &n)
				applied = append(applied, n)
			case strings.HasPrefix(l, "result "):
				fmt.Sscanf(l, "result %d", &n)
				results = append(results, n)
			case strings.HasSuffix(l, " ok") && strings.HasPrefix(l, "submit "):
				fmt.Sscanf(l, "submit %d ok", &n)
				okSubmit[n] = true
			case l == "end":
				ended = true
			}
		}
		if !ended {
			return []rt.Finding{{Key: "c42:not-ended", What: "harness did not finish"}}
		}
		// each item at most once in apply and in results, apply in increasing order, never an invalid item
		seen := map[int]bool{}
		last := -1
		for _, a := range applied {
			if seen[a] {
				return []rt.Finding{{Key: "c42:applied-twice", What: fmt.Sprint(applied)}}
			}
			seen[a] = true
			if a < last {
				return []rt.Finding{{Key: "c42:apply-out-of-order", What: fmt.Sprint(applied)}}
			}
			last = a
			if a >= len(items) || !fixtures[items[a]].valid {
				return []rt.Finding{{Key: "c42:applied-invalid", What: fmt.Sprint(applied)}}
			}
		}
		rseen := map[int]bool{}
		for _, a := range results {
			if rseen[a] {
				return []rt.Finding{{Key: "c42:result-twice", What: fmt.Sprint(results)}}
			}
			rseen[a] = true
		}
		if stopAfter < 0 {
			// no racing stop: everything submitted is applied (if valid) and reported exactly once
			for i := range items {
				if !okSubmit[i] {
					return []rt.Finding{{Key: "c42:submit-failed", What: fmt.Sprintf("submit %d failed without a stop", i)}}
				}
				if fixtures[items[i]].valid && !seen[i] {
					return []rt.Finding{{Key: "c42:not-applied", What: fmt.Sprintf("item %d never applied: applied=%v", i, applied)}}
				}
				if !rseen[i] {
					return []rt.Finding{{Key: "c42:no-result", What: fmt.Sprintf("item %d missing from results: %v", i, results)}}
				}
			}
		}
		return nil
	}
	return e1lib.Scenario{Name: name, Body: body, Check: check, Cfg: rt.Config{Horizon: 5 * time.Second, TimeJumps: false}}
}

// c42v: validation ENABLED (one validate worker; the static nonce does not match the fixtures, so every
// block fails validation: it must be reported on Errors(), never applied, and still appear on Results()),
// the context given to Start() outlives the pipeline, the results consumer is slow (virtual 5 ms per item)
// so that the stages saturate, and Stop() is called after stopAfter submissions (-1: after a drain).
func c42v(name string, n int, stopAfter int) e1lib.Scenario {
	body := func() {
		ctx := vcontext.Background()
		p := pipeline.NewBlockPipeline(
			pipeline.WithSkipBodyHashValidation(true),
			pipeline.WithDecodeWorkers(1),
			pipeline.WithValidateWorkers(1),
			pipeline.WithPrefetchBufferSize(1),
			pipeline.WithEta0Provider(pipeline.StaticEta0Provider(strings.Repeat("00", 32))),
			pipeline.WithSlotsPerKesPeriod(129600),
			pipeline.WithVerifyConfig(lcommon.VerifyConfig{SkipBodyHashValidation: true, SkipTransactionValidation: true, SkipStakePoolValidation: true}),
			pipeline.WithApplyFunc(func(b *pipeline.BlockItem) error {
				rt.Log("apply %d", b.SequenceNumber())
				return nil
			}),
		)
		if err := p.Start(ctx); err != nil {
			rt.Log("start error %v", err)
			return
		}
		resDone := make(chan struct{})
		rt.Go("results", func() {
			for it := range rt.Range("h:results", p.Results()) {
				rt.Log("result %d applied=%v", it.SequenceNumber(), it.IsApplied())
				vtime.Sleep(5 * time.Millisecond)
			}
			rt.Close("h:resDone", resDone)
		})
		errDone := make(chan struct{})
		rt.Go("errors", func() {
			for range rt.Range("h:errors", p.Errors()) {
				rt.Log("error reported")
			}
			rt.Close("h:errDone", errDone)
		})
		stopGo := make(chan struct{})
		stopped := make(chan struct{})
		if stopAfter >= 0 {
			rt.Go("stopper", func() {
				rt.Recv("h:stopGo", stopGo)
				p.Stop()
				rt.Close("h:stopped", stopped)
			})
		}
		f := fixtures['S']
		for i := 0; i < n; i++ {
			if i == stopAfter {
				rt.Close("h:stopGo!", stopGo)
			}
			if err := p.Submit(ctx, f.typ, f.cbor, pcommon.Tip{}); err != nil {
				rt.Log("submit %d error", i)
			} else {
				rt.Log("submit %d ok", i)
			}
		}
		if stopAfter >= n {
			rt.Close("h:stopGo!", stopGo)
		}
		if stopAfter < 0 {
			dctx, cancel := vcontext.WithTimeout(ctx, 3*time.Second)
			p.WaitForDrain(dctx)
			cancel()
			vtime.Sleep(200 * time.Millisecond)
			p.Stop()
		} else {
			rt.Recv("h:stopped?", stopped)
		}
		rt.Recv("h:resDone?", resDone)
		rt.Recv("h:errDone?", errDone)
		rt.Log("end")
	}
	check := func(r *rt.Result) []rt.Finding {
		if f := verdictFinding(r); f != nil {
			return f
		}
		ended := false
		results := map[int]int{}
		errs := 0
		for _, l := range r.Logs {
			var k int
			switch {
			case strings.HasPrefix(l, "apply "):
				return []rt.Finding{{Key: "c42:applied-invalid", What: "a block that fails validation was applied: " + strings.Join(r.Logs, " | ")}}
			case strings.HasPrefix(l, "result "):
				fmt.Sscanf(l, "result %d", &k)
				results[k]++
				if results[k] > 1 {
					return []rt.Finding{{Key: "c42:result-twice", What: strings.Join(r.Logs, " | ")}}
				}
				if strings.HasSuffix(l, "applied=true") {
					return []rt.Finding{{Key: "c42:applied-invalid", What: l}}
				}
			case l == "error reported":
				errs++
			case l == "end":
				ended = true
			}
		}
		if !ended {
			return []rt.Finding{{Key: "c42:not-ended", What: "harness did not finish"}}
		}
		if stopAfter < 0 {
			for i := 0; i < n; i++ {
				if results[i] != 1 {
					return []rt.Finding{{Key: "c42:no-result", What: fmt.Sprintf("item %d missing from results: %v", i, results)}}
				}
			}
			if errs != n {
				return []rt.Finding{{Key: "c42:validation-failure-not-reported", What: fmt.Sprintf("%d blocks failed validation, %d errors reported", n, errs)}}
			}
		}
		return nil
	}
	return e1lib.Scenario{Name: name, Body: body, Check: check, Cfg: rt.Config{Horizon: 10 * time.Second}}
}

func TestC42(t *testing.T) {
	e1lib.Main(t, "C42", func(thorough bool) []e1lib.Scenario {
		var scs []e1lib.Scenario
		scs = append(scs,
			c42("nostop-BSB-w2", "BSB", 2, -1),
			c42("nostop-BxS-w2", "BxS", 2, -1),
			c42("nostop-xBx-w1", "xBx", 1, -1),
			c42("nostop-BBSS-w3", "BBSS", 3, -1),
		)
		for _, w := range []int{1, 2} {
			for sa := 0; sa <= 3; sa++ {
				scs = append(scs, c42(fmt.Sprintf("stop@%d-BxS-w%d", sa, w), "BxS", w, sa))
			}
		}
		// several goroutines stopping at once
		scs = append(scs, c42n("2stop@1-BS-w1", "BS", 1, 1, 2), c42n("2stop@0-B-w2", "B", 2, 0, 2))
		// validation enabled, saturated stages, Start context outlives the pipeline
		scs = append(scs, c42v("validate-n3-nostop", 3, -1), c42v("validate-n6-stop@6", 6, 6), c42v("validate-n6-stop@4", 6, 4))
		if thorough {
			scs = append(scs, c42n("3stop@1-BxS-w2", "BxS", 2, 1, 3))
			scs = append(scs, c42("nostop-BSBSBS-w16", "BSBSBS", 16, -1), c42("stop@2-BSBx-w3", "BSBx", 3, 2))
		}
		for i := range scs {
			scs[i].MinB, scs[i].MaxB, scs[i].Budget = 1, 2, 50*time.Second
			if thorough {
				scs[i].MinB, scs[i].MaxB, scs[i].Budget = 2, 3, 8*time.Minute
				if strings.Contains(scs[i].Name, "-w16") {
					// 16 decode workers: ≤1 deviation is what 8 CPU-minutes cover (bound 2 is attempted, not required)
					scs[i].MinB = 1
				}
			}
		}
		return scs
	})
}

// --- C43 ---------------------------------------------------------------------------------

func c43(name, items string, workers int) e1lib.Scenario {
	body := func() {
		ctx := vcontext.Background()
		p := pipeline.NewBlockPipeline(
			pipeline.WithDecodeWorkers(workers),
			pipeline.WithPrefetchBufferSize(2),
			pipeline.WithApplyFunc(func(b *pipeline.BlockItem) error {
				rt.Log("apply %d", b.SequenceNumber())
				return nil
			}),
		)
		if err := p.Start(ctx); err != nil {
			return
		}
		rt.Go("results", func() {
			for it := range rt.Range("h:results", p.Results()) {
				rt.Log("finished %d", it.SequenceNumber())
			}
		})
		rt.Go("errors", func() {
			for range rt.Range("h:errors", p.Errors()) {
			}
		})
		for i := 0; i < len(items); i++ {
			f := fixtures[items[i]]
			if err := p.Submit(ctx, f.typ, f.cbor, pcommon.Tip{}); err != nil {
				rt.Log("submit %d error", i)
			}
		}
		dctx, cancel := vcontext.WithTimeout(ctx, 2*time.Second)
		err := p.WaitForDrain(dctx)
		cancel()
		if err == nil {
			rt.Log("drained")
		} else {
			rt.Log("drain error")
		}
		vtime.Sleep(300 * time.Millisecond)
		p.Stop()
		rt.Log("end")
	}
	check := func(r *rt.Result) []rt.Finding {
		if f := verdictFinding(r); f != nil {
			return f
		}
		drained := false
		for _, l := range r.Logs {
			switch {
			case l == "drained":
				drained = true
			case strings.HasPrefix(l, "apply ") && drained:
				return []rt.Finding{{Key: "c43:apply-after-drain", What: "WaitForDrain returned nil and then " + l + " ran: " + strings.Join(r.Logs, " | ")}}
			}
		}
		return nil
	}
	return e1lib.Scenario{Name: name, Body: body, Check: check, Cfg: rt.Config{Horizon: 10 * time.Second, TimeJumps: true}}
}

// c43overflow: first the reorder buffer overflows once (a lazy decode worker holds the head-of-line
// block while more than MaxPendingBlocks successors overtake it), the pipeline recovers and drains;
// then one more block is submitted and WaitForDrain must still wait for it.
func c43overflow(name string, workers, maxPending int, lazy []string) e1lib.Scenario {
	body := func() {
		ctx := vcontext.Background()
		p := pipeline.NewBlockPipeline(
			pipeline.WithDecodeWorkers(workers),
			pipeline.WithPrefetchBufferSize(4),
			pipeline.WithMaxPendingBlocks(maxPending),
			pipeline.WithApplyFunc(func(b *pipeline.BlockItem) error {
				rt.Log("apply %d", b.SequenceNumber())
				return nil
			}),
		)
		if err := p.Start(ctx); err != nil {
			return
		}
		rt.Go("results", func() {
			for it := range rt.Range("h:results", p.Results()) {
				rt.Log("finished %d", it.SequenceNumber())
			}
		})
		rt.Go("errors", func() {
			for err := range rt.Range("h:errors", p.Errors()) {
				rt.Log("pipeline error: %v", err)
			}
		})
		f := fixtures['B']
		for i := 0; i < 3; i++ {
			p.Submit(ctx, f.typ, f.cbor, pcommon.Tip{})
		}
		d1, c1 := vcontext.WithTimeout(ctx, 2*time.Second)
		p.WaitForDrain(d1)
		c1()
		vtime.Sleep(300 * time.Millisecond)
		rt.Log("phase1 over")
		p.Submit(ctx, f.typ, f.cbor, pcommon.Tip{})
		d2, c2 := vcontext.WithTimeout(ctx, 2*time.Second)
		err := p.WaitForDrain(d2)
		c2()
		if err == nil {
			rt.Log("drained")
		} else {
			rt.Log("drain error")
		}
		vtime.Sleep(300 * time.Millisecond)
		p.Stop()
		rt.Log("end")
	}
	check := func(r *rt.Result) []rt.Finding {
		if f := verdictFinding(r); f != nil {
			return f
		}
		drained := false
		for _, l := range r.Logs {
			switch {
			case l == "drained":
				drained = true
			case strings.HasPrefix(l, "apply ") && drained:
				return []rt.Finding{{Key: "c43:apply-after-drain", What: "WaitForDrain returned nil and then " + l + " ran: " + strings.Join(r.Logs, " | ")}}
			}
		}
		return nil
	}
	return e1lib.Scenario{Name: name, Body: body, Check: check, Cfg: rt.Config{Horizon: 20 * time.Second, TimeJumps: true, Lazy: lazy}}
}

// c43hold: the apply function HOLDS every block for `hold` of virtual time (start and end are logged), so
// the drain ticker fires while a block is inside ApplyFunc. Options: giveUp — before the drain, a
// submitter gives up while WAITING FOR THE SUBMIT TOKEN (another one holds it, blocked on the full
// pipeline): a failed submission must leave the in-flight bookkeeping untouched; stopAt >= 0 — another
// goroutine calls Stop() at that virtual time while WaitForDrain is polling. Oracle: after WaitForDrain
// returned nil no apply call of a block submitted before it starts, runs or ends.
func c43hold(name string, n int, hold time.Duration, giveUp bool, stopAt time.Duration) e1lib.Scenario {
	body := func() {
		ctx := vcontext.Background()
		gate := make(chan struct{})
		p := pipeline.NewBlockPipeline(
			pipeline.WithDecodeWorkers(1),
			pipeline.WithPrefetchBufferSize(1),
			pipeline.WithApplyFunc(func(b *pipeline.BlockItem) error {
				if giveUp {
					rt.Recv("h:gate", gate)
				}
				rt.Log("apply-start %d", b.SequenceNumber())
				vtime.Sleep(hold)
				rt.Log("apply-end %d", b.SequenceNumber())
				return nil
			}),
		)
		if err := p.Start(ctx); err != nil {
			return
		}
		rt.Go("results", func() {
			for range rt.Range("h:results", p.Results()) {
			}
		})
		rt.Go("errors", func() {
			for range rt.Range("h:errors", p.Errors()) {
			}
		})
		f := fixtures['B']
		for i := 0; i < n; i++ {
			if err := p.Submit(ctx, f.typ, f.cbor, pcommon.Tip{}); err != nil {
				rt.Log("submit %d error", i)
			}
		}
		if giveUp {
			// the pipeline is full (apply gated): A blocks on the full channel holding the token,
			// B's context expires while it waits for the token
			done := make(chan string, 2)
			rt.Go("submitterA", func() {
				if err := p.Submit(ctx, f.typ, f.cbor, pcommon.Tip{}); err != nil {
					rt.Send("h:doneA", done, "A failed")
				} else {
					rt.Send("h:doneA", done, "A ok")
				}
			})
			vtime.Sleep(time.Millisecond)
			rt.Go("submitterB", func() {
				sctx, cancel := vcontext.WithTimeout(ctx, 2*time.Millisecond)
				err := p.Submit(sctx, f.typ, f.cbor, pcommon.Tip{})
				cancel()
				if err != nil {
					rt.Send("h:doneB", done, "B failed")
				} else {
					rt.Send("h:doneB", done, "B ok")
				}
			})
			vtime.Sleep(5 * time.Millisecond)
			rt.Close("h:openGate", gate)
			rt.Log("%s", rt.Recv("h:join", done))
			rt.Log("%s", rt.Recv("h:join", done))
			// let everything accepted so far finish, then one more block: the drain below must wait for it
			// also while a decode worker holds it (a slow worker = one time-jump deviation)
			vtime.Sleep(300 * time.Millisecond)
			rt.Log("phase1 over")
			if err := p.Submit(ctx, f.typ, f.cbor, pcommon.Tip{}); err != nil {
				rt.Log("late submit error")
			}
		}
		stopped := make(chan struct{})
		if stopAt >= 0 {
			rt.Go("stopper", func() {
				vtime.Sleep(stopAt)
				rt.Log("stop called")
				p.Stop()
				rt.Close("h:stopped", stopped)
			})
		}
		dctx, cancel := vcontext.WithTimeout(ctx, 2*time.Second)
		err := p.WaitForDrain(dctx)
		cancel()
		if err == nil {
			rt.Log("drained")
		} else {
			rt.Log("drain error")
		}
		vtime.Sleep(300 * time.Millisecond)
		if stopAt >= 0 {
			rt.Recv("h:stopped?", stopped)
		} else {
			p.Stop()
		}
		rt.Log("end")
	}
	check := func(r *rt.Result) []rt.Finding {
		if f := verdictFinding(r); f != nil {
			return f
		}
		drained := false
		for _, l := range r.Logs {
			switch {
			case l == "drained":
				drained = true
			case strings.HasPrefix(l, "apply-") && drained:
				return []rt.Finding{{Key: "c43:apply-after-drain", What: "WaitForDrain returned nil and then " + l + " happened: " + strings.Join(tail(r.Logs, 14), " | ")}}
			}
		}
		return nil
	}
	return e1lib.Scenario{Name: name, Body: body, Check: check, Cfg: rt.Config{Horizon: 20 * time.Second, TimeJumps: true}}
}

func TestC43(t *testing.T) {
	e1lib.Main(t, "C43", func(thorough bool) []e1lib.Scenario {
		scs := []e1lib.Scenario{c43("drain-B-w1", "B", 1), c43("drain-BS-w2", "BS", 2), c43("drain-xB-w1", "xB", 1),
			c43overflow("overflow-w3-max1-lazy0", 3, 1, []string{"worker_pool.go:105#0"}),
			c43overflow("overflow-w3-max1-lazy1", 3, 1, []string{"worker_pool.go:105#1"}),
			c43hold("hold25ms-n2", 2, 25*time.Millisecond, false, -1),
			c43hold("hold25ms-n4-token-giveup", 4, 25*time.Millisecond, true, -1),
			c43hold("hold25ms-n2-stop@5ms", 2, 25*time.Millisecond, false, 5*time.Millisecond),
			c43hold("hold25ms-n3-stop@12ms", 3, 25*time.Millisecond, false, 12*time.Millisecond)}
		if thorough {
			scs = append(scs, c43("drain-BSB-w2", "BSB", 2))
		}
		for i := range scs {
			scs[i].MinB, scs[i].MaxB, scs[i].Budget = 1, 2, 50*time.Second
			if thorough {
				scs[i].MinB, scs[i].MaxB, scs[i].Budget = 2, 3, 8*time.Minute
			}
		}
		return scs
	})
}

// --- C44 ---------------------------------------------------------------------------------

// c44: buffer size buf, one worker, the apply function blocks on a gate until the harness
// opens it. n submissions fill the pipeline, the next one uses a context that expires
// while it is blocked, then the gate opens and one more item is submitted: it must be applied.
func c44(name string, buf int) e1lib.Scenario {
	body := func() {
		ctx := vcontext.Background()
		gate := make(chan struct{})
		p := pipeline.NewBlockPipeline(
			pipeline.WithDecodeWorkers(1),
			pipeline.WithPrefetchBufferSize(buf),
			pipeline.WithApplyFunc(func(b *pipeline.BlockItem) error {
				rt.Recv("h:gate", gate)
				rt.Log("apply %d", b.SequenceNumber())
				return nil
			}),
		)
		if err := p.Start(ctx); err != nil {
			return
		}
		rt.Go("results", func() {
			for range rt.Range("h:results", p.Results()) {
			}
		})
		rt.Go("errors", func() {
			for range rt.Range("h:errors", p.Errors()) {
			}
		})
		f := fixtures['B']
		okCount := 0
		failed := false
		// keep submitting with a short deadline until one submission fails (the pipeline is full)
		for i := 0; i < 3*buf+6 && !failed; i++ {
			sctx, cancel := vcontext.WithTimeout(ctx, time.Millisecond)
			err := p.Submit(sctx, f.typ, f.cbor, pcommon.Tip{})
			cancel()
			if err != nil {
				rt.Log("submit failed after %d accepted", okCount)
				failed = true
			} else {
				okCount++
			}
		}
		rt.Close("h:openGate", gate)
		err := p.Submit(ctx, f.typ, f.cbor, pcommon.Tip{})
		rt.Log("late submit err=%v", err != nil)
		dctx, cancel := vcontext.WithTimeout(ctx, 3*time.Second)
		p.WaitForDrain(dctx)
		cancel()
		vtime.Sleep(500 * time.Millisecond)
		rt.Log("accepted %d", okCount+1)
		p.Stop()
		rt.Log("end")
	}
	check := func(r *rt.Result) []rt.Finding {
		if f := verdictFinding(r); f != nil {
			return f
		}
		applied := 0
		accepted := -1
		failed := false
		lateErr := false
		for _, l := range r.Logs {
			switch {
			case strings.HasPrefix(l, "apply "):
				applied++
			case strings.HasPrefix(l, "accepted "):
				fmt.Sscanf(l, "accepted %d", &accepted)
			case strings.HasPrefix(l, "submit failed"):
				failed = true
			case l == "late submit err=true":
				lateErr = true
			}
		}
		if !failed || lateErr || accepted < 0 {
			return nil // the scenario did not reach the situation the property talks about
		}
		if applied < accepted {
			return []rt.Finding{{Key: "c44:stalled-after-failed-submit", What: fmt.Sprintf("%d submissions succeeded (one of them after a failed one) but only %d blocks were applied: %s", accepted, applied, strings.Join(r.Logs, " | "))}}
		}
		return nil
	}
	return e1lib.Scenario{Name: name, Body: body, Check: check, Cfg: rt.Config{Horizon: 20 * time.Second}}
}

// c44two: the pipeline is full (apply gated); submitter A blocks with a context that expires,
// submitter B (no deadline) arrives while A is still blocked; A fails, the gate opens, B and a
// later submission succeed: everything accepted must be applied.
func c44two(name string, buf int) e1lib.Scenario {
	body := func() {
		ctx := vcontext.Background()
		gate := make(chan struct{})
		p := pipeline.NewBlockPipeline(
			pipeline.WithDecodeWorkers(1),
			pipeline.WithPrefetchBufferSize(buf),
			pipeline.WithApplyFunc(func(b *pipeline.BlockItem) error {
				rt.Recv("h:gate", gate)
				rt.Log("apply %d", b.SequenceNumber())
				return nil
			}),
		)
		if err := p.Start(ctx); err != nil {
			return
		}
		rt.Go("results", func() {
			for range rt.Range("h:results", p.Results()) {
			}
		})
		rt.Go("errors", func() {
			for range rt.Range("h:errors", p.Errors()) {
			}
		})
		f := fixtures['B']
		// fill: buf (submit chan) + 1 (worker's hands) + buf (decoded chan) + 1 (apply) accepted without blocking
		accepted := 0
		for i := 0; i < 2*buf+2; i++ {
			if err := p.Submit(ctx, f.typ, f.cbor, pcommon.Tip{}); err == nil {
				accepted++
			}
		}
		done := make(chan string, 2)
		rt.Go("submitterA", func() {
			sctx, cancel := vcontext.WithTimeout(ctx, 2*time.Millisecond)
			err := p.Submit(sctx, f.typ, f.cbor, pcommon.Tip{})
			cancel()
			if err != nil {
				rt.Send("h:doneA", done, "A failed")
			} else {
				rt.Send("h:doneA", done, "A ok")
			}
		})
		vtime.Sleep(time.Millisecond)
		rt.Go("submitterB", func() {
			err := p.Submit(ctx, f.typ, f.cbor, pcommon.Tip{})
			if err != nil {
				rt.Send("h:doneB", done, "B failed")
			} else {
				rt.Send("h:doneB", done, "B ok")
			}
		})
		vtime.Sleep(3 * time.Millisecond)
		rt.Close("h:openGate", gate)
		for i := 0; i < 2; i++ {
			r := rt.Recv("h:join", done)
			rt.Log("%s", r)
			if strings.HasSuffix(r, " ok") {
				accepted++
			}
		}
		if err := p.Submit(ctx, f.typ, f.cbor, pcommon.Tip{}); err == nil {
			accepted++
		}
		dctx, cancel := vcontext.WithTimeout(ctx, 3*time.Second)
		p.WaitForDrain(dctx)
		cancel()
		vtime.Sleep(500 * time.Millisecond)
		rt.Log("accepted %d", accepted)
		p.Stop()
		rt.Log("end")
	}
	check := func(r *rt.Result) []rt.Finding {
		if f := verdictFinding(r); f != nil {
			return f
		}
		applied, accepted, aFailed := 0, -1, false
		for _, l := range r.Logs {
			switch {
			case strings.HasPrefix(l, "apply "):
				applied++
			case strings.HasPrefix(l, "accepted "):
				fmt.Sscanf(l, "accepted %d", &accepted)
			case l == "A failed":
				aFailed = true
			}
		}
		if !aFailed || accepted < 0 {
			return nil // the situation the property talks about was not reached on this schedule
		}
		if applied < accepted {
			return []rt.Finding{{Key: "c44:stalled-after-failed-submit", What: fmt.Sprintf("%d submissions succeeded but only %d blocks were applied: %s", accepted, applied, strings.Join(r.Logs, " | "))}}
		}
		return nil
	}
	return e1lib.Scenario{Name: name, Body: body, Check: check, Cfg: rt.Config{Horizon: 20 * time.Second}}
}

// c44id: every submission carries its own identity (Tip.BlockNumber = index). Submissions listed in
// `expired` use a context that is ALREADY done when Submit is called (the pipeline has room, so the
// enqueue and the context are both ready and the select may take either); `three` adds the
// three-submitter situation: the pipeline is full (apply gated), A blocks holding the submit token,
// B gives up while waiting for the token, C arrives while A is still blocked, then the gate opens.
// Oracle: the blocks of exactly the submissions that returned nil are applied, each once, in
// submission-return order for a single submitter; a submission that returned an error is never applied.
func c44id(name string, n int, expired map[int]bool, three bool) e1lib.Scenario {
	body := func() {
		ctx := vcontext.Background()
		gate := make(chan struct{})
		gated := three
		p := pipeline.NewBlockPipeline(
			pipeline.WithDecodeWorkers(1),
			pipeline.WithPrefetchBufferSize(1),
			pipeline.WithApplyFunc(func(b *pipeline.BlockItem) error {
				if gated {
					rt.Recv("h:gate", gate)
				}
				rt.Log("apply id=%d", b.Tip().BlockNumber)
				return nil
			}),
		)
		if err := p.Start(ctx); err != nil {
			return
		}
		rt.Go("results", func() {
			for range rt.Range("h:results", p.Results()) {
			}
		})
		rt.Go("errors", func() {
			for range rt.Range("h:errors", p.Errors()) {
			}
		})
		f := fixtures['B']
		submit := func(c vcontext.Context, id int) {
			if err := p.Submit(c, f.typ, f.cbor, pcommon.Tip{BlockNumber: uint64(id)}); err != nil {
				rt.Log("submit id=%d error", id)
			} else {
				rt.Log("submit id=%d ok", id)
			}
		}
		for i := 0; i < n; i++ {
			if expired[i] {
				cctx, cancel := vcontext.WithCancel(ctx)
				cancel()
				submit(cctx, i)
			} else {
				submit(ctx, i)
			}
		}
		if three {
			done := make(chan struct{}, 3)
			rt.Go("submitterA", func() { submit(ctx, 100); rt.Send("h:done", done, struct{}{}) })
			vtime.Sleep(time.Millisecond)
			rt.Go("submitterB", func() {
				sctx, cancel := vcontext.WithTimeout(ctx, 2*time.Millisecond)
				submit(sctx, 101)
				cancel()
				rt.Send("h:done", done, struct{}{})
			})
			vtime.Sleep(4 * time.Millisecond)
			rt.Go("submitterC", func() { submit(ctx, 102); rt.Send("h:done", done, struct{}{}) })
			vtime.Sleep(2 * time.Millisecond)
			rt.Close("h:openGate", gate)
			for i := 0; i < 3; i++ {
				rt.Recv("h:join", done)
			}
			submit(ctx, 103)
		}
		dctx, cancel := vcontext.WithTimeout(ctx, 3*time.Second)
		p.WaitForDrain(dctx)
		cancel()
		vtime.Sleep(500 * time.Millisecond)
		p.Stop()
		rt.Log("end")
	}
	check := func(r *rt.Result) []rt.Finding {
		if f := verdictFinding(r); f != nil {
			return f
		}
		ok, failed, applied := map[int]bool{}, map[int]bool{}, map[int]int{}
		var order []int
		for _, l := range r.Logs {
			var id int
			switch {
			case strings.HasPrefix(l, "apply id="):
				fmt.Sscanf(l, "apply id=%d", &id)
				applied[id]++
				order = append(order, id)
			case strings.HasSuffix(l, " ok"):
				fmt.Sscanf(l, "submit id=%d ok", &id)
				ok[id] = true
			case strings.HasSuffix(l, " error"):
				fmt.Sscanf(l, "submit id=%d error", &id)
				failed[id] = true
			}
		}
		ids := make([]int, 0, len(ok)+len(failed))
		for id := range ok {
			ids = append(ids, id)
		}
		for id := range failed {
			ids = append(ids, id)
		}
		sort.Ints(ids)
		for _, id := range ids {
			switch {
			case ok[id] && applied[id] == 0:
				return []rt.Finding{{Key: "c44:accepted-block-never-applied", What: fmt.Sprintf("submission %d returned nil but its block was never applied: %s", id, strings.Join(r.Logs, " | "))}}
			case applied[id] > 1:
				return []rt.Finding{{Key: "c44:applied-twice", What: fmt.Sprintf("block %d applied %d times: %s", id, applied[id], strings.Join(r.Logs, " | "))}}
			case failed[id] && applied[id] > 0:
				return []rt.Finding{{Key: "c44:failed-submission-applied", What: fmt.Sprintf("submission %d returned an error but its block was applied: %s", id, strings.Join(r.Logs, " | "))}}
			}
		}
		last := -1
		for _, id := range order {
			if id < 100 {
				if id < last {
					return []rt.Finding{{Key: "c44:apply-out-of-order", What: fmt.Sprint(order)}}
				}
				last = id
			}
		}
		return nil
	}
	return e1lib.Scenario{Name: name, Body: body, Check: check, Cfg: rt.Config{Horizon: 20 * time.Second}}
}

func TestC44(t *testing.T) {
	e1lib.Main(t, "C44", func(thorough bool) []e1lib.Scenario {
		scs := []e1lib.Scenario{c44("full-buf1", 1), c44("full-buf2", 2), c44two("two-submitters-buf1", 1),
			c44id("expired-ctx-with-room-n4", 4, map[int]bool{1: true}, false),
			c44id("expired-ctx-first-and-third-n5", 5, map[int]bool{0: true, 2: true}, false),
			c44id("three-submitters-token-giveup", 4, nil, true)}
		for i := range scs {
			scs[i].MinB, scs[i].MaxB, scs[i].Budget = 0, 1, 50*time.Second
			if thorough {
				scs[i].MinB, scs[i].MaxB, scs[i].Budget = 1, 2, 6*time.Minute
			}
		}
		return scs
	})
}

func tail(s []string, n int) []string {
	if len(s) > n {
		return s[len(s)-n:]
	}
	return s
}
