// C23: block-fetch returns the blocks that were asked for.
//
// Seam S3: the REAL blockfetch.Client on a real muxer over a scheduler-owned connection.
// The peer is a harness goroutine that reads the client's request from the wire (own
// segment/CBOR reader) and answers with an enumerated batch shape built with the harness's
// own CBOR writer (message numbers from the network specification, not from the package).
// A small "connection owner" goroutine does what ouroboros.Connection does around a
// protocol (connection.go): the first error on the protocol error channel or on the
// muxer's error channel — or the application closing the connection — stops the muxer,
// which closes the connection.
//
// Oracle (written from the property statement):
//   - GetBlockRange: the block callback sees a prefix of the served blocks, in the served
//     order; for a complete batch it sees all of them, then the batch-done callback runs
//     exactly once and the call counts as completed (a follow-up request is served);
//     NoBlocks makes the call return an error; the call never hangs.
//   - GetBlock(point): returns either an error or a block whose bytes/hash are those of the
//     requested point; the conforming batch [StartBatch, Block(requested), BatchDone] must
//     return that block; every other batch shape (no block, a different block, several
//     blocks, connection closed) must return an error; the call must RETURN: a call still
//     blocked 300 virtual seconds after it was issued (every timeout involved is <= 120 s)
//     and still blocked 100 s after the connection has been shut down is a hang.
package c23

import (
	"bytes"
	"encoding/hex"
	"fmt"
	"os"
	"path/filepath"
	"strings"
	"testing"
	"time"

	"github.com/blinklabs-io/gouroboros/connection"
	"github.com/blinklabs-io/gouroboros/ledger"
	"github.com/blinklabs-io/gouroboros/muxer"
	"github.com/blinklabs-io/gouroboros/protocol"
	"github.com/blinklabs-io/gouroboros/protocol/blockfetch"
	pcommon "github.com/blinklabs-io/gouroboros/protocol/common"
	rt "github.com/blinklabs-io/gouroboros/verifrt"
	vtime "github.com/blinklabs-io/gouroboros/verifrt/vtime"
	"verif/e1/e1lib"
	"verif/e1/s2lib"
	"verif/space"
)

// block-fetch mini-protocol number and message numbers (network specification)
const (
	protoBlockFetch = 3
	msgRequestRange = 0
	msgClientDone   = 1
	msgStartBatch   = 2
	msgNoBlocks     = 3
	msgBlock        = 4
	msgBatchDone    = 5
)

type fixture struct {
	name string
	typ  uint64 // block type number inside the block-fetch wrapper
	raw  []byte
	hash []byte // the block's hash: the fixture file is named after it
	slot uint64
	sum  string
}

var fixtures = func() map[byte]*fixture {
	repo := os.Getenv("REPO_ROOT")
	if repo == "" {
		repo = "/repo"
	}
	rd := func(name string, typ uint64, slot uint64, file string) *fixture {
		b, err := os.ReadFile(filepath.Join(repo, "protocol/chainsync/testdata", file))
		if err != nil {
			panic(err)
		}
		raw, err := hex.DecodeString(strings.TrimSpace(string(b)))
		if err != nil {
			panic(err)
		}
		hs := strings.TrimSuffix(file[strings.LastIndex(file, "_")+1:], ".hex")
		h, err := hex.DecodeString(hs)
		if err != nil || len(h) != 32 {
			panic("fixture name does not end in a block hash: " + file)
		}
		return &fixture{name: name, typ: typ, raw: raw, hash: h, slot: slot, sum: s2lib.Sum(raw)}
	}
	return map[byte]*fixture{
		'b': rd("byron", 1, 1001, "byron_main_block_testnet_f38aa5e8cf0b47d1ffa8b2385aa2d43882282db2ffd5ac0e3dadec1a6f2ecf08.hex"),
		's': rd("shelley", 2, 2002, "shelley_block_testnet_02b1c561715da9e540411123a6135ee319b02f60b9a11a603d3305556c04329f.hex"),
	}
}()

func (f *fixture) point() pcommon.Point { return pcommon.NewPoint(f.slot, append([]byte(nil), f.hash...)) }

func pointNode(f *fixture) *space.Node { return space.A(space.U(f.slot), space.B(f.hash)) }

// wire bytes of one letter of a batch script
func letterBytes(l byte) []byte {
	switch l {
	case 'N':
		return space.A(space.U(msgNoBlocks)).Encode()
	case 'S':
		return space.A(space.U(msgStartBatch)).Encode()
	case 'D':
		return space.A(space.U(msgBatchDone)).Encode()
	case 'b', 's':
		f := fixtures[l]
		wrapped := space.A(space.U(f.typ), space.Raw(f.raw)).Encode()
		return space.A(space.U(msgBlock), space.Tag(24, space.B(wrapped))).Encode()
	case 'g':
		// a Block message whose wrapped block is not a block at all
		wrapped := space.A(space.U(2), space.A(space.U(1), space.U(2))).Encode()
		return space.A(space.U(msgBlock), space.Tag(24, space.B(wrapped))).Encode()
	}
	panic("letter " + string(l))
}

func scriptName(s string) string {
	parts := make([]string, len(s))
	for i := range s {
		parts[i] = string(s[i])
	}
	return strings.Join(parts, ",")
}

type params struct {
	api    string // "GetBlock" | "GetBlockRange"
	req    byte   // GetBlock: requested fixture; GetBlockRange: start fixture (end = the other one)
	script string // letters N S D b s g X(close)
	packed bool   // all messages of the batch in ONE segment instead of one segment each
	follow bool   // after the first call is over a GetBlock(req) is issued and answered conformingly
	frag   bool   // short reads / split writes offered on the client's connection
	// slow: the calling goroutine is scheduled only when nothing else can run (rt.Config.Lazy): the
	// zero-deviation schedule is "the caller is descheduled while the receive loop works ahead"
	slow bool
}

func (p params) name() string {
	n := fmt.Sprintf("%s(%c)|%s", p.api, p.req, scriptName(p.script))
	if p.packed {
		n += "|packed"
	}
	if p.follow {
		n += "|follow"
	}
	if p.frag {
		n += "|frag"
	}
	if p.slow {
		n += "|slow-caller"
	}
	return n
}

func other(l byte) byte {
	if l == 'b' {
		return 's'
	}
	return 'b'
}

func scenario(p params) e1lib.Scenario {
	reqF := fixtures[p.req]
	endF := reqF
	if p.api == "GetBlockRange" {
		endF = fixtures[other(p.req)]
	}
	wantReq := space.A(space.U(msgRequestRange), pointNode(reqF), pointNode(endF)).Encode()
	wantFollow := space.A(space.U(msgRequestRange), pointNode(reqF), pointNode(reqF)).Encode()

	body := func() {
		a, b := rt.ConnPair("client", "server")
		a.Frag = p.frag
		m := muxer.New(a)
		errs := make(chan error, 10) // Connection.protoErrorChan
		batchDone := make(chan struct{}, 8)
		cfg, err := blockfetch.NewConfig(
			blockfetch.WithBlockFunc(func(_ blockfetch.CallbackContext, typ uint, blk ledger.Block) error {
				rt.Log("cb block %d %s", typ, s2lib.Sum(blk.Cbor()))
				return nil
			}),
			blockfetch.WithBatchDoneFunc(func(blockfetch.CallbackContext) error {
				rt.Log("cb done")
				rt.Send("h:batchDone", batchDone, struct{}{})
				return nil
			}),
		)
		if err != nil {
			panic(err)
		}
		client := blockfetch.NewClient(protocol.ProtocolOptions{
			ConnectionId: connection.ConnectionId{LocalAddr: a.LocalAddr(), RemoteAddr: a.RemoteAddr()},
			Muxer:        m, ErrorChan: errs, Mode: protocol.ProtocolModeNodeToNode, Role: protocol.ProtocolRoleClient,
		}, &cfg)
		client.Start()
		m.SetDiffusionMode(muxer.DiffusionModeInitiator)
		m.Start()

		// connection owner = what ouroboros.Connection does (connection.go: the two error
		// forwarding goroutines + Close/shutdown): first error or Close() => muxer.Stop()
		connClose := make(chan struct{}) // Connection.doneChan, closed by Connection.Close()
		connClosed := make(chan struct{})
		rt.Go("owner", func() {
			s := rt.NewSel("owner:wait", false)
			rt.SelRecvCase(s, connClose)
			rt.SelRecvCase(s, errs)
			rt.SelRecvCase(s, m.ErrorChan())
			switch s.Choose() {
			case 0:
				rt.Log("conn closed by application")
			case 1:
				rt.Log("conn error protocol: %v", rt.SelVal(s, errs))
			case 2:
				if e, ok := rt.SelVal2(s, m.ErrorChan()); ok {
					rt.Log("conn error muxer: %v", e)
				}
			}
			m.Stop()
			for range rt.Range("owner:muxdrain", m.ErrorChan()) {
			}
			rt.Close("owner:closed", connClosed)
		})

		// the server: answers the first request with the script, a follow-up request conformingly
		rt.Go("peer", func() {
			nreq := 0
			closed := false
			write := func(payload []byte) {
				if !closed {
					b.Write(s2lib.Segment(protoBlockFetch, true, payload))
				}
			}
			s2lib.WireReader(b, nil, func(id uint16, msg []byte) {
				if id != protoBlockFetch {
					rt.Log("wire unexpected protocol id %d", id)
					return
				}
				nreq++
				switch {
				case nreq == 1 && bytes.Equal(msg, wantReq):
					rt.Log("wire request 1 ok")
				case nreq == 2 && p.follow && bytes.Equal(msg, wantFollow):
					rt.Log("wire request 2 ok")
				default:
					rt.Log("wire unexpected message %d: %x", nreq, msg)
					return
				}
				script := p.script
				if nreq == 2 {
					script = "S" + string(p.req) + "D"
				}
				if p.packed {
					var all []byte
					for i := 0; i < len(script); i++ {
						if script[i] == 'X' {
							break
						}
						all = append(all, letterBytes(script[i])...)
					}
					if len(all) > 0 {
						write(all)
					}
					if strings.Contains(script, "X") {
						closed = true
						b.Close()
					}
					return
				}
				for i := 0; i < len(script); i++ {
					if script[i] == 'X' {
						closed = true
						b.Close()
						break
					}
					write(letterBytes(script[i]))
				}
			})
		})

		callDone := make(chan struct{}, 2)
		rt.Go("caller", func() {
			defer rt.Send("h:callDone", callDone, struct{}{})
			switch p.api {
			case "GetBlock":
				blk, err := client.GetBlock(reqF.point())
				logGetBlock("ret", blk, err)
			case "GetBlockRange":
				err := client.GetBlockRange(reqF.point(), endF.point())
				if err != nil {
					rt.Log("ret err %v", err)
					break
				}
				rt.Log("ret ok")
				// the batch is over when the batch-done callback ran or the connection went down
				s := rt.NewSel("caller:batch", false)
				rt.SelRecvCase(s, batchDone)
				rt.SelRecvCase(s, connClosed)
				if s.Choose() == 0 {
					rt.Log("completed")
				} else {
					rt.Log("aborted by connection shutdown")
				}
			}
			if p.follow {
				blk, err := client.GetBlock(reqF.point())
				logGetBlock("follow", blk, err)
			}
		})

		finish(client, 1, callDone, connClose, connClosed)
	}

	check := func(r *rt.Result) []rt.Finding {
		return oracle(p, r)
	}
	cfg := rt.Config{Horizon: 30 * time.Minute}
	if p.slow {
		cfg.Lazy = []string{"caller"}
	}
	return e1lib.Scenario{Name: p.name(), Body: body, Check: check, Cfg: cfg}
}

// finish is the application: it waits for its n calls; every timeout involved (batch start
// 5 s, block 60 s, muxer segment read 120 s) is far below 300 s. Then it closes the
// connection; calls that are still blocked get 100 s more, then client.Stop() and 100 s more.
func finish(client *blockfetch.Client, n int, callDone chan struct{}, connClose, connClosed chan struct{}) {
	returned := 0
	waitCalls := func(pos string, d time.Duration) bool {
		t := vtime.After(d)
		for returned < n {
			s := rt.NewSel(pos, false)
			rt.SelRecvCase(s, callDone)
			rt.SelRecvCase(s, t)
			if s.Choose() == 1 {
				return false
			}
			returned++
		}
		return true
	}
	inTime := waitCalls("main:wait", 300*time.Second)
	if !inTime {
		rt.Log("call still blocked after 300s")
	}
	rt.Close("main:connClose", connClose) // Connection.Close()
	rt.Recv("main:connClosed", connClosed)
	if !inTime {
		if !waitCalls("main:wait2", 100*time.Second) {
			// last resort of an application: Stop() on the client object itself
			rt.Log("call still blocked 100s after the connection was shut down")
			rt.Go("stopper", func() {
				client.Stop()
				rt.Log("client.Stop returned")
			})
			if !waitCalls("main:wait3", 100*time.Second) {
				rt.Log("hang")
				return
			}
			rt.Log("call returned only after client.Stop")
			return
		}
		rt.Log("call returned only after the connection was shut down")
	}
	rt.Recv("main:protoDone", client.DoneChan())
	rt.Log("end")
}

func logGetBlock(tag string, blk ledger.Block, err error) {
	switch {
	case err != nil && blk != nil:
		rt.Log("%s err+block %v", tag, err)
	case err != nil:
		rt.Log("%s err %v", tag, err)
	case blk == nil:
		rt.Log("%s nil-nil", tag)
	default:
		rt.Log("%s block %s hash %x", tag, s2lib.Sum(blk.Cbor()), blk.Hash().Bytes())
	}
}

func oracle(p params, r *rt.Result) []rt.Finding {
	reqF := fixtures[p.req]
	logs := strings.Join(r.Logs, " | ")
	fail := func(key, what string) []rt.Finding {
		return []rt.Finding{{Key: key, What: what + " :: " + logs}}
	}
	var cbs []string // block callbacks, in order
	nDone, doneAt, lastCbAt := 0, -1, -1
	ret, follow := "", ""
	hang, ended, completed := false, false, false
	for i, l := range r.Logs {
		switch {
		case strings.HasPrefix(l, "cb block "):
			cbs = append(cbs, l[len("cb block "):])
			lastCbAt = i
		case l == "cb done":
			nDone++
			doneAt = i
		case strings.HasPrefix(l, "ret "):
			ret = l[4:]
		case strings.HasPrefix(l, "follow "):
			follow = l[7:]
		case l == "hang":
			hang = true
		case l == "end":
			ended = true
		case l == "completed":
			completed = true
		case strings.HasPrefix(l, "wire unexpected"):
			return fail("wrong-request-on-the-wire", l)
		}
	}
	for _, l := range r.Logs {
		if strings.HasPrefix(l, "call returned only after") {
			return fail("hang-until-"+strings.ReplaceAll(strings.TrimPrefix(l, "call returned only after "), " ", "-"), "the call stayed blocked for 300 s although every timeout involved is at most 120 s and the peer was silent; "+l)
		}
	}
	if hang {
		who := "the call"
		if ret != "" {
			who = "the follow-up call"
		}
		return fail("hang", who+" never returned (blocked 300 s, 100 s more after the connection was shut down, 100 s more after client.Stop() was called): "+strings.Join(r.Verdict.Stuck, "; "))
	}
	if r.Verdict.Kind == "panic" {
		return fail("panic:"+strings.SplitN(r.Verdict.Detail, "\n", 2)[0], r.Verdict.Detail)
	}
	badEnd := r.Verdict.Kind != "ok" || !ended
	verdictFinding := func() []rt.Finding {
		// the call returned, but something did not shut down: not what C23 states (that is C15),
		// yet the harness cannot vouch for such an execution
		return fail("verdict:"+r.Verdict.Kind, r.Verdict.Detail+" "+strings.Join(r.Verdict.Stuck, "; "))
	}
	if badEnd && (p.api != "GetBlock" || ret == "") {
		return verdictFinding()
	}
	script := p.script
	closes := strings.Contains(script, "X")
	var served []string
	for i := 0; i < len(script) && script[i] != 'X'; i++ {
		if f, ok := fixtures[script[i]]; ok {
			served = append(served, fmt.Sprintf("%d %s", f.typ, f.sum))
		}
	}
	wantBlock := fmt.Sprintf("block %s hash %x", reqF.sum, reqF.hash)
	switch p.api {
	case "GetBlockRange":
		if len(cbs) > len(served) {
			return fail("range:extra-callback", fmt.Sprintf("callbacks %v, served %v", cbs, served))
		}
		for i := range cbs {
			if cbs[i] != served[i] {
				return fail("range:callback-order-or-content", fmt.Sprintf("callbacks %v, served %v", cbs, served))
			}
		}
		if nDone > 1 {
			return fail("range:batch-done-twice", "")
		}
		if nDone == 1 && lastCbAt > doneAt {
			return fail("range:block-after-batch-done", "")
		}
		complete := !closes && !strings.Contains(script, "g") && strings.HasPrefix(script, "S") && strings.HasSuffix(script, "D")
		switch {
		case script == "N":
			if !strings.HasPrefix(ret, "err ") {
				return fail("range:noblocks-not-reported", "GetBlockRange returned "+ret)
			}
			if nDone > 0 {
				return fail("range:batch-done-without-batch", "")
			}
		case complete:
			if ret != "ok" {
				return fail("range:conforming-batch-refused", "GetBlockRange returned "+ret)
			}
			if len(cbs) != len(served) || nDone != 1 || !completed {
				return fail("range:blocks-not-delivered", fmt.Sprintf("callbacks %v done=%d completed=%v, served %v", cbs, nDone, completed, served))
			}
		default:
			if nDone > 0 && !strings.Contains(script, "D") {
				return fail("range:batch-done-without-batch-done", "")
			}
		}
		if p.follow && complete && follow != wantBlock {
			return fail("range:not-completed", "the request issued after the batch was over returned "+follow+", want "+wantBlock)
		}
	case "GetBlock":
		conforming := script == "S"+string(p.req)+"D"
		switch {
		case strings.HasPrefix(ret, "block "):
			if ret != wantBlock {
				return fail("getblock:wrong-block-returned", "asked for "+fmt.Sprintf("%s hash %x", reqF.sum, reqF.hash)+", got "+ret)
			}
			if !conforming {
				return fail("getblock:non-conforming-batch-accepted", "the batch "+scriptName(script)+" must make the call fail, it returned "+ret)
			}
		case strings.HasPrefix(ret, "err "):
			if conforming {
				return fail("getblock:matching-block-not-returned", "conforming batch, the call returned "+ret)
			}
		default:
			return fail("getblock:neither-block-nor-error", "returned "+ret)
		}
		if badEnd {
			return verdictFinding()
		}
		if p.follow && !closes && !strings.Contains(script, "g") && strings.HasSuffix(script, "D") && follow != wantBlock {
			// the first batch was complete (whatever it contained): the next call gets its own answer
			return fail("getblock:second-call", "the second request (answered with exactly the requested block) returned "+follow+", want "+wantBlock)
		}
	}
	return nil
}

// ---- two caller goroutines -------------------------------------------------------------------

// call of a concurrent scenario: "G<f>" = GetBlock(fixture f), "R" = GetBlockRange(byron..shelley)
type cparams struct {
	calls [2]string
	// gated: the second caller is started by the first block callback of the range (call 0 must be
	// "R"); the server sends StartBatch + first block, waits until the second caller is about to
	// call, and only then sends the rest of the batch
	gated bool
}

func (p cparams) name() string {
	n := "2callers|" + p.calls[0] + " || " + p.calls[1]
	if p.gated {
		n += "|second-call-during-batch"
	}
	return n
}

func concurrent(p cparams) e1lib.Scenario {
	fb, fs := fixtures['b'], fixtures['s']
	reqOf := func(call string) []byte {
		if call == "R" {
			return space.A(space.U(msgRequestRange), pointNode(fb), pointNode(fs)).Encode()
		}
		f := fixtures[call[1]]
		return space.A(space.U(msgRequestRange), pointNode(f), pointNode(f)).Encode()
	}
	answerOf := func(call string) string {
		if call == "R" {
			if p.gated {
				return "SbPsD" // P = pause until the second caller is about to call
			}
			return "SbsD"
		}
		return "S" + call[1:] + "D"
	}
	body := func() {
		a, b := rt.ConnPair("client", "server")
		m := muxer.New(a)
		errs := make(chan error, 10)
		batchDone := make(chan struct{}, 8)
		firstBlock := make(chan struct{}, 8)
		gate := make(chan struct{})
		cfg, err := blockfetch.NewConfig(
			blockfetch.WithBlockFunc(func(_ blockfetch.CallbackContext, typ uint, blk ledger.Block) error {
				rt.Log("cb block %d %s", typ, s2lib.Sum(blk.Cbor()))
				rt.Send("h:firstBlock", firstBlock, struct{}{})
				return nil
			}),
			blockfetch.WithBatchDoneFunc(func(blockfetch.CallbackContext) error {
				rt.Log("cb done")
				rt.Send("h:batchDone", batchDone, struct{}{})
				return nil
			}),
		)
		if err != nil {
			panic(err)
		}
		client := blockfetch.NewClient(protocol.ProtocolOptions{
			ConnectionId: connection.ConnectionId{LocalAddr: a.LocalAddr(), RemoteAddr: a.RemoteAddr()},
			Muxer:        m, ErrorChan: errs, Mode: protocol.ProtocolModeNodeToNode, Role: protocol.ProtocolRoleClient,
		}, &cfg)
		client.Start()
		m.SetDiffusionMode(muxer.DiffusionModeInitiator)
		m.Start()
		connClose := make(chan struct{})
		connClosed := make(chan struct{})
		rt.Go("owner", func() {
			s := rt.NewSel("owner:wait", false)
			rt.SelRecvCase(s, connClose)
			rt.SelRecvCase(s, errs)
			rt.SelRecvCase(s, m.ErrorChan())
			switch s.Choose() {
			case 0:
				rt.Log("conn closed by application")
			case 1:
				rt.Log("conn error protocol: %v", rt.SelVal(s, errs))
			case 2:
				if e, ok := rt.SelVal2(s, m.ErrorChan()); ok {
					rt.Log("conn error muxer: %v", e)
				}
			}
			m.Stop()
			for range rt.Range("owner:muxdrain", m.ErrorChan()) {
			}
			rt.Close("owner:closed", connClosed)
		})
		// the server answers every request conformingly, by its content
		rt.Go("peer", func() {
			s2lib.WireReader(b, nil, func(id uint16, msg []byte) {
				script := ""
				for _, c := range p.calls {
					if bytes.Equal(msg, reqOf(c)) {
						script = answerOf(c)
						rt.Log("wire request %s", c)
						break
					}
				}
				if id != protoBlockFetch || script == "" {
					rt.Log("wire unexpected message: %d %x", id, msg)
					return
				}
				for i := 0; i < len(script); i++ {
					if script[i] == 'P' {
						rt.Recv("peer:gate", gate)
						continue
					}
					b.Write(s2lib.Segment(protoBlockFetch, true, letterBytes(script[i])))
				}
			})
		})
		callDone := make(chan struct{}, 2)
		for ci, call := range p.calls {
			ci, call := ci, call
			rt.Go(fmt.Sprintf("caller%d", ci), func() {
				defer rt.Send("h:callDone", callDone, struct{}{})
				if p.gated && ci == 1 {
					rt.Recv("caller1:firstBlock", firstBlock)
					rt.Close("caller1:gate", gate)
				}
				tag := fmt.Sprintf("c%d", ci)
				if call == "R" {
					if err := client.GetBlockRange(fb.point(), fs.point()); err != nil {
						rt.Log("%s ret err %v", tag, err)
						return
					}
					rt.Log("%s ret ok", tag)
					s := rt.NewSel("caller:batch", false)
					rt.SelRecvCase(s, batchDone)
					rt.SelRecvCase(s, connClosed)
					if s.Choose() == 0 {
						rt.Log("%s completed", tag)
					} else {
						rt.Log("%s aborted by connection shutdown", tag)
					}
					return
				}
				blk, err := client.GetBlock(fixtures[call[1]].point())
				logGetBlock(tag+" ret", blk, err)
			})
		}
		finish(client, 2, callDone, connClose, connClosed)
	}
	check := func(r *rt.Result) []rt.Finding {
		logs := strings.Join(r.Logs, " | ")
		fail := func(key, what string) []rt.Finding {
			return []rt.Finding{{Key: key, What: what + " :: " + logs}}
		}
		var cbs []string
		nDone, doneAt, lastCbAt := 0, -1, -1
		ret := map[string]string{}
		completed, hang, ended := false, false, false
		for i, l := range r.Logs {
			switch {
			case strings.HasPrefix(l, "cb block "):
				cbs = append(cbs, l[len("cb block "):])
				lastCbAt = i
			case l == "cb done":
				nDone++
				doneAt = i
			case strings.HasPrefix(l, "c0 ret "), strings.HasPrefix(l, "c1 ret "):
				ret[l[:2]] = l[7:]
			case strings.HasSuffix(l, " completed"):
				completed = true
			case l == "hang":
				hang = true
			case l == "end":
				ended = true
			case strings.HasPrefix(l, "wire unexpected"):
				return fail("wrong-request-on-the-wire", l)
			case strings.HasPrefix(l, "call returned only after"):
				return fail("hang-until-"+strings.ReplaceAll(strings.TrimPrefix(l, "call returned only after "), " ", "-"), l)
			}
		}
		if hang {
			return fail("hang", "a call never returned (blocked 300 s, 100 s more after the connection was shut down, 100 s more after client.Stop()): "+strings.Join(r.Verdict.Stuck, "; "))
		}
		if r.Verdict.Kind == "panic" {
			return fail("panic:"+strings.SplitN(r.Verdict.Detail, "\n", 2)[0], r.Verdict.Detail)
		}
		// every GetBlock gets the block it asked for (conforming server, nothing closes, no timeout)
		for ci, call := range p.calls {
			tag := fmt.Sprintf("c%d", ci)
			if call == "R" {
				continue
			}
			f := fixtures[call[1]]
			want := fmt.Sprintf("block %s hash %x", f.sum, f.hash)
			if got, ok := ret[tag]; ok && got != want {
				if strings.HasPrefix(got, "block ") {
					return fail("getblock:wrong-block-returned", fmt.Sprintf("%s %s returned %s, want %s", tag, call, got, want))
				}
				return fail("getblock:matching-block-not-returned", fmt.Sprintf("%s %s returned %s, want %s", tag, call, got, want))
			}
		}
		if r.Verdict.Kind != "ok" || !ended {
			return fail("verdict:"+r.Verdict.Kind, r.Verdict.Detail+" "+strings.Join(r.Verdict.Stuck, "; "))
		}
		for ci, call := range p.calls {
			if call != "R" {
				continue
			}
			served := []string{fmt.Sprintf("%d %s", fb.typ, fb.sum), fmt.Sprintf("%d %s", fs.typ, fs.sum)}
			if ret[fmt.Sprintf("c%d", ci)] != "ok" {
				return fail("range:conforming-batch-refused", "GetBlockRange returned "+ret[fmt.Sprintf("c%d", ci)])
			}
			if strings.Join(cbs, ";") != strings.Join(served, ";") || nDone != 1 || !completed || lastCbAt > doneAt {
				return fail("range:blocks-not-delivered", fmt.Sprintf("callbacks %v done=%d completed=%v, served %v", cbs, nDone, completed, served))
			}
		}
		if p.calls[0] != "R" && p.calls[1] != "R" && (len(cbs) > 0 || nDone > 0) {
			return fail("getblock:block-delivered-to-range-callback", fmt.Sprintf("callbacks %v done=%d although no range was requested", cbs, nDone))
		}
		return nil
	}
	return e1lib.Scenario{Name: p.name(), Body: body, Check: check, Cfg: rt.Config{Horizon: 30 * time.Minute}}
}

// ---- two successive requests on one client, callback configuration as a dimension ------------

// sparams: request kinds "R" = GetBlockRange(byron..shelley), "G" = GetBlock(byron). The first request is
// answered with firstScript, every later one conformingly. rawCb: BlockRawFunc instead of BlockFunc;
// noDone: no BatchDoneFunc configured. Without a batch-done callback the application cannot see the end
// of a batch: it simply issues its next request (which has to wait for the batch to end inside the
// client); a range that is the last request is followed by a final GetBlock for the same reason.
type sparams struct {
	first, second string
	firstScript   string
	rawCb, noDone bool
}

func (p sparams) name() string {
	n := fmt.Sprintf("seq|%s[%s]>%s|", p.first, scriptName(p.firstScript), p.second)
	if p.rawCb {
		n += "rawfunc"
	} else {
		n += "blockfunc"
	}
	if p.noDone {
		n += "|no-batchdone-func"
	}
	return n
}

func sequence(p sparams) e1lib.Scenario {
	fb, fs := fixtures['b'], fixtures['s']
	reqOf := func(kind string) []byte {
		if kind == "R" {
			return space.A(space.U(msgRequestRange), pointNode(fb), pointNode(fs)).Encode()
		}
		return space.A(space.U(msgRequestRange), pointNode(fb), pointNode(fb)).Encode()
	}
	kinds := []string{p.first, p.second}
	if p.noDone && p.second == "R" {
		kinds = append(kinds, "G") // the final request that tells the application the last batch is over
	}
	scripts := []string{p.firstScript}
	for _, k := range kinds[1:] {
		if k == "R" {
			scripts = append(scripts, "SbsD")
		} else {
			scripts = append(scripts, "SbD")
		}
	}
	body := func() {
		a, b := rt.ConnPair("client", "server")
		m := muxer.New(a)
		errs := make(chan error, 10)
		batchDone := make(chan struct{}, 8)
		var opts []blockfetch.BlockFetchOptionFunc
		if p.rawCb {
			opts = append(opts, blockfetch.WithBlockRawFunc(func(_ blockfetch.CallbackContext, typ uint, raw []byte) error {
				rt.Log("cb block %d %s", typ, s2lib.Sum(raw))
				return nil
			}))
		} else {
			opts = append(opts, blockfetch.WithBlockFunc(func(_ blockfetch.CallbackContext, typ uint, blk ledger.Block) error {
				rt.Log("cb block %d %s", typ, s2lib.Sum(blk.Cbor()))
				return nil
			}))
		}
		if !p.noDone {
			opts = append(opts, blockfetch.WithBatchDoneFunc(func(blockfetch.CallbackContext) error {
				rt.Log("cb done")
				rt.Send("h:batchDone", batchDone, struct{}{})
				return nil
			}))
		}
		cfg, err := blockfetch.NewConfig(opts...)
		if err != nil {
			panic(err)
		}
		client := blockfetch.NewClient(protocol.ProtocolOptions{
			ConnectionId: connection.ConnectionId{LocalAddr: a.LocalAddr(), RemoteAddr: a.RemoteAddr()},
			Muxer:        m, ErrorChan: errs, Mode: protocol.ProtocolModeNodeToNode, Role: protocol.ProtocolRoleClient,
		}, &cfg)
		client.Start()
		m.SetDiffusionMode(muxer.DiffusionModeInitiator)
		m.Start()
		connClose := make(chan struct{})
		connClosed := make(chan struct{})
		rt.Go("owner", func() {
			s := rt.NewSel("owner:wait", false)
			rt.SelRecvCase(s, connClose)
			rt.SelRecvCase(s, errs)
			rt.SelRecvCase(s, m.ErrorChan())
			switch s.Choose() {
			case 0:
				rt.Log("conn closed by application")
			case 1:
				rt.Log("conn error protocol: %v", rt.SelVal(s, errs))
			case 2:
				if e, ok := rt.SelVal2(s, m.ErrorChan()); ok {
					rt.Log("conn error muxer: %v", e)
				}
			}
			m.Stop()
			for range rt.Range("owner:muxdrain", m.ErrorChan()) {
			}
			rt.Close("owner:closed", connClosed)
		})
		rt.Go("peer", func() {
			nreq := 0
			s2lib.WireReader(b, nil, func(id uint16, msg []byte) {
				if id != protoBlockFetch || nreq >= len(kinds) || !bytes.Equal(msg, reqOf(kinds[nreq])) {
					rt.Log("wire unexpected message %d: %d %x", nreq+1, id, msg)
					return
				}
				script := scripts[nreq]
				nreq++
				rt.Log("wire request %d ok", nreq)
				for i := 0; i < len(script); i++ {
					b.Write(s2lib.Segment(protoBlockFetch, true, letterBytes(script[i])))
				}
			})
		})
		callDone := make(chan struct{}, 2)
		rt.Go("caller", func() {
			defer rt.Send("h:callDone", callDone, struct{}{})
			for i, kind := range kinds {
				tag := fmt.Sprintf("q%d", i+1)
				if kind == "G" {
					blk, err := client.GetBlock(fb.point())
					logGetBlock(tag+" ret", blk, err)
					continue
				}
				if err := client.GetBlockRange(fb.point(), fs.point()); err != nil {
					rt.Log("%s ret err %v", tag, err)
					continue
				}
				rt.Log("%s ret ok", tag)
				if !p.noDone {
					s := rt.NewSel("caller:batch", false)
					rt.SelRecvCase(s, batchDone)
					rt.SelRecvCase(s, connClosed)
					if s.Choose() == 0 {
						rt.Log("%s completed", tag)
					} else {
						rt.Log("%s aborted by connection shutdown", tag)
					}
				}
			}
		})
		finish(client, 1, callDone, connClose, connClosed)
	}
	check := func(r *rt.Result) []rt.Finding {
		logs := strings.Join(r.Logs, " | ")
		fail := func(key, what string) []rt.Finding {
			return []rt.Finding{{Key: key, What: what + " :: " + logs}}
		}
		var cbs []string
		nDone := 0
		ret := map[string]string{}
		completed := map[string]bool{}
		hang, ended := false, false
		for _, l := range r.Logs {
			switch {
			case strings.HasPrefix(l, "cb block "):
				cbs = append(cbs, l[len("cb block "):])
			case l == "cb done":
				nDone++
			case len(l) > 7 && l[0] == 'q' && l[2:7] == " ret ":
				ret[l[:2]] = l[7:]
			case len(l) > 3 && l[0] == 'q' && strings.HasSuffix(l, " completed"):
				completed[l[:2]] = true
			case l == "hang":
				hang = true
			case l == "end":
				ended = true
			case strings.HasPrefix(l, "wire unexpected"):
				return fail("wrong-request-on-the-wire", l)
			case strings.HasPrefix(l, "call returned only after"):
				return fail("hang-until-"+strings.ReplaceAll(strings.TrimPrefix(l, "call returned only after "), " ", "-"), l)
			}
		}
		if hang {
			return fail("hang", fmt.Sprintf("request %d of the sequence never returned (blocked 300 s, 100 s more after the connection was shut down, 100 s more after client.Stop()): %s", len(ret)+1, strings.Join(r.Verdict.Stuck, "; ")))
		}
		if r.Verdict.Kind == "panic" {
			return fail("panic:"+strings.SplitN(r.Verdict.Detail, "\n", 2)[0], r.Verdict.Detail)
		}
		if r.Verdict.Kind != "ok" || !ended {
			return fail("verdict:"+r.Verdict.Kind, r.Verdict.Detail+" "+strings.Join(r.Verdict.Stuck, "; "))
		}
		// reference: every batch here is complete and nothing closes, so everything is determined
		wantBlock := fmt.Sprintf("block %s hash %x", fb.sum, fb.hash)
		var wantCbs []string
		wantDone := 0
		for i, kind := range kinds {
			tag := fmt.Sprintf("q%d", i+1)
			script := scripts[i]
			if kind == "R" {
				want := "ok"
				if script == "N" {
					want = "err"
				}
				if got := ret[tag]; got != want && !(want == "err" && strings.HasPrefix(got, "err ")) {
					return fail("range:wrong-result", fmt.Sprintf("request %d (GetBlockRange, batch %s) returned %q, want %s", i+1, scriptName(script), got, want))
				}
				for k := 0; k < len(script); k++ {
					if f, ok := fixtures[script[k]]; ok {
						wantCbs = append(wantCbs, fmt.Sprintf("%d %s", f.typ, f.sum))
					}
				}
				if script != "N" && !p.noDone {
					wantDone++
					if !completed[tag] {
						return fail("range:not-completed", fmt.Sprintf("request %d: batch-done callback did not run", i+1))
					}
				}
				continue
			}
			got := ret[tag]
			if script == "SbD" {
				if got != wantBlock {
					return fail("getblock:matching-block-not-returned", fmt.Sprintf("request %d (GetBlock, conforming batch) returned %q", i+1, got))
				}
			} else if !strings.HasPrefix(got, "err ") {
				return fail("getblock:non-conforming-batch-accepted", fmt.Sprintf("request %d (GetBlock, batch %s) returned %q", i+1, scriptName(script), got))
			}
		}
		if strings.Join(cbs, ";") != strings.Join(wantCbs, ";") {
			return fail("range:blocks-not-delivered", fmt.Sprintf("block callbacks %v, served to range requests %v", cbs, wantCbs))
		}
		if nDone != wantDone {
			return fail("range:batch-done-count", fmt.Sprintf("batch-done callback ran %d times, want %d", nDone, wantDone))
		}
		return nil
	}
	return e1lib.Scenario{Name: p.name(), Body: body, Check: check, Cfg: rt.Config{Horizon: 30 * time.Minute}}
}

func TestC23(t *testing.T) {
	e1lib.Main(t, "C23", func(thorough bool) []e1lib.Scenario {
		var ps []params
		// the six batch shapes of the design x both APIs, requested block = byron fixture
		for _, api := range []string{"GetBlock", "GetBlockRange"} {
			for _, sc := range []string{"N", "SD", "SbD", "SsD", "SbsD", "SX"} {
				ps = append(ps, params{api: api, req: 'b', script: sc})
			}
		}
		// data rotation: the shelley fixture requested
		for _, sc := range []string{"SsD", "SbD", "SssD"} {
			ps = append(ps, params{api: "GetBlock", req: 's', script: sc})
		}
		ps = append(ps,
			params{api: "GetBlockRange", req: 's', script: "SsbD"},
			// completion: a request issued when the batch is over is served
			params{api: "GetBlockRange", req: 'b', script: "SbsD", follow: true},
			params{api: "GetBlock", req: 'b', script: "SbD", follow: true},
			// the whole batch in one segment
			params{api: "GetBlock", req: 'b', script: "SbD", packed: true},
			params{api: "GetBlockRange", req: 'b', script: "SbsD", packed: true},
		)
		// the calling goroutine is slow (descheduled while the receive loop works through the batch)
		ps = append(ps,
			params{api: "GetBlock", req: 'b', script: "SbsD", slow: true},
			params{api: "GetBlock", req: 'b', script: "SbD", slow: true},
			params{api: "GetBlock", req: 'b', script: "SbsD", follow: true, slow: true},
			params{api: "GetBlock", req: 'b', script: "SsD", follow: true},
		)
		if thorough {
			ps = append(ps,
				params{api: "GetBlock", req: 'b', script: "SD", slow: true},
				params{api: "GetBlock", req: 'b', script: "SD", follow: true},
				params{api: "GetBlock", req: 'b', script: "SbbD", follow: true, slow: true},
				params{api: "GetBlockRange", req: 'b', script: "SbsD", slow: true},
				params{api: "GetBlock", req: 'b', script: "SbX"},
				params{api: "GetBlock", req: 'b', script: "SbbD"},
				params{api: "GetBlock", req: 'b', script: "SgD"},
				params{api: "GetBlock", req: 'b', script: "S"},
				params{api: "GetBlock", req: 'b', script: ""},
				params{api: "GetBlock", req: 'b', script: "SsD", packed: true},
				params{api: "GetBlock", req: 'b', script: "SbD", frag: true},
				params{api: "GetBlockRange", req: 'b', script: "SbX"},
				params{api: "GetBlockRange", req: 'b', script: "SbgD"},
				params{api: "GetBlockRange", req: 'b', script: "Sb"},
				params{api: "GetBlockRange", req: 'b', script: "SbbbD"},
				params{api: "GetBlockRange", req: 'b', script: "SD", follow: true},
				params{api: "GetBlockRange", req: 'b', script: "SbsD", frag: true},
			)
		}
		var scs []e1lib.Scenario
		for i, p := range ps {
			s := scenario(p)
			// quick: the 12 design scenarios (6 batch shapes x 2 APIs) with <=2 deviations, the rest <=1.
			// Budgets are ceilings for a heavily loaded machine: an unloaded run needs ~1 s per
			// scenario for bound 1 and 10-30 s for bound 2.
			s.MinB, s.MaxB, s.Budget = 1, 1, 60*time.Second
			if i < 12 {
				s.MaxB = 2
			}
			if thorough {
				s.MinB, s.MaxB, s.Budget = 2, 2, 15*time.Minute
			}
			scs = append(scs, s)
		}
		// two caller goroutines on one client: a GetBlock issued while a range batch is streaming,
		// the same without the pause, and two GetBlock calls racing
		for _, cp := range []cparams{
			{calls: [2]string{"R", "Gb"}, gated: true},
			{calls: [2]string{"R", "Gs"}, gated: true},
			{calls: [2]string{"R", "Gb"}},
			{calls: [2]string{"Gb", "R"}},
			{calls: [2]string{"Gb", "Gs"}},
		} {
			s := concurrent(cp)
			s.MinB, s.MaxB, s.Budget = 1, 1, 60*time.Second
			if thorough {
				s.MinB, s.MaxB, s.Budget = 2, 2, 15*time.Minute
			}
			scs = append(scs, s)
		}
		// two successive requests on one client x callback configuration {BlockFunc, BlockRawFunc} x
		// {BatchDoneFunc set, nil}; then sequences whose first request fails or is empty
		var sps []sparams
		for _, sq := range [][2]string{{"R", "R"}, {"R", "G"}, {"G", "R"}} {
			for _, raw := range []bool{false, true} {
				for _, noDone := range []bool{false, true} {
					fsx := "SbsD"
					if sq[0] == "G" {
						fsx = "SbD"
					}
					sps = append(sps, sparams{first: sq[0], second: sq[1], firstScript: fsx, rawCb: raw, noDone: noDone})
				}
			}
		}
		sps = append(sps,
			sparams{first: "R", second: "R", firstScript: "N"},
			sparams{first: "R", second: "G", firstScript: "N", noDone: true},
			sparams{first: "R", second: "R", firstScript: "SD", noDone: true},
			sparams{first: "G", second: "R", firstScript: "N"},
			sparams{first: "G", second: "R", firstScript: "SsD", noDone: true},
			sparams{first: "G", second: "R", firstScript: "SbsD", rawCb: true},
		)
		if thorough {
			sps = append(sps,
				sparams{first: "R", second: "G", firstScript: "SD", rawCb: true, noDone: true},
				sparams{first: "R", second: "R", firstScript: "SsD", rawCb: true},
				sparams{first: "G", second: "R", firstScript: "SD"},
				sparams{first: "G", second: "G", firstScript: "SsD"},
			)
		}
		for _, sp := range sps {
			s := sequence(sp)
			s.MinB, s.MaxB, s.Budget = 1, 1, 60*time.Second
			if thorough {
				s.MinB, s.MaxB, s.Budget = 2, 2, 15*time.Minute
			}
			scs = append(scs, s)
		}
		if thorough {
			// four conforming / closing scenarios once more, as far into bound 3 as 4 minutes allow
			// (nothing is claimed for them beyond what the bound-2 scenarios above claim)
			for _, p := range []params{
				{api: "GetBlock", req: 'b', script: "SbD"}, {api: "GetBlock", req: 'b', script: "SX"},
				{api: "GetBlockRange", req: 'b', script: "SbsD"}, {api: "GetBlockRange", req: 'b', script: "SX"},
			} {
				s := scenario(p)
				s.Name += "|deep"
				s.MinB, s.MaxB, s.Budget = 0, 3, 4*time.Minute
				scs = append(scs, s)
			}
		}
		if v := os.Getenv("C23_MAXB"); v != "" {
			// debugging aid (used with VERIF_ONLY): override the deviation bound
			var b int
			fmt.Sscan(v, &b)
			for i := range scs {
				scs[i].MaxB, scs[i].Budget = b, 30*time.Minute
			}
		}
		return scs
	})
}
