// C10: messages survive segmentation and reassembly unchanged.
// Two real endpoints (muxer + protocol.Protocol each) joined by a scheduler-owned
// connection; or a raw peer that cuts the byte stream into segments at chosen places.
package c10

import (
	"fmt"
	"strings"
	"testing"
	"time"

	"github.com/blinklabs-io/gouroboros/protocol"
	rt "github.com/blinklabs-io/gouroboros/verifrt"
	"verif/e1/e1lib"
	"verif/e1/s2lib"
)

var stS = protocol.NewState(1, "S")

func stateMap() protocol.StateMap {
	return protocol.StateMap{
		stS: protocol.StateMapEntry{
			Agency: protocol.AgencyClient,
			Transitions: []protocol.StateTransition{
				{MsgType: 0, NewState: stS},
				{MsgType: 1, NewState: stS},
			},
		},
	}
}

func fromCbor(t uint, b []byte) (protocol.Message, error) {
	if t > 1 {
		return nil, nil
	}
	return &s2lib.RawMsg{T: uint8(t), B: append([]byte(nil), b...)}, nil
}

func cfg(role protocol.ProtocolRole, handler protocol.MessageHandlerFunc) protocol.ProtocolConfig {
	return protocol.ProtocolConfig{
		Name: "c10", ProtocolId: 7, Mode: protocol.ProtocolModeNodeToNode, Role: role,
		MessageHandlerFunc: handler, MessageFromCborFunc: fromCbor, StateMap: stateMap(), InitialState: stS,
	}
}

func checkSeq(want []string) func(r *rt.Result) []rt.Finding {
	return func(r *rt.Result) []rt.Finding {
		if r.Verdict.Kind != "ok" {
			return []rt.Finding{{Key: "verdict:" + r.Verdict.Kind, What: r.Verdict.Detail + " " + strings.Join(r.Verdict.Stuck, "; ")}}
		}
		var got []string
		for _, l := range r.Logs {
			if strings.HasPrefix(l, "recv ") {
				got = append(got, l[5:])
			} else if strings.HasPrefix(l, "error ") {
				return []rt.Finding{{Key: "c10:unexpected-error", What: l}}
			}
		}
		if len(got) != len(want) {
			return []rt.Finding{{Key: "c10:count", What: fmt.Sprintf("received %d messages, want %d: %v", len(got), len(want), got)}}
		}
		for i := range want {
			if got[i] != want[i] {
				return []rt.Finding{{Key: "c10:bytes-or-order", What: fmt.Sprintf("message %d: got %s want %s", i, got[i], want[i])}}
			}
		}
		return nil
	}
}

// twoEndpoints: a real sender endpoint queues the messages, a real receiver endpoint hands them to its handler.
func twoEndpoints(name string, sizes []int, wait bool, frag bool) e1lib.Scenario {
	var msgs []*s2lib.RawMsg
	var want []string
	for i, n := range sizes {
		m := s2lib.SizedMsg(uint8(i%2), n, byte(i+1))
		msgs = append(msgs, m)
		want = append(want, s2lib.Sum(m.B))
	}
	body := func() {
		a, b := rt.ConnPair("A", "B")
		a.Frag, b.Frag = frag, frag
		got := make(chan struct{}, len(msgs))
		snd := s2lib.NewEndpoint(a, cfg(protocol.ProtocolRoleClient, func(protocol.Message) error { return nil }))
		rcv := s2lib.NewEndpoint(b, cfg(protocol.ProtocolRoleServer, func(m protocol.Message) error {
			rt.Log("recv %s", s2lib.Sum(m.Cbor()))
			rt.Send("h:got", got, struct{}{})
			return nil
		}))
		snd.Start()
		rcv.Start()
		for _, m := range msgs {
			mm := &s2lib.RawMsg{T: m.T, B: m.B}
			var err error
			if wait {
				err = snd.Proto.SendMessageAndWait(mm)
			} else {
				err = snd.Proto.SendMessage(mm)
			}
			if err != nil {
				rt.Log("error send: %v", err)
			}
		}
		for range msgs {
			s := rt.NewSel("h:wait", false)
			rt.SelRecvCase(s, got)
			rt.SelRecvCase(s, snd.Errs)
			rt.SelRecvCase(s, rcv.Errs)
			switch s.Choose() {
			case 1:
				rt.Log("error sender: %v", rt.SelVal(s, snd.Errs))
			case 2:
				rt.Log("error receiver: %v", rt.SelVal(s, rcv.Errs))
			}
		}
		snd.Shutdown()
		rcv.Shutdown()
	}
	return e1lib.Scenario{Name: name, Body: body, Check: checkSeq(want), Cfg: rt.Config{Horizon: time.Hour}}
}

// rawPeer: the peer writes the concatenated encodings cut into segments of the given sizes
// (the last size repeats), the real receiver must hand over the same messages.
func rawPeer(name string, sizes []int, cuts []int, frag bool) e1lib.Scenario {
	var stream []byte
	var want []string
	for i, n := range sizes {
		m := s2lib.SizedMsg(uint8(i%2), n, byte(i+1))
		stream = append(stream, m.B...)
		want = append(want, s2lib.Sum(m.B))
	}
	var wire []byte
	rest := stream
	for k := 0; len(rest) > 0; k++ {
		c := cuts[len(cuts)-1]
		if k < len(cuts) {
			c = cuts[k]
		}
		if c > len(rest) {
			c = len(rest)
		}
		if c > 65535 {
			c = 65535
		}
		wire = append(wire, s2lib.Segment(7, false, rest[:c])...)
		rest = rest[c:]
	}
	body := func() {
		a, b := rt.ConnPair("A", "B")
		b.Frag = frag
		got := make(chan struct{}, len(sizes))
		rcv := s2lib.NewEndpoint(b, cfg(protocol.ProtocolRoleServer, func(m protocol.Message) error {
			rt.Log("recv %s", s2lib.Sum(m.Cbor()))
			rt.Send("h:got", got, struct{}{})
			return nil
		}))
		rcv.Start()
		rt.Go("peer", func() { a.Write(wire) })
		for range sizes {
			s := rt.NewSel("h:wait", false)
			rt.SelRecvCase(s, got)
			rt.SelRecvCase(s, rcv.Errs)
			if s.Choose() == 1 {
				rt.Log("error receiver: %v", rt.SelVal(s, rcv.Errs))
			}
		}
		rcv.Shutdown()
	}
	return e1lib.Scenario{Name: name, Body: body, Check: checkSeq(want), Cfg: rt.Config{Horizon: time.Hour}}
}

func seqs(alpha []int, maxLen int) [][]int {
	var out [][]int
	var rec func(cur []int)
	rec = func(cur []int) {
		if len(cur) > 0 {
			out = append(out, append([]int(nil), cur...))
		}
		if len(cur) == maxLen {
			return
		}
		for _, a := range alpha {
			rec(append(cur, a))
		}
	}
	rec(nil)
	return out
}

func name(p string, s []int) string {
	parts := make([]string, len(s))
	for i, v := range s {
		parts[i] = fmt.Sprint(v)
	}
	return p + strings.Join(parts, ",")
}

func TestC10(t *testing.T) {
	e1lib.Main(t, "C10", func(thorough bool) []e1lib.Scenario {
		var scs []e1lib.Scenario
		small := []int{2, 23, 300}
		big := []int{65534, 65535, 65536, 65537, 131070, 200000}
		maxLen := 2
		if thorough {
			maxLen = 3
		}
		// small messages: packing of several messages into one segment, all sequences
		for _, s := range seqs(small, maxLen+1) {
			scs = append(scs, twoEndpoints(name("pack:", s), s, false, true))
		}
		for _, s := range seqs(small, 2) {
			scs = append(scs, twoEndpoints(name("wait:", s), s, true, true))
		}
		// large messages crossing the 65535 boundary, alone and next to a small one
		for _, b := range big {
			scs = append(scs, twoEndpoints(name("big:", []int{b}), []int{b}, false, false))
			scs = append(scs, twoEndpoints(name("big:", []int{2, b}), []int{2, b}, false, false))
			scs = append(scs, twoEndpoints(name("big:", []int{b, 23}), []int{b, 23}, false, false))
			if thorough {
				scs = append(scs, twoEndpoints(name("big:", []int{b, b}), []int{b, b}, false, false))
				scs = append(scs, twoEndpoints(name("bigwait:", []int{b, 23}), []int{b, 23}, true, false))
			}
		}
		// more than maxMessagesPerSegment (20) tiny messages in one burst
		many := make([]int, 23)
		for i := range many {
			many[i] = 2 + i%3
		}
		scs = append(scs, twoEndpoints("pack:23-tiny", many, false, false))
		// raw peer: every cut position of a short stream, and chosen cuts around message boundaries
		for _, s := range [][]int{{2, 23}, {23, 2, 5}} {
			total := 0
			for _, v := range s {
				total += v
			}
			for c := 1; c <= total; c++ {
				scs = append(scs, rawPeer(fmt.Sprintf("%s/cut%d", name("raw:", s), c), s, []int{c, total}, true))
			}
			scs = append(scs, rawPeer(name("raw1:", s), s, []int{1}, false))
		}
		for _, b := range []int{65535, 65536, 131070} {
			scs = append(scs, rawPeer(name("raw:", []int{b, 23}), []int{b, 23}, []int{65535}, false))
			scs = append(scs, rawPeer(name("rawm1:", []int{b, 23}), []int{b, 23}, []int{b - 1, 2, 65535}, false))
			scs = append(scs, rawPeer(name("rawp1:", []int{b, 23}), []int{b, 23}, []int{65535, 65535, 65535}, false))
		}
		for i := range scs {
			scs[i].MinB, scs[i].MaxB, scs[i].Budget = 1, 1, 25*time.Second
			if thorough {
				scs[i].MinB, scs[i].MaxB, scs[i].Budget = 1, 2, 40*time.Second
			}
		}
		return scs
	})
}
