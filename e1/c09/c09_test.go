// C09: the muxer delivers each byte stream intact to the right endpoint.
// Seam S1: the real (instrumented) muxer.Muxer on one end of a scheduler-owned
// connection; the peer is harness code reading/writing raw bytes on the other end.
package c09

import (
	"bytes"
	"encoding/binary"
	"fmt"
	"io"
	"sort"
	"strings"
	"testing"
	"time"

	"github.com/blinklabs-io/gouroboros/muxer"
	rt "github.com/blinklabs-io/gouroboros/verifrt"
	"verif/e1/e1lib"
)

func rawSegment(proto uint16, response bool, payload []byte) []byte {
	var b bytes.Buffer
	id := proto
	if response {
		id |= 0x8000
	}
	binary.Write(&b, binary.BigEndian, uint32(7))
	binary.Write(&b, binary.BigEndian, id)
	binary.Write(&b, binary.BigEndian, uint16(len(payload)))
	b.Write(payload)
	return b.Bytes()
}

func payload(tag byte, n int) []byte {
	p := make([]byte, n)
	for i := range p {
		p[i] = tag + byte(i%7)
	}
	return p
}

type sendSpec struct {
	proto uint16
	role  muxer.ProtocolRole
	lens  []int
}

// sendScenario: concurrent senders on distinct protocols; the peer reads the wire.
func sendScenario(name string, specs []sendSpec, frag bool) e1lib.Scenario {
	total := 0
	for _, s := range specs {
		for _, l := range s.lens {
			if l <= 65535 {
				total += 8 + l
			}
		}
	}
	body := func() {
		a, b := rt.ConnPair("mux", "peer")
		a.Frag = frag
		m := muxer.New(a)
		done := make(chan struct{}, len(specs))
		for si, s := range specs {
			sendCh, _, _ := m.RegisterProtocol(s.proto, s.role)
			tag := byte('A' + si*16)
			rt.Go(fmt.Sprintf("sender%d", si), func() {
				for k, l := range s.lens {
					seg := muxer.NewSegment(s.proto, payload(tag+byte(k), l), s.role == muxer.ProtocolRoleResponder)
					if seg == nil {
						rt.Log("NewSegment refused len=%d", l)
						continue
					}
					rt.Send("harness:send", sendCh, seg)
				}
				rt.Send("harness:done", done, struct{}{})
			})
		}
		// peer: read exactly the expected number of bytes
		buf := make([]byte, total)
		if _, err := io.ReadFull(b, buf); err != nil {
			rt.Log("peer read error: %v", err)
		}
		for range specs {
			rt.Recv("harness:join", done)
		}
		rt.Log("wire %x", buf)
		m.Stop()
		for err := range rt.Range("harness:errs", m.ErrorChan()) {
			rt.Log("muxer error: %v", err)
		}
	}
	check := func(r *rt.Result) []rt.Finding {
		if r.Verdict.Kind != "ok" {
			return []rt.Finding{{Key: "verdict:" + r.Verdict.Kind, What: r.Verdict.Detail + " " + strings.Join(r.Verdict.Stuck, "; ")}}
		}
		var wire []byte
		for _, l := range r.Logs {
			if strings.HasPrefix(l, "wire ") {
				fmt.Sscanf(l[5:], "%x", &wire)
			} else if strings.HasPrefix(l, "peer read error") || strings.HasPrefix(l, "muxer error") {
				return []rt.Finding{{Key: "send:unexpected-error", What: l}}
			}
		}
		// parse the wire into segments
		got := map[uint16][][]byte{}
		for len(wire) > 0 {
			if len(wire) < 8 {
				return []rt.Finding{{Key: "send:torn-header", What: fmt.Sprintf("%d trailing bytes", len(wire))}}
			}
			id := binary.BigEndian.Uint16(wire[4:])
			n := int(binary.BigEndian.Uint16(wire[6:]))
			if len(wire) < 8+n {
				return []rt.Finding{{Key: "send:torn-payload", What: "payload shorter than its header says"}}
			}
			got[id] = append(got[id], append([]byte(nil), wire[8:8+n]...))
			wire = wire[8+n:]
		}
		for si, s := range specs {
			id := s.proto
			if s.role == muxer.ProtocolRoleResponder {
				id |= 0x8000
			}
			var want [][]byte
			for k, l := range s.lens {
				if l <= 65535 {
					want = append(want, payload(byte('A'+si*16)+byte(k), l))
				}
			}
			if len(got[id]) != len(want) {
				return []rt.Finding{{Key: "send:segment-count", What: fmt.Sprintf("protocol %#x: %d segments on the wire, want %d", id, len(got[id]), len(want))}}
			}
			for k := range want {
				if !bytes.Equal(got[id][k], want[k]) {
					return []rt.Finding{{Key: "send:payload-or-order", What: fmt.Sprintf("protocol %#x segment %d differs (interleaved or reordered)", id, k)}}
				}
			}
		}
		return nil
	}
	return e1lib.Scenario{Name: name, Body: body, Check: check, Cfg: rt.Config{Horizon: time.Hour}}
}

type wireSeg struct {
	proto    uint16
	response bool
	payload  []byte
}

// recvScenario: the peer writes a script of raw segments, then closes.
func recvScenario(name string, regs []sendSpec, script []wireSeg, wantErr string, frag bool, closeAfter bool) e1lib.Scenario {
	body := func() {
		a, b := rt.ConnPair("mux", "peer")
		a.Frag = frag
		m := muxer.New(a)
		done := make(chan struct{}, len(regs))
		for _, s := range regs {
			_, recvCh, _ := m.RegisterProtocol(s.proto, s.role)
			rt.Go(fmt.Sprintf("consumer-%d-%d", s.proto, s.role), func() {
				for seg := range rt.Range("harness:consume", (<-chan *muxer.Segment)(recvCh)) {
					rt.Log("deliver proto=%d role=%d resp=%v payload=%x", s.proto, s.role, seg.IsResponse(), seg.Payload)
				}
				rt.Send("harness:cdone", done, struct{}{})
			})
		}
		m.Start()
		rt.Go("peer", func() {
			for _, ws := range script {
				if _, err := b.Write(rawSegment(ws.proto, ws.response, ws.payload)); err != nil {
					return
				}
			}
			if closeAfter {
				b.Close()
			}
		})
		for err := range rt.Range("harness:errs", m.ErrorChan()) {
			rt.Log("muxer error: %v", err)
		}
		for range regs {
			rt.Recv("harness:join", done)
		}
		rt.Log("muxer finished")
	}
	check := func(r *rt.Result) []rt.Finding {
		if r.Verdict.Kind != "ok" {
			return []rt.Finding{{Key: "verdict:" + r.Verdict.Kind, What: r.Verdict.Detail + " " + strings.Join(r.Verdict.Stuck, "; ")}}
		}
		// expected deliveries: script segments up to the first offending one, routed by
		// protocol number and direction (response bit -> our initiator side)
		type key struct {
			p uint16
			r muxer.ProtocolRole
		}
		registered := map[key]bool{}
		for _, s := range regs {
			registered[key{s.proto, s.role}] = true
		}
		want := map[key][]string{}
		for _, ws := range script {
			role := muxer.ProtocolRoleResponder
			if ws.response {
				role = muxer.ProtocolRoleInitiator
			}
			if len(ws.payload) == 0 || !registered[key{ws.proto, role}] {
				break
			}
			want[key{ws.proto, role}] = append(want[key{ws.proto, role}], fmt.Sprintf("%x", ws.payload))
		}
		got := map[key][]string{}
		sawErr := ""
		finished := false
		for _, l := range r.Logs {
			var p uint16
			var ro int
			var resp bool
			var pl string
			if n, _ := fmt.Sscanf(l, "deliver proto=%d role=%d resp=%t payload=%s", &p, &ro, &resp, &pl); n >= 3 {
				got[key{p, muxer.ProtocolRole(ro)}] = append(got[key{p, muxer.ProtocolRole(ro)}], pl)
				if (muxer.ProtocolRole(ro) == muxer.ProtocolRoleInitiator) != resp {
					return []rt.Finding{{Key: "recv:wrong-direction", What: l}}
				}
			} else if strings.HasPrefix(l, "muxer error: ") {
				sawErr += l[13:] + ";"
			} else if l == "muxer finished" {
				finished = true
			}
		}
		if !finished {
			return []rt.Finding{{Key: "recv:not-finished", What: "muxer did not shut down"}}
		}
		wantKeys := make([]key, 0, len(want))
		for k := range want {
			wantKeys = append(wantKeys, k)
		}
		sort.Slice(wantKeys, func(i, j int) bool {
			if wantKeys[i].p != wantKeys[j].p {
				return wantKeys[i].p < wantKeys[j].p
			}
			return wantKeys[i].r < wantKeys[j].r
		})
		for _, k := range wantKeys {
			w := want[k]
			g := got[k]
			// a prefix may be missing only if the muxer stopped because of the offending segment
			// before the consumer drained its channel? No: deliveries queued before the error must
			// still arrive in order; we require got to be a prefix-closed, in-order subsequence = prefix.
			if len(g) > len(w) {
				return []rt.Finding{{Key: "recv:extra-delivery", What: fmt.Sprintf("%v got %v want %v", k, g, w)}}
			}
			for i := range g {
				if g[i] != w[i] {
					return []rt.Finding{{Key: "recv:payload-or-order", What: fmt.Sprintf("%v got %v want %v", k, g, w)}}
				}
			}
			if len(g) < len(w) && wantErr == "" {
				return []rt.Finding{{Key: "recv:lost-segment", What: fmt.Sprintf("%v got %v want %v", k, g, w)}}
			}
		}
		gotKeys := make([]key, 0, len(got))
		for k := range got {
			gotKeys = append(gotKeys, k)
		}
		sort.Slice(gotKeys, func(i, j int) bool {
			if gotKeys[i].p != gotKeys[j].p {
				return gotKeys[i].p < gotKeys[j].p
			}
			return gotKeys[i].r < gotKeys[j].r
		})
		for _, k := range gotKeys {
			g := got[k]
			if len(g) > 0 && len(want[k]) == 0 {
				return []rt.Finding{{Key: "recv:misrouted", What: fmt.Sprintf("%v received %v", k, g)}}
			}
		}
		if wantErr != "" && !strings.Contains(sawErr, wantErr) {
			return []rt.Finding{{Key: "recv:missing-error", What: fmt.Sprintf("want error containing %q, got %q", wantErr, sawErr)}}
		}
		return nil
	}
	return e1lib.Scenario{Name: name, Body: body, Check: check, Cfg: rt.Config{Horizon: time.Hour}}
}

// unregScenario: both roles of protocol 2 are registered; the owner unregisters ONE of them (which)
// after the first segment for it was delivered; the segments that follow for the OTHER role must still be
// delivered to it (and only to it), and a later segment for the unregistered role closes the
// connection with the unknown-protocol error ("delivered only to the receiver registered for that
// protocol number and direction").
func unregScenario(name string, which muxer.ProtocolRole, frag bool) e1lib.Scenario {
	I, R := muxer.ProtocolRoleInitiator, muxer.ProtocolRoleResponder
	other := R
	if which == R {
		other = I
	}
	body := func() {
		a, b := rt.ConnPair("mux", "peer")
		a.Frag = frag
		m := muxer.New(a)
		done := make(chan struct{}, 2)
		first := make(chan struct{}, 4)
		for _, role := range []muxer.ProtocolRole{I, R} {
			_, recvCh, _ := m.RegisterProtocol(2, role)
			rt.Go(fmt.Sprintf("consumer-2-%d", role), func() {
				for seg := range rt.Range("harness:consume", (<-chan *muxer.Segment)(recvCh)) {
					rt.Log("deliver role=%d resp=%v payload=%s", role, seg.IsResponse(), seg.Payload)
					if role == which {
						rt.Send("harness:first", first, struct{}{})
					}
				}
				rt.Send("harness:cdone", done, struct{}{})
			})
		}
		m.Start()
		gate := make(chan struct{})
		rt.Go("peer", func() {
			// one segment for the role that is about to be unregistered
			if _, err := b.Write(rawSegment(2, which == I, []byte("w1"))); err != nil {
				return
			}
			rt.Recv("harness:gate", gate)
			// two for the role that stays, then one for the role that is gone
			for _, ws := range []wireSeg{{2, other == I, []byte("o1")}, {2, other == I, []byte("o2")}, {2, which == I, []byte("w2")}} {
				if _, err := b.Write(rawSegment(ws.proto, ws.response, ws.payload)); err != nil {
					return
				}
			}
		})
		rt.Go("owner", func() {
			rt.Recv("harness:first", first)
			m.UnregisterProtocol(2, which)
			rt.Log("unregistered")
			rt.Close("harness:gate", gate)
		})
		for err := range rt.Range("harness:errs", m.ErrorChan()) {
			rt.Log("muxer error: %v", err)
		}
		rt.Recv("harness:join", done)
		rt.Recv("harness:join", done)
		rt.Log("muxer finished")
	}
	check := func(r *rt.Result) []rt.Finding {
		if r.Verdict.Kind != "ok" {
			return []rt.Finding{{Key: "verdict:" + r.Verdict.Kind, What: r.Verdict.Detail + " " + strings.Join(r.Verdict.Stuck, "; ")}}
		}
		var gotOther, gotWhich []string
		errs := ""
		for _, l := range r.Logs {
			var ro int
			var resp bool
			var pl string
			if n, _ := fmt.Sscanf(l, "deliver role=%d resp=%t payload=%s", &ro, &resp, &pl); n == 3 {
				if (muxer.ProtocolRole(ro) == I) != resp {
					return []rt.Finding{{Key: "unreg:wrong-direction", What: l}}
				}
				if muxer.ProtocolRole(ro) == other {
					gotOther = append(gotOther, pl)
				} else {
					gotWhich = append(gotWhich, pl)
				}
			} else if strings.HasPrefix(l, "muxer error: ") {
				errs += l[13:] + ";"
			}
		}
		if strings.Join(gotWhich, ",") != "w1" {
			return []rt.Finding{{Key: "unreg:unregistered-role-deliveries", What: fmt.Sprintf("unregistered role received %v, want [w1]", gotWhich)}}
		}
		if strings.Join(gotOther, ",") != "o1,o2" {
			return []rt.Finding{{Key: "unreg:other-role-lost", What: fmt.Sprintf("the role that stayed registered received %v, want [o1 o2]; errors: %q", gotOther, errs)}}
		}
		if !strings.Contains(errs, "unknown protocol") {
			return []rt.Finding{{Key: "unreg:missing-error", What: fmt.Sprintf("segment for the unregistered role: want the unknown-protocol error, got %q", errs)}}
		}
		return nil
	}
	return e1lib.Scenario{Name: name, Body: body, Check: check, Cfg: rt.Config{Horizon: time.Hour}}
}

func TestC09(t *testing.T) {
	e1lib.Main(t, "C09", func(thorough bool) []e1lib.Scenario {
		I, R := muxer.ProtocolRoleInitiator, muxer.ProtocolRoleResponder
		var scs []e1lib.Scenario
		scs = append(scs,
			sendScenario("send-2x2", []sendSpec{{2, I, []int{1, 2}}, {3, R, []int{3, 1}}}, false),
			sendScenario("send-2x2-frag", []sendSpec{{2, I, []int{1, 2}}, {3, R, []int{3, 1}}}, true),
			sendScenario("send-3x1", []sendSpec{{2, I, []int{2}}, {3, I, []int{1}}, {4, R, []int{3}}}, true),
			sendScenario("send-max", []sendSpec{{2, I, []int{65535, 65536, 1}}, {3, R, []int{2}}}, false),
			recvScenario("recv-route", []sendSpec{{2, I, nil}, {3, R, nil}}, []wireSeg{{2, true, []byte("ab")}, {3, false, []byte("c")}, {2, true, []byte("d")}}, "", true, true),
			recvScenario("recv-unknown-proto", []sendSpec{{2, I, nil}}, []wireSeg{{2, true, []byte("ab")}, {9, true, []byte("x")}, {2, true, []byte("never")}}, "unknown protocol", true, false),
			recvScenario("recv-wrong-direction", []sendSpec{{2, I, nil}}, []wireSeg{{2, true, []byte("a")}, {2, false, []byte("x")}, {2, true, []byte("never")}}, "unknown protocol", true, false),
			recvScenario("recv-zero-length", []sendSpec{{2, I, nil}, {3, R, nil}}, []wireSeg{{3, false, []byte("q")}, {2, true, nil}, {2, true, []byte("never")}}, "zero-byte", true, false),
			recvScenario("recv-both-roles", []sendSpec{{2, I, nil}, {2, R, nil}}, []wireSeg{{2, true, []byte("r1")}, {2, false, []byte("q1")}, {2, true, []byte("r2")}}, "", true, true),
			unregScenario("unreg-initiator-keeps-responder", I, true),
			unregScenario("unreg-responder-keeps-initiator", R, false),
		)
		for i := range scs {
			scs[i].MinB = 1
			scs[i].MaxB = 2
			scs[i].Budget = 40 * time.Second
			if thorough {
				scs[i].MaxB = 4
				scs[i].MinB = 2
				scs[i].Budget = 6 * time.Minute
			}
		}
		return scs
	})
}
