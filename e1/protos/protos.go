//go:build verif

// Package protos is the catalogue of gouroboros mini-protocols used by the verification
// harnesses: for every mini-protocol x mode x role it constructs the REAL client/server
// object with the package's NewClient/NewServer (nothing is started, no muxer), exposes the
// actual protocol.ProtocolConfig through the overlay probe, a concrete message alphabet built
// with the package's exported NewMsg* constructors (one instance per variant a MatchFunc or
// the specification distinguishes, plus one unknown message type), and the independent
// specification automaton (spec.go, transcribed from DESIGN.md Appendix A).
//
// Built only with `-tags verif` and the probe overlay (probes/protocol/verif_probe.go).
package protos

import (
	"encoding/hex"
	"fmt"
	"reflect"
	"sort"
	"unsafe"

	"github.com/blinklabs-io/gouroboros/cbor"
	"github.com/blinklabs-io/gouroboros/protocol"
)

// Msg is one letter of a protocol's alphabet.
type Msg struct {
	// Label is unique within the alphabet (specification name plus data variant).
	Label string
	// Spec is the specification-level message name (what SpecAutomaton.Step takes);
	// several letters may share it (data variants the specification does not distinguish).
	Spec string
	// Msg is the concrete message built with the package's constructor.
	Msg protocol.Message
	// FromClient: the message is sent by the side with client agency.
	FromClient bool
	// Unknown: a message type number the protocol does not define.
	Unknown bool
}

// Proto is one mini-protocol x mode x role configuration around the real object.
type Proto struct {
	Name     string // e.g. "chain-sync"
	Variant  string // e.g. "v1"/"v2" for message-submission, "" otherwise
	Mode     protocol.ProtocolMode
	Role     protocol.ProtocolRole
	Version  uint16
	Endpoint any                // the package's *Client / *Server
	Protocol *protocol.Protocol // its embedded real protocol engine (never started)
	Config   protocol.ProtocolConfig
	Alphabet []Msg
	// Spec is the specification automaton the implementation is compared with; nil when
	// no authoritative specification is available offline (Leios).
	Spec *SpecAutomaton
	// AltSpecs are further readings of the specification where its text could not be
	// consulted; the implementation must match Spec or one of AltSpecs.
	AltSpecs []*SpecAutomaton
	// SpecNote explains the status of Spec/AltSpecs.
	SpecNote string
}

func ModeName(m protocol.ProtocolMode) string {
	switch m {
	case protocol.ProtocolModeNodeToNode:
		return "NtN"
	case protocol.ProtocolModeNodeToClient:
		return "NtC"
	}
	return "none"
}

func RoleName(r protocol.ProtocolRole) string {
	switch r {
	case protocol.ProtocolRoleClient:
		return "client"
	case protocol.ProtocolRoleServer:
		return "server"
	}
	return "none"
}

// Family is "<protocol>[-<variant>]/<mode>" (shared by the client and the server).
func (p *Proto) Family() string {
	n := p.Name
	if p.Variant != "" {
		n += "-" + p.Variant
	}
	return n + "/" + ModeName(p.Mode)
}

// ID is "<protocol>[-<variant>]/<mode>/<role>".
func (p *Proto) ID() string { return p.Family() + "/" + RoleName(p.Role) }

// ImplState is a state of the implementation's machine: the protocol.State plus a
// snapshot of the mutable StateContext the MatchFuncs read and write (leios-votes).
type ImplState struct {
	State protocol.State
	Ctx   string // raw bytes of *StateContext ("" when the protocol has none)
}

func (s ImplState) String() string {
	if s.Ctx == "" {
		return s.State.Name
	}
	return s.State.Name + "{ctx=" + hex.EncodeToString([]byte(s.Ctx)) + "}"
}

// ctxRegion returns the memory of the StateContext when it is a pointer to a flat struct
// (scalars only), nil when there is no context, and an error otherwise.
func (p *Proto) ctxRegion() ([]byte, error) {
	sc := p.Config.StateContext
	if sc == nil {
		return nil, nil
	}
	v := reflect.ValueOf(sc)
	if v.Kind() != reflect.Pointer || v.IsNil() {
		return nil, fmt.Errorf("StateContext of %s is a %s, not a pointer: the harness cannot snapshot it", p.ID(), v.Kind())
	}
	et := v.Type().Elem()
	if !flat(et) {
		return nil, fmt.Errorf("StateContext %s of %s is not a flat struct: the harness cannot snapshot it", et, p.ID())
	}
	if et.Size() == 0 {
		return nil, nil
	}
	return unsafe.Slice((*byte)(v.UnsafePointer()), et.Size()), nil
}

func flat(t reflect.Type) bool {
	switch t.Kind() {
	case reflect.Bool, reflect.Int, reflect.Int8, reflect.Int16, reflect.Int32, reflect.Int64,
		reflect.Uint, reflect.Uint8, reflect.Uint16, reflect.Uint32, reflect.Uint64, reflect.Uintptr,
		reflect.Float32, reflect.Float64, reflect.Complex64, reflect.Complex128:
		return true
	case reflect.Array:
		return flat(t.Elem())
	case reflect.Struct:
		for i := 0; i < t.NumField(); i++ {
			if !flat(t.Field(i).Type) {
				return false
			}
		}
		return true
	}
	return false
}

// CheckSnapshottable reports whether the StateContext (if any) can be saved and restored.
func (p *Proto) CheckSnapshottable() error { _, err := p.ctxRegion(); return err }

// Snapshot returns the current contents of the StateContext.
func (p *Proto) Snapshot() string {
	r, _ := p.ctxRegion()
	return string(r)
}

// Restore writes a snapshot back into the StateContext.
func (p *Proto) Restore(s string) {
	r, _ := p.ctxRegion()
	if len(r) == len(s) {
		copy(r, s)
	}
}

// Initial returns the initial implementation state (initial protocol state and the context
// as the constructor left it). Call before any Step.
func (p *Proto) Initial() ImplState {
	return ImplState{State: p.Config.InitialState, Ctx: p.Snapshot()}
}

// Step runs the REAL Protocol.nextState from implementation state cur on msg. The
// StateContext is set to cur.Ctx before the call; the returned state carries the context
// after the call. ctxAfter is the context after the call also when the message is rejected.
func (p *Proto) Step(cur ImplState, msg protocol.Message) (next ImplState, ctxAfter string, err error) {
	p.Restore(cur.Ctx)
	ns, err := p.Protocol.VerifNextState(cur.State, msg)
	ctxAfter = p.Snapshot()
	if err != nil {
		return ImplState{}, ctxAfter, err
	}
	return ImplState{State: ns, Ctx: ctxAfter}, ctxAfter, nil
}

// AgencyOf maps the implementation's agency of a state to the specification's terms.
// inMap is false when the state is not a key of the state map.
func (p *Proto) AgencyOf(s protocol.State) (a Agency, inMap bool) {
	e, ok := p.Config.StateMap[s]
	if !ok {
		return Nobody, false
	}
	switch e.Agency {
	case protocol.AgencyClient:
		return Client, true
	case protocol.AgencyServer:
		return Server, true
	}
	return Nobody, true
}

// States returns the keys of the state map ordered by id.
func (p *Proto) States() []protocol.State {
	var out []protocol.State
	for s := range p.Config.StateMap {
		out = append(out, s)
	}
	sort.Slice(out, func(i, j int) bool {
		if out[i].Id != out[j].Id {
			return out[i].Id < out[j].Id
		}
		return out[i].Name < out[j].Name
	})
	return out
}

// Matching evaluates, for implementation state cur and msg, EVERY transition of the state
// map entry whose MsgType equals the message type and whose MatchFunc (if any) returns true
// on a fresh copy of the context, and returns the resulting successor states. More than
// one distinct element means the transition relation is ambiguous (the real nextState
// silently takes the first).
func (p *Proto) Matching(cur ImplState, msg protocol.Message) []ImplState {
	var out []ImplState
	for _, tr := range p.Config.StateMap[cur.State].Transitions {
		if tr.MsgType != msg.Type() {
			continue
		}
		p.Restore(cur.Ctx)
		if tr.MatchFunc != nil && !tr.MatchFunc(p.Config.StateContext, msg) {
			continue
		}
		out = append(out, ImplState{State: tr.NewState, Ctx: p.Snapshot()})
	}
	p.Restore(cur.Ctx)
	return out
}

// Encode returns the wire bytes of msg the way Protocol's send path produces them.
func Encode(msg protocol.Message) ([]byte, error) {
	if b := msg.Cbor(); b != nil {
		return b, nil
	}
	return cbor.Encode(msg)
}

// Roundtrip encodes msg and decodes it with the configuration's MessageFromCborFunc the
// way Protocol's receive path does (type number taken from the first list element).
func (p *Proto) Roundtrip(msg protocol.Message) (protocol.Message, []byte, error) {
	data, err := Encode(msg)
	if err != nil {
		return nil, nil, fmt.Errorf("encode: %w", err)
	}
	var parts []cbor.RawMessage
	if _, err := cbor.Decode(data, &parts); err != nil || len(parts) == 0 {
		return nil, data, fmt.Errorf("encoded message is not a non-empty CBOR list: %v", err)
	}
	var typ uint
	if _, err := cbor.Decode(parts[0], &typ); err != nil {
		return nil, data, fmt.Errorf("first list element is not a message type: %w", err)
	}
	if typ != uint(msg.Type()) {
		return nil, data, fmt.Errorf("wire type %d differs from Message.Type() %d", typ, msg.Type())
	}
	dec, err := p.Config.MessageFromCborFunc(typ, data)
	if err != nil {
		return nil, data, fmt.Errorf("decode: %w", err)
	}
	if dec == nil || reflect.ValueOf(dec).IsNil() {
		return nil, data, fmt.Errorf("decode returned no message for type %d", typ)
	}
	if reflect.TypeOf(dec) != reflect.TypeOf(msg) {
		return dec, data, fmt.Errorf("decoded as %T, sent as %T", dec, msg)
	}
	if dec.Type() != msg.Type() {
		return dec, data, fmt.Errorf("decoded message has type %d, sent %d", dec.Type(), msg.Type())
	}
	return dec, data, nil
}

// unknownMsg is a message whose type number no protocol defines.
type unknownMsg struct {
	protocol.MessageBase
}

// UnknownType is the message type number of the alphabet's unknown message.
const UnknownType = 0xEE

func unknown() Msg {
	return Msg{Label: "Unknown(0xEE)", Spec: "Unknown", Unknown: true,
		Msg: &unknownMsg{MessageBase: protocol.MessageBase{MessageType: UnknownType}}}
}
