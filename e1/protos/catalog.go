//go:build verif

package protos

import (
	"fmt"
	"net"
	"sort"

	"github.com/blinklabs-io/gouroboros/cbor"
	lcommon "github.com/blinklabs-io/gouroboros/ledger/common"
	"github.com/blinklabs-io/gouroboros/protocol"
	"github.com/blinklabs-io/gouroboros/protocol/blockfetch"
	"github.com/blinklabs-io/gouroboros/protocol/chainsync"
	pcommon "github.com/blinklabs-io/gouroboros/protocol/common"
	"github.com/blinklabs-io/gouroboros/protocol/handshake"
	"github.com/blinklabs-io/gouroboros/protocol/keepalive"
	"github.com/blinklabs-io/gouroboros/protocol/leiosfetch"
	"github.com/blinklabs-io/gouroboros/protocol/leiosnotify"
	"github.com/blinklabs-io/gouroboros/protocol/leiosvotes"
	"github.com/blinklabs-io/gouroboros/protocol/localmessagenotification"
	"github.com/blinklabs-io/gouroboros/protocol/localmessagesubmission"
	"github.com/blinklabs-io/gouroboros/protocol/localstatequery"
	"github.com/blinklabs-io/gouroboros/protocol/localtxmonitor"
	"github.com/blinklabs-io/gouroboros/protocol/localtxsubmission"
	"github.com/blinklabs-io/gouroboros/protocol/messagesubmission"
	"github.com/blinklabs-io/gouroboros/protocol/peersharing"
	"github.com/blinklabs-io/gouroboros/protocol/txsubmission"
)

const (
	NtN = protocol.ProtocolModeNodeToNode
	NtC = protocol.ProtocolModeNodeToClient
)

// --- representative data values (contents are irrelevant to the state machines) ---------

func bytesN(n int, seed byte) []byte {
	b := make([]byte, n)
	for i := range b {
		b[i] = seed + byte(i)
	}
	return b
}

func point() pcommon.Point { return pcommon.NewPoint(4242, bytesN(32, 0x10)) }
func tip() pcommon.Tip     { return pcommon.Tip{Point: point(), BlockNumber: 77} }

// rawBlock is a CBOR list whose first element stands for a header: [[1,2],3]
func rawBlock() []byte { return []byte{0x82, 0x82, 0x01, 0x02, 0x03} }

func raw(b ...byte) cbor.RawMessage { return cbor.RawMessage(b) }

func dmqMessage() pcommon.DmqMessage {
	return pcommon.DmqMessage{
		Payload:      pcommon.DmqMessagePayload{MessageBody: []byte("verif"), KESPeriod: 3, ExpiresAt: 2000000000},
		KESSignature: bytesN(448, 0x20),
		OperationalCertificate: pcommon.OperationalCertificate{
			KESVerificationKey: bytesN(32, 0x30), IssueNumber: 1, KESPeriod: 3, ColdSignature: bytesN(64, 0x40),
		},
		ColdVerificationKey: bytesN(32, 0x50),
	}
}

func leiosVote() lcommon.LeiosVote {
	return lcommon.LeiosVote{SlotNo: 9, EndorserBlockHash: lcommon.NewBlake2b256(bytesN(32, 0x60)), VoterId: 5,
		VoteSignature: bytesN(lcommon.LeiosBlsSignatureSize, 0x70)}
}

// c / s build a letter sent by the client / the server.
func c(label string, m protocol.Message) Msg {
	return Msg{Label: label, Spec: specName(label), Msg: m, FromClient: true}
}
func s(label string, m protocol.Message) Msg {
	return Msg{Label: label, Spec: specName(label), Msg: m, FromClient: false}
}

// specName strips a data-variant suffix "{...}" from a label: "ReplyNextTx{empty}" is the
// specification's "ReplyNextTx". Variants written "[...]" are part of the specification
// name (e.g. "RequestTxIds[blocking]").
func specName(label string) string {
	for i := 0; i < len(label); i++ {
		if label[i] == '{' {
			return label[:i]
		}
	}
	return label
}

func must[T any](v T, err error) T {
	if err != nil {
		panic(fmt.Sprintf("protos: cannot build a message with the package constructor: %v", err))
	}
	return v
}

// --- alphabets ---------------------------------------------------------------------

func alphaHandshake(mode protocol.ProtocolMode) []Msg {
	vm := protocol.GetProtocolVersionMap(mode, 764824073, false, false, false)
	var vs []int
	for v := range vm {
		vs = append(vs, int(v))
	}
	sort.Ints(vs)
	top := uint16(vs[len(vs)-1])
	return []Msg{
		c("ProposeVersions", handshake.NewMsgProposeVersions(vm)),
		s("AcceptVersion", handshake.NewMsgAcceptVersion(top, vm[top])),
		s("Refuse{version-mismatch}", handshake.NewMsgRefuse([]any{handshake.RefuseReasonVersionMismatch, []any{uint64(top)}})),
		s("Refuse{refused}", handshake.NewMsgRefuse([]any{handshake.RefuseReasonRefused, uint64(top), "no"})),
		s("QueryReply", handshake.NewMsgQueryReply(vm)),
		unknown(),
	}
}

func alphaChainSync(mode protocol.ProtocolMode) []Msg {
	var rf protocol.Message
	if mode == NtN {
		rf = must(chainsync.NewMsgRollForwardNtN(1, 0, rawBlock(), tip()))
	} else {
		rf = must(chainsync.NewMsgRollForwardNtC(1, rawBlock(), tip()))
	}
	return []Msg{
		c("RequestNext", chainsync.NewMsgRequestNext()),
		s("AwaitReply", chainsync.NewMsgAwaitReply()),
		s("RollForward", rf),
		s("RollBackward", chainsync.NewMsgRollBackward(point(), tip())),
		c("FindIntersect", chainsync.NewMsgFindIntersect([]pcommon.Point{point(), pcommon.NewPointOrigin()})),
		s("IntersectFound", chainsync.NewMsgIntersectFound(point(), tip())),
		s("IntersectNotFound", chainsync.NewMsgIntersectNotFound(tip())),
		c("Done", chainsync.NewMsgDone()),
		unknown(),
	}
}

func alphaBlockFetch() []Msg {
	return []Msg{
		c("RequestRange", blockfetch.NewMsgRequestRange(point(), point())),
		c("ClientDone", blockfetch.NewMsgClientDone()),
		s("StartBatch", blockfetch.NewMsgStartBatch()),
		s("NoBlocks", blockfetch.NewMsgNoBlocks()),
		s("Block", blockfetch.NewMsgBlock(rawBlock())),
		s("BatchDone", blockfetch.NewMsgBatchDone()),
		unknown(),
	}
}

func alphaTxSubmission() []Msg {
	var id txsubmission.TxId
	id.EraId = 6
	copy(id.TxId[:], bytesN(32, 0x11))
	return []Msg{
		c("Init", txsubmission.NewMsgInit()),
		s("RequestTxIds[blocking]", txsubmission.NewMsgRequestTxIds(true, 0, 3)),
		s("RequestTxIds[non-blocking]", txsubmission.NewMsgRequestTxIds(false, 1, 3)),
		c("ReplyTxIds", txsubmission.NewMsgReplyTxIds([]txsubmission.TxIdAndSize{{TxId: id, Size: 300}})),
		c("ReplyTxIds{empty}", txsubmission.NewMsgReplyTxIds([]txsubmission.TxIdAndSize{})),
		s("RequestTxs", txsubmission.NewMsgRequestTxs([]txsubmission.TxId{id})),
		c("ReplyTxs", txsubmission.NewMsgReplyTxs([]txsubmission.TxBody{{EraId: 6, TxBody: []byte{0x80}}})),
		c("Done", txsubmission.NewMsgDone()),
		unknown(),
	}
}

func alphaKeepAlive() []Msg {
	return []Msg{
		c("KeepAlive", keepalive.NewMsgKeepAlive(4711)),
		s("KeepAliveResponse", keepalive.NewMsgKeepAliveResponse(4711)),
		c("Done", keepalive.NewMsgDone()),
		unknown(),
	}
}

func alphaPeerSharing() []Msg {
	return []Msg{
		c("ShareRequest", peersharing.NewMsgShareRequest(4)),
		s("SharePeers", peersharing.NewMsgSharePeers([]peersharing.PeerAddress{
			{IP: net.ParseIP("192.0.2.7"), Port: 3001},
			{IP: net.ParseIP("2001:db8::7"), Port: 3002},
		})),
		s("SharePeers{empty}", peersharing.NewMsgSharePeers([]peersharing.PeerAddress{})),
		c("Done", peersharing.NewMsgDone()),
		unknown(),
	}
}

func alphaLocalTxSubmission() []Msg {
	return []Msg{
		c("SubmitTx", localtxsubmission.NewMsgSubmitTx(6, []byte{0x80})),
		s("AcceptTx", localtxsubmission.NewMsgAcceptTx()),
		s("RejectTx", localtxsubmission.NewMsgRejectTx([]byte{0x81, 0x01})),
		c("Done", localtxsubmission.NewMsgDone()),
		unknown(),
	}
}

func alphaLocalStateQuery() []Msg {
	return []Msg{
		c("Acquire[point]", localstatequery.NewMsgAcquire(point())),
		c("Acquire[volatile tip]", localstatequery.NewMsgAcquireVolatileTip()),
		c("Acquire[immutable tip]", localstatequery.NewMsgAcquireImmutableTip()),
		s("Acquired", localstatequery.NewMsgAcquired()),
		s("Failure", localstatequery.NewMsgFailure(localstatequery.AcquireFailurePointTooOld)),
		c("Query", localstatequery.NewMsgQuery([]any{localstatequery.QueryTypeSystemStart})),
		s("Result", localstatequery.NewMsgResult([]byte{0x81, 0x01})),
		c("ReAcquire[point]", localstatequery.NewMsgReAcquire(point())),
		c("ReAcquire[volatile tip]", localstatequery.NewMsgReAcquireVolatileTip()),
		c("ReAcquire[immutable tip]", localstatequery.NewMsgReAcquireImmutableTip()),
		c("Release", localstatequery.NewMsgRelease()),
		c("Done", localstatequery.NewMsgDone()),
		unknown(),
	}
}

func alphaLocalTxMonitor() []Msg {
	return []Msg{
		c("Acquire", localtxmonitor.NewMsgAcquire()), // also MsgAwaitAcquire (same wire tag)
		s("Acquired", localtxmonitor.NewMsgAcquired(4242)),
		c("Release", localtxmonitor.NewMsgRelease()),
		c("NextTx", localtxmonitor.NewMsgNextTx()),
		s("ReplyNextTx", localtxmonitor.NewMsgReplyNextTx(6, []byte{0x80})),
		s("ReplyNextTx{empty}", localtxmonitor.NewMsgReplyNextTx(0, nil)),
		c("HasTx", localtxmonitor.NewMsgHasTx(bytesN(32, 0x12))),
		s("ReplyHasTx", localtxmonitor.NewMsgReplyHasTx(true)),
		c("GetSizes", localtxmonitor.NewMsgGetSizes()),
		s("ReplyGetSizes", localtxmonitor.NewMsgReplyGetSizes(1000, 100, 1)),
		c("Done", localtxmonitor.NewMsgDone()),
		unknown(),
	}
}

// doneFromClient: V1 the client terminates; V2 (implementation's reading) the server does.
func alphaMessageSubmission(doneFromClient bool) []Msg {
	id := bytesN(32, 0x13)
	done := s("Done", messagesubmission.NewMsgDone())
	if doneFromClient {
		done = c("Done", messagesubmission.NewMsgDone())
	}
	return []Msg{
		c("Init", messagesubmission.NewMsgInit()),
		s("RequestMessageIds[blocking]", messagesubmission.NewMsgRequestMessageIds(true, 0, 3)),
		s("RequestMessageIds[non-blocking]", messagesubmission.NewMsgRequestMessageIds(false, 1, 3)),
		c("ReplyMessageIds", messagesubmission.NewMsgReplyMessageIds([]pcommon.MessageIDAndSize{{MessageID: id, SizeInBytes: 700}})),
		c("ReplyMessageIds{empty}", messagesubmission.NewMsgReplyMessageIds([]pcommon.MessageIDAndSize{})),
		s("RequestMessages", messagesubmission.NewMsgRequestMessages([][]byte{id})),
		c("ReplyMessages", messagesubmission.NewMsgReplyMessages([]pcommon.DmqMessage{dmqMessage()})),
		done,
		unknown(),
	}
}

func alphaLocalMessageSubmission() []Msg {
	return []Msg{
		c("SubmitMessage", localmessagesubmission.NewMsgSubmitMessage(dmqMessage())),
		s("AcceptMessage", localmessagesubmission.NewMsgAcceptMessage()),
		s("RejectMessage", must(localmessagesubmission.NewMsgRejectMessage(pcommon.InvalidReason{Message: "bad"}))),
		c("Done", localmessagesubmission.NewMsgDone()),
		unknown(),
	}
}

func alphaLocalMessageNotification() []Msg {
	return []Msg{
		c("RequestMessages[blocking]", localmessagenotification.NewMsgRequestMessages(true)),
		c("RequestMessages[non-blocking]", localmessagenotification.NewMsgRequestMessages(false)),
		s("ReplyMessagesBlocking", localmessagenotification.NewMsgReplyMessagesBlocking([]pcommon.DmqMessage{dmqMessage()})),
		s("ReplyMessagesNonBlocking", localmessagenotification.NewMsgReplyMessagesNonBlocking([]pcommon.DmqMessage{dmqMessage()}, false)),
		s("ReplyMessagesNonBlocking{empty,more}", localmessagenotification.NewMsgReplyMessagesNonBlocking([]pcommon.DmqMessage{}, true)),
		c("ClientDone", localmessagenotification.NewMsgClientDone()),
		unknown(),
	}
}

// Leios: no authoritative specification offline. Senders are taken from the message names
// (requests and Done: client; everything else: server) and are only used by peer scripts.
func alphaLeiosFetch() []Msg {
	bm := map[uint16]uint64{0: 5, 2: 1}
	txs := []cbor.RawMessage{raw(0x80), raw(0x81, 0x01)}
	return []Msg{
		c("BlockRequest", leiosfetch.NewMsgBlockRequest(point())),
		s("Block", leiosfetch.NewMsgBlock(raw(0x82, 0x01, 0x02))),
		s("NoBlock", leiosfetch.NewMsgNoBlock()),
		c("BlockTxsRequest", leiosfetch.NewMsgBlockTxsRequest(point(), bm)),
		s("BlockTxs", leiosfetch.NewMsgBlockTxs(txs)),
		s("BlockTxs{full}", leiosfetch.NewMsgBlockTxsFull(point(), bm, txs)),
		s("NoBlockTxs", leiosfetch.NewMsgNoBlockTxs()),
		c("VotesRequest", leiosfetch.NewMsgVotesRequest([]leiosfetch.MsgVotesRequestVoteId{{SlotNo: 9, VoterId: 5}})),
		s("Votes", leiosfetch.NewMsgVotes([]cbor.RawMessage{raw(0x80)})),
		c("BlockRangeRequest", leiosfetch.NewMsgBlockRangeRequest(point(), point())),
		s("NextBlockAndTxsInRange", leiosfetch.NewMsgNextBlockAndTxsInRange(raw(0x82, 0x01, 0x02), txs)),
		s("LastBlockAndTxsInRange", leiosfetch.NewMsgLastBlockAndTxsInRange(raw(0x82, 0x01, 0x02), txs)),
		c("Done", leiosfetch.NewMsgDone()),
		unknown(),
	}
}

func alphaLeiosNotify() []Msg {
	return []Msg{
		c("NotificationRequestNext", leiosnotify.NewMsgNotificationRequestNext()),
		s("BlockAnnouncement", leiosnotify.NewMsgBlockAnnouncement(raw(0x82, 0x01, 0x02))),
		s("BlockOffer", leiosnotify.NewMsgBlockOffer(point(), 1000)),
		s("BlockTxsOffer", leiosnotify.NewMsgBlockTxsOffer(point())),
		s("VotesOffer", leiosnotify.NewMsgVotesOffer([]leiosnotify.MsgVotesOfferVote{{SlotNo: 9, VoterId: 5}})),
		s("VotesOffer{full}", leiosnotify.NewMsgVotesOfferFull([]lcommon.LeiosVote{leiosVote()})),
		c("Done", leiosnotify.NewMsgDone()),
		unknown(),
	}
}

// leios-votes: the MatchFuncs distinguish RequestNext counts (0 and > MaxRequestNextCount are
// rejected, the count becomes the number of votes owed) and, through the StateContext, the
// last vote of a batch from the others.
func alphaLeiosVotes() []Msg {
	return []Msg{
		c("VotesRequestNext{count=0}", leiosvotes.NewMsgVotesRequestNext(0)),
		c("VotesRequestNext{count=1}", leiosvotes.NewMsgVotesRequestNext(1)),
		c("VotesRequestNext{count=3}", leiosvotes.NewMsgVotesRequestNext(3)),
		c("VotesRequestNext{count=max}", leiosvotes.NewMsgVotesRequestNext(leiosvotes.MaxRequestNextCount)),
		c("VotesRequestNext{count=max+1}", leiosvotes.NewMsgVotesRequestNext(leiosvotes.MaxRequestNextCount+1)),
		s("Vote", leiosvotes.NewMsgVote(leiosVote())),
		c("Done", leiosvotes.NewMsgDone()),
		unknown(),
	}
}

// --- constructors -------------------------------------------------------------------

type family struct {
	name, variant string
	mode          protocol.ProtocolMode
	version       uint16
	alphabet      func() []Msg
	spec          *SpecAutomaton
	alt           []*SpecAutomaton
	note          string
	// mk constructs the real endpoint for a role and returns it with its protocol engine
	mk func(o protocol.ProtocolOptions, role protocol.ProtocolRole) (any, *protocol.Protocol)
}

func opts(mode protocol.ProtocolMode, role protocol.ProtocolRole, version uint16) protocol.ProtocolOptions {
	return protocol.ProtocolOptions{Mode: mode, Role: role, Version: version}
}

func families() []family {
	const leiosNote = "no authoritative Leios specification is available offline: spec-independent obligations only"
	const cipNote = "CIP-0137 text not available offline; table from DESIGN.md Appendix A"
	isClient := func(r protocol.ProtocolRole) bool { return r == protocol.ProtocolRoleClient }
	fs := []family{}
	for _, mode := range []protocol.ProtocolMode{NtN, NtC} {
		mode := mode
		fs = append(fs, family{name: "handshake", mode: mode, spec: specHandshake(),
			alphabet: func() []Msg { return alphaHandshake(mode) },
			mk: func(o protocol.ProtocolOptions, r protocol.ProtocolRole) (any, *protocol.Protocol) {
				cfg := handshake.NewConfig()
				if isClient(r) {
					e := handshake.NewClient(o, &cfg)
					return e, e.Protocol
				}
				e := handshake.NewServer(o, &cfg)
				return e, e.Protocol
			}})
	}
	for _, mode := range []protocol.ProtocolMode{NtN, NtC} {
		mode := mode
		fs = append(fs, family{name: "chain-sync", mode: mode, spec: specChainSync(),
			alphabet: func() []Msg { return alphaChainSync(mode) },
			mk: func(o protocol.ProtocolOptions, r protocol.ProtocolRole) (any, *protocol.Protocol) {
				cfg := chainsync.NewConfig()
				if isClient(r) {
					e := chainsync.NewClient(o, &cfg)
					return e, e.Protocol
				}
				e := chainsync.NewServer(o, &cfg)
				return e, e.Protocol
			}})
	}
	fs = append(fs,
		family{name: "block-fetch", mode: NtN, spec: specBlockFetch(), alphabet: alphaBlockFetch,
			mk: func(o protocol.ProtocolOptions, r protocol.ProtocolRole) (any, *protocol.Protocol) {
				cfg := must(blockfetch.NewConfig())
				if isClient(r) {
					e := blockfetch.NewClient(o, &cfg)
					return e, e.Protocol
				}
				e := blockfetch.NewServer(o, &cfg)
				return e, e.Protocol
			}},
		family{name: "tx-submission", mode: NtN, spec: specTxSubmission2(), alphabet: alphaTxSubmission,
			mk: func(o protocol.ProtocolOptions, r protocol.ProtocolRole) (any, *protocol.Protocol) {
				cfg := txsubmission.NewConfig()
				if isClient(r) {
					e := txsubmission.NewClient(o, &cfg)
					return e, e.Protocol
				}
				e := txsubmission.NewServer(o, &cfg)
				return e, e.Protocol
			}},
		family{name: "keep-alive", mode: NtN, spec: specKeepAlive(), alphabet: alphaKeepAlive,
			mk: func(o protocol.ProtocolOptions, r protocol.ProtocolRole) (any, *protocol.Protocol) {
				cfg := keepalive.NewConfig()
				if isClient(r) {
					e := keepalive.NewClient(o, &cfg)
					return e, e.Protocol
				}
				e := keepalive.NewServer(o, &cfg)
				return e, e.Protocol
			}},
		family{name: "peer-sharing", mode: NtN, spec: specPeerSharing(), alphabet: alphaPeerSharing,
			mk: func(o protocol.ProtocolOptions, r protocol.ProtocolRole) (any, *protocol.Protocol) {
				cfg := peersharing.NewConfig()
				if isClient(r) {
					e := peersharing.NewClient(o, &cfg)
					return e, e.Protocol
				}
				e := peersharing.NewServer(o, &cfg)
				return e, e.Protocol
			}},
		family{name: "local-tx-submission", mode: NtC, spec: specLocalTxSubmission(), alphabet: alphaLocalTxSubmission,
			mk: func(o protocol.ProtocolOptions, r protocol.ProtocolRole) (any, *protocol.Protocol) {
				cfg := localtxsubmission.NewConfig()
				if isClient(r) {
					e := localtxsubmission.NewClient(o, &cfg)
					return e, e.Protocol
				}
				e := localtxsubmission.NewServer(o, &cfg)
				return e, e.Protocol
			}},
		family{name: "local-state-query", mode: NtC, spec: specLocalStateQuery(), alphabet: alphaLocalStateQuery,
			mk: func(o protocol.ProtocolOptions, r protocol.ProtocolRole) (any, *protocol.Protocol) {
				cfg := localstatequery.NewConfig()
				if isClient(r) {
					e := localstatequery.NewClient(o, &cfg)
					return e, e.Protocol
				}
				e := localstatequery.NewServer(o, &cfg)
				return e, e.Protocol
			}},
		family{name: "local-tx-monitor", mode: NtC, spec: specLocalTxMonitor(), alphabet: alphaLocalTxMonitor,
			mk: func(o protocol.ProtocolOptions, r protocol.ProtocolRole) (any, *protocol.Protocol) {
				cfg := localtxmonitor.NewConfig()
				if isClient(r) {
					e := localtxmonitor.NewClient(o, &cfg)
					return e, e.Protocol
				}
				e := localtxmonitor.NewServer(o, &cfg)
				return e, e.Protocol
			}},
	)
	mkMsgSub := func(o protocol.ProtocolOptions, r protocol.ProtocolRole) (any, *protocol.Protocol) {
		cfg := messagesubmission.NewConfig()
		if isClient(r) {
			e := messagesubmission.NewClient(o, &cfg)
			return e, e.Protocol
		}
		e := messagesubmission.NewServer(o, &cfg)
		return e, e.Protocol
	}
	fs = append(fs,
		family{name: "message-submission", variant: "v1", mode: NtN, version: protocol.ProtocolVersionDMQNtN1,
			spec: specMessageSubmissionV1(), note: cipNote,
			alphabet: func() []Msg { return alphaMessageSubmission(true) }, mk: mkMsgSub},
		family{name: "message-submission", variant: "v2", mode: NtN, version: protocol.ProtocolVersionDMQNtN2,
			spec: specMessageSubmissionV2A(), alt: []*SpecAutomaton{specMessageSubmissionV2B()},
			note: cipNote + "; two readings of V2 are kept (A = Appendix A, B = server terminates from StIdle): " +
				"authority cannot be established offline, the implementation must match one of them and the evidence says which",
			alphabet: func() []Msg { return alphaMessageSubmission(false) }, mk: mkMsgSub},
		family{name: "local-message-submission", mode: NtC, spec: specLocalMessageSubmission(), note: cipNote,
			alphabet: alphaLocalMessageSubmission,
			mk: func(o protocol.ProtocolOptions, r protocol.ProtocolRole) (any, *protocol.Protocol) {
				cfg := localmessagesubmission.NewConfig()
				if isClient(r) {
					e := localmessagesubmission.NewClient(o, &cfg)
					return e, e.Protocol
				}
				e := localmessagesubmission.NewServer(o, &cfg)
				return e, e.Protocol
			}},
		family{name: "local-message-notification", mode: NtC, spec: specLocalMessageNotification(), note: cipNote,
			alphabet: alphaLocalMessageNotification,
			mk: func(o protocol.ProtocolOptions, r protocol.ProtocolRole) (any, *protocol.Protocol) {
				cfg := localmessagenotification.NewConfig()
				if isClient(r) {
					e := localmessagenotification.NewClient(o, &cfg)
					return e, e.Protocol
				}
				e := localmessagenotification.NewServer(o, &cfg)
				return e, e.Protocol
			}},
		family{name: "leios-fetch", mode: NtN, note: leiosNote, alphabet: alphaLeiosFetch,
			mk: func(o protocol.ProtocolOptions, r protocol.ProtocolRole) (any, *protocol.Protocol) {
				cfg := leiosfetch.NewConfig()
				if isClient(r) {
					e := leiosfetch.NewClient(o, &cfg)
					return e, e.Protocol
				}
				e := leiosfetch.NewServer(o, &cfg)
				return e, e.Protocol
			}},
		family{name: "leios-notify", mode: NtN, note: leiosNote, alphabet: alphaLeiosNotify,
			mk: func(o protocol.ProtocolOptions, r protocol.ProtocolRole) (any, *protocol.Protocol) {
				cfg := leiosnotify.NewConfig()
				if isClient(r) {
					e := leiosnotify.NewClient(o, &cfg)
					return e, e.Protocol
				}
				e := leiosnotify.NewServer(o, &cfg)
				return e, e.Protocol
			}},
		family{name: "leios-votes", mode: NtN, note: leiosNote, alphabet: alphaLeiosVotes,
			mk: func(o protocol.ProtocolOptions, r protocol.ProtocolRole) (any, *protocol.Protocol) {
				cfg := leiosvotes.NewConfig()
				if isClient(r) {
					e := leiosvotes.NewClient(o, &cfg)
					return e, e.Protocol
				}
				e := leiosvotes.NewServer(o, &cfg)
				return e, e.Protocol
			}},
	)
	return fs
}

// All constructs every mini-protocol x mode x role configuration afresh (client first, then
// server, for each family). Nothing is started; no muxer is attached.
func All() []*Proto {
	var out []*Proto
	for _, f := range families() {
		for _, role := range []protocol.ProtocolRole{protocol.ProtocolRoleClient, protocol.ProtocolRoleServer} {
			ep, pr := f.mk(opts(f.mode, role, f.version), role)
			p := &Proto{
				Name: f.name, Variant: f.variant, Mode: f.mode, Role: role, Version: f.version,
				Endpoint: ep, Protocol: pr, Config: pr.VerifConfig(),
				Alphabet: f.alphabet(), Spec: f.spec, AltSpecs: f.alt, SpecNote: f.note,
			}
			checkCatalogue(p)
			out = append(out, p)
		}
	}
	return out
}

// Find returns the configuration with the given ID ("chain-sync/NtN/client") from a fresh All().
func Find(id string) *Proto {
	for _, p := range All() {
		if p.ID() == id {
			return p
		}
	}
	return nil
}

// checkCatalogue validates the catalogue against its own specification tables (never
// against the implementation): unique labels, every non-optional specification message has
// a letter, and a letter's sender is the agency of the specification states it leaves in
// at least one reading.
func checkCatalogue(p *Proto) {
	seen := map[string]bool{}
	for _, m := range p.Alphabet {
		if seen[m.Label] {
			panic("protos: duplicate label " + m.Label + " in " + p.ID())
		}
		seen[m.Label] = true
	}
	specs := append([]*SpecAutomaton{}, p.AltSpecs...)
	if p.Spec != nil {
		specs = append(specs, p.Spec)
	}
	for _, sp := range specs {
		have := map[string]bool{}
		for _, m := range p.Alphabet {
			have[m.Spec] = true
		}
		for _, l := range sp.Messages() {
			if !have[l] {
				panic("protos: specification message " + l + " of " + sp.Name + " has no letter in " + p.ID())
			}
		}
	}
	for _, m := range p.Alphabet {
		if m.Unknown || len(specs) == 0 {
			continue
		}
		ok, known := false, false
		for _, sp := range specs {
			for _, a := range sp.Senders(m.Spec) {
				known = true
				if (a == Client) == m.FromClient {
					ok = true
				}
			}
		}
		if known && !ok {
			panic("protos: sender of " + m.Label + " in " + p.ID() + " contradicts the specification table")
		}
	}
}
