//go:build verif

package protos

import (
	"fmt"
	"sort"
)

// Agency of a specification state.
type Agency int

const (
	Nobody Agency = iota // terminal state
	Client
	Server
)

func (a Agency) String() string {
	switch a {
	case Client:
		return "client"
	case Server:
		return "server"
	}
	return "nobody"
}

// SpecTrans is one labelled edge of a specification automaton.
type SpecTrans struct {
	To string
	// Optional: the specification allows an implementation not to support this message
	// in this state (rejecting it is conforming); if the implementation accepts it, the
	// successor must be To.
	Optional bool
}

// SpecState is a state of a specification automaton.
type SpecState struct {
	Name   string
	Agency Agency
	Trans  map[string]SpecTrans // specification message name -> edge
}

// SpecAutomaton is an independent encoding of a mini-protocol state machine. The tables
// below are transcribed from DESIGN.md Appendix A (which was written from the Ouroboros
// network specification / CIP-0137, not from the code).
type SpecAutomaton struct {
	Name    string
	Source  string // where the table comes from
	Reading string // label of this reading when a protocol has several
	Initial string
	States  map[string]*SpecState
	// OptionalUnimplementable names specification messages for which no message
	// constructor exists in the library (documentation only; see catalogue).
	OptionalUnimplementable []string
}

// Step returns the successor of state on the specification message named label.
func (a *SpecAutomaton) Step(state, label string) (next string, ok, optional bool) {
	st := a.States[state]
	if st == nil {
		return "", false, false
	}
	t, ok := st.Trans[label]
	if !ok {
		return "", false, false
	}
	return t.To, true, t.Optional
}

// AgencyOf returns who may send in state.
func (a *SpecAutomaton) AgencyOf(state string) Agency {
	if st := a.States[state]; st != nil {
		return st.Agency
	}
	return Nobody
}

// Terminal reports whether nobody has agency in state.
func (a *SpecAutomaton) Terminal(state string) bool { return a.AgencyOf(state) == Nobody }

// Messages returns the sorted set of message names of the automaton.
func (a *SpecAutomaton) Messages() []string {
	set := map[string]bool{}
	for _, s := range a.States {
		for l := range s.Trans {
			set[l] = true
		}
	}
	var out []string
	for l := range set {
		out = append(out, l)
	}
	sort.Strings(out)
	return out
}

// Senders returns the agencies of the states the message named label leaves (more than one
// for a message that is wire-identical to another, e.g. handshake ReplyVersions).
func (a *SpecAutomaton) Senders(label string) []Agency {
	var out []Agency
	for _, n := range a.StateNames() {
		s := a.States[n]
		if _, ok := s.Trans[label]; ok {
			dup := false
			for _, x := range out {
				dup = dup || x == s.Agency
			}
			if !dup {
				out = append(out, s.Agency)
			}
		}
	}
	return out
}

// StateNames returns the sorted state names.
func (a *SpecAutomaton) StateNames() []string {
	var out []string
	for n := range a.States {
		out = append(out, n)
	}
	sort.Strings(out)
	return out
}

// --- small table DSL -------------------------------------------------------------

type edge struct {
	label, to string
	opt       bool
}

func t(label, to string) edge   { return edge{label, to, false} }
func opt(label, to string) edge { return edge{label, to, true} }

type stateDef struct {
	name   string
	agency Agency
	edges  []edge
}

func st(name string, a Agency, edges ...edge) stateDef { return stateDef{name, a, edges} }

func build(name, source, initial string, defs ...stateDef) *SpecAutomaton {
	a := &SpecAutomaton{Name: name, Source: source, Initial: initial, States: map[string]*SpecState{}}
	for _, d := range defs {
		s := &SpecState{Name: d.name, Agency: d.agency, Trans: map[string]SpecTrans{}}
		for _, e := range d.edges {
			if _, dup := s.Trans[e.label]; dup {
				panic(fmt.Sprintf("spec %s: duplicate edge %s in %s", name, e.label, d.name))
			}
			s.Trans[e.label] = SpecTrans{To: e.to, Optional: e.opt}
		}
		if _, dup := a.States[d.name]; dup {
			panic(fmt.Sprintf("spec %s: duplicate state %s", name, d.name))
		}
		a.States[d.name] = s
	}
	// well-formedness of the table itself
	if a.States[initial] == nil {
		panic("spec " + name + ": no initial state")
	}
	for _, s := range a.States {
		for l, e := range s.Trans {
			if a.States[e.To] == nil {
				panic(fmt.Sprintf("spec %s: edge %s/%s leads to undefined state %s", name, s.Name, l, e.To))
			}
		}
		if s.Agency == Nobody && len(s.Trans) > 0 {
			panic(fmt.Sprintf("spec %s: terminal state %s has edges", name, s.Name))
		}
	}
	return a
}

const netSpec = "Ouroboros network specification (DESIGN.md Appendix A)"
const cip137 = "CIP-0137 as transcribed in DESIGN.md Appendix A (CIP text not available offline)"

// --- the tables (DESIGN.md Appendix A) ---------------------------------------------

// Handshake (NtN and NtC are the same automaton). ReplyVersions (TCP simultaneous open) is
// wire-identical to ProposeVersions (tag 0) received in StConfirm and is optional.
func specHandshake() *SpecAutomaton {
	return build("Handshake", netSpec, "StPropose",
		st("StPropose", Client, t("ProposeVersions", "StConfirm")),
		st("StConfirm", Server,
			t("AcceptVersion", "StDone"),
			t("Refuse", "StDone"),
			t("QueryReply", "StDone"),
			opt("ProposeVersions", "StDone"), // = MsgReplyVersions
		),
		st("StDone", Nobody),
	)
}

func specChainSync() *SpecAutomaton {
	return build("ChainSync", netSpec, "StIdle",
		st("StIdle", Client,
			t("RequestNext", "StCanAwait"),
			t("FindIntersect", "StIntersect"),
			t("Done", "StDone")),
		st("StCanAwait", Server,
			t("AwaitReply", "StMustReply"),
			t("RollForward", "StIdle"),
			t("RollBackward", "StIdle")),
		st("StMustReply", Server,
			t("RollForward", "StIdle"),
			t("RollBackward", "StIdle")),
		st("StIntersect", Server,
			t("IntersectFound", "StIdle"),
			t("IntersectNotFound", "StIdle")),
		st("StDone", Nobody),
	)
}

func specBlockFetch() *SpecAutomaton {
	return build("BlockFetch", netSpec, "StIdle",
		st("StIdle", Client,
			t("RequestRange", "StBusy"),
			t("ClientDone", "StDone")),
		st("StBusy", Server,
			t("StartBatch", "StStreaming"),
			t("NoBlocks", "StIdle")),
		st("StStreaming", Server,
			t("Block", "StStreaming"),
			t("BatchDone", "StIdle")),
		st("StDone", Nobody),
	)
}

func specTxSubmission2() *SpecAutomaton {
	return build("TxSubmission2", netSpec, "StInit",
		st("StInit", Client, t("Init", "StIdle")),
		st("StIdle", Server,
			t("RequestTxIds[blocking]", "StTxIdsBlocking"),
			t("RequestTxIds[non-blocking]", "StTxIdsNonBlocking"),
			t("RequestTxs", "StTxs")),
		st("StTxIdsBlocking", Client,
			t("ReplyTxIds", "StIdle"),
			t("Done", "StDone")),
		st("StTxIdsNonBlocking", Client,
			t("ReplyTxIds", "StIdle")),
		st("StTxs", Client,
			t("ReplyTxs", "StIdle")),
		st("StDone", Nobody),
	)
}

func specKeepAlive() *SpecAutomaton {
	return build("KeepAlive", netSpec, "StClient",
		st("StClient", Client,
			t("KeepAlive", "StServer"),
			t("Done", "StDone")),
		st("StServer", Server,
			t("KeepAliveResponse", "StClient")),
		st("StDone", Nobody),
	)
}

func specPeerSharing() *SpecAutomaton {
	return build("PeerSharing", netSpec, "StIdle",
		st("StIdle", Client,
			t("ShareRequest", "StBusy"),
			t("Done", "StDone")),
		st("StBusy", Server,
			t("SharePeers", "StIdle")),
		st("StDone", Nobody),
	)
}

func specLocalTxSubmission() *SpecAutomaton {
	return build("LocalTxSubmission", netSpec, "StIdle",
		st("StIdle", Client,
			t("SubmitTx", "StBusy"),
			t("Done", "StDone")),
		st("StBusy", Server,
			t("AcceptTx", "StIdle"),
			t("RejectTx", "StIdle")),
		st("StDone", Nobody),
	)
}

func specLocalStateQuery() *SpecAutomaton {
	return build("LocalStateQuery", netSpec, "StIdle",
		st("StIdle", Client,
			t("Acquire[point]", "StAcquiring"),
			t("Acquire[volatile tip]", "StAcquiring"),
			t("Acquire[immutable tip]", "StAcquiring"),
			t("Done", "StDone")),
		st("StAcquiring", Server,
			t("Acquired", "StAcquired"),
			t("Failure", "StIdle")),
		st("StAcquired", Client,
			t("Query", "StQuerying"),
			t("ReAcquire[point]", "StAcquiring"),
			t("ReAcquire[volatile tip]", "StAcquiring"),
			t("ReAcquire[immutable tip]", "StAcquiring"),
			t("Release", "StIdle")),
		st("StQuerying", Server,
			t("Result", "StAcquired")),
		st("StDone", Nobody),
	)
}

// LocalTxMonitor: one busy state per request kind. MsgAwaitAcquire is wire-identical to
// MsgAcquire (tag 1); the table uses the wire name "Acquire" for both. GetMeasures /
// ReplyGetMeasures are optional and have no constructor in the library.
func specLocalTxMonitor() *SpecAutomaton {
	a := build("LocalTxMonitor", netSpec, "StIdle",
		st("StIdle", Client,
			t("Acquire", "StAcquiring"),
			t("Done", "StDone")),
		st("StAcquiring", Server,
			t("Acquired", "StAcquired")),
		st("StAcquired", Client,
			t("Acquire", "StAcquiring"), // = MsgAwaitAcquire
			t("Release", "StIdle"),
			t("NextTx", "StBusy<NextTx>"),
			t("HasTx", "StBusy<HasTx>"),
			t("GetSizes", "StBusy<GetSizes>")),
		st("StBusy<NextTx>", Server, t("ReplyNextTx", "StAcquired")),
		st("StBusy<HasTx>", Server, t("ReplyHasTx", "StAcquired")),
		st("StBusy<GetSizes>", Server, t("ReplyGetSizes", "StAcquired")),
		st("StDone", Nobody),
	)
	a.OptionalUnimplementable = []string{"GetMeasures (tag 11)", "ReplyGetMeasures (tag 12)"}
	return a
}

// CIP-0137 MessageSubmission V1: as TxSubmission2 with message ids / messages.
func specMessageSubmissionV1() *SpecAutomaton {
	return build("MessageSubmission-V1", cip137, "StInit",
		st("StInit", Client, t("Init", "StIdle")),
		st("StIdle", Server,
			t("RequestMessageIds[blocking]", "StMessageIdsBlocking"),
			t("RequestMessageIds[non-blocking]", "StMessageIdsNonBlocking"),
			t("RequestMessages", "StMessages")),
		st("StMessageIdsBlocking", Client,
			t("ReplyMessageIds", "StIdle"),
			t("Done", "StDone")),
		st("StMessageIdsNonBlocking", Client,
			t("ReplyMessageIds", "StIdle")),
		st("StMessages", Client,
			t("ReplyMessages", "StIdle")),
		st("StDone", Nobody),
	)
}

// CIP-0137 MessageSubmission V2, reading A = DESIGN.md Appendix A: "as TxSubmission2 ...
// (V2: no Init state, starts in Idle)", i.e. the client still terminates from the blocking
// reply state.
func specMessageSubmissionV2A() *SpecAutomaton {
	a := build("MessageSubmission-V2", cip137, "StIdle",
		st("StIdle", Server,
			t("RequestMessageIds[blocking]", "StMessageIdsBlocking"),
			t("RequestMessageIds[non-blocking]", "StMessageIdsNonBlocking"),
			t("RequestMessages", "StMessages")),
		st("StMessageIdsBlocking", Client,
			t("ReplyMessageIds", "StIdle"),
			t("Done", "StDone")),
		st("StMessageIdsNonBlocking", Client,
			t("ReplyMessageIds", "StIdle")),
		st("StMessages", Client,
			t("ReplyMessages", "StIdle")),
		st("StDone", Nobody),
	)
	a.Reading = "A: Appendix A (client terminates from StMessageIdsBlocking)"
	return a
}

// Reading B: the inbound (server) side terminates from StIdle and the client never sends
// Done — the shape of the ouroboros-network ObjectDiffusion protocol that dmq-node's
// SigSubmissionV2 is modelled on, as far as can be recalled without the texts. Which of A
// and B is the CIP's V2 cannot be established offline; see harness/c16/FINDINGS.md.
func specMessageSubmissionV2B() *SpecAutomaton {
	a := build("MessageSubmission-V2", "unverified recollection of CIP-0137 v2 / ObjectDiffusion (not available offline)", "StIdle",
		st("StIdle", Server,
			t("RequestMessageIds[blocking]", "StMessageIdsBlocking"),
			t("RequestMessageIds[non-blocking]", "StMessageIdsNonBlocking"),
			t("RequestMessages", "StMessages"),
			t("Done", "StDone")),
		st("StMessageIdsBlocking", Client,
			t("ReplyMessageIds", "StIdle")),
		st("StMessageIdsNonBlocking", Client,
			t("ReplyMessageIds", "StIdle")),
		st("StMessages", Client,
			t("ReplyMessages", "StIdle")),
		st("StDone", Nobody),
	)
	a.Reading = "B: server terminates from StIdle"
	return a
}

func specLocalMessageSubmission() *SpecAutomaton {
	return build("LocalMessageSubmission", cip137, "StIdle",
		st("StIdle", Client,
			t("SubmitMessage", "StBusy"),
			t("Done", "StDone")),
		st("StBusy", Server,
			t("AcceptMessage", "StIdle"),
			t("RejectMessage", "StIdle")),
		st("StDone", Nobody),
	)
}

func specLocalMessageNotification() *SpecAutomaton {
	return build("LocalMessageNotification", cip137, "StIdle",
		st("StIdle", Client,
			t("RequestMessages[blocking]", "StBusyBlocking"),
			t("RequestMessages[non-blocking]", "StBusyNonBlocking"),
			t("ClientDone", "StDone")),
		st("StBusyBlocking", Server,
			t("ReplyMessagesBlocking", "StIdle")),
		st("StBusyNonBlocking", Server,
			t("ReplyMessagesNonBlocking", "StIdle")),
		st("StDone", Nobody),
	)
}
