//go:build verif

package protos

import "github.com/blinklabs-io/gouroboros/protocol"

// Build constructs only the configuration with the given ID (cheaper than Find, for
// harnesses that need a fresh real object in every execution).
func Build(id string) *Proto {
	for _, f := range families() {
		for _, role := range []protocol.ProtocolRole{protocol.ProtocolRoleClient, protocol.ProtocolRoleServer} {
			n := f.name
			if f.variant != "" {
				n += "-" + f.variant
			}
			if n+"/"+ModeName(f.mode)+"/"+RoleName(role) != id {
				continue
			}
			ep, pr := f.mk(opts(f.mode, role, f.version), role)
			return &Proto{
				Name: f.name, Variant: f.variant, Mode: f.mode, Role: role, Version: f.version,
				Endpoint: ep, Protocol: pr, Config: pr.VerifConfig(),
				Alphabet: f.alphabet(), Spec: f.spec, AltSpecs: f.alt, SpecNote: f.note,
			}
		}
	}
	return nil
}

// IDs lists every configuration ID in catalogue order.
func IDs() []string {
	var out []string
	for _, f := range families() {
		for _, role := range []protocol.ProtocolRole{protocol.ProtocolRoleClient, protocol.ProtocolRoleServer} {
			n := f.name
			if f.variant != "" {
				n += "-" + f.variant
			}
			out = append(out, n+"/"+ModeName(f.mode)+"/"+RoleName(role))
		}
	}
	return out
}
