package connsmoke

import (
	"fmt"
	"testing"
	"time"

	ouroboros "github.com/blinklabs-io/gouroboros"
	rt "github.com/blinklabs-io/gouroboros/verifrt"
)

func TestSmoke(t *testing.T) {
	body := func() {
		a, b := rt.ConnPair("client", "server")
		done := make(chan struct{})
		rt.Go("server", func() {
			s, err := ouroboros.NewConnection(ouroboros.WithConnection(b), ouroboros.WithNetworkMagic(42), ouroboros.WithNodeToNode(true), ouroboros.WithServer(true))
			if err != nil {
				rt.Log("server err %v", err)
			} else {
				v, _ := s.ProtocolVersion()
				rt.Log("server version %d", v)
				for e := range rt.Range("srv:errs", s.ErrorChan()) {
					rt.Log("server errorchan %v", e)
				}
			}
			rt.Close("h:done", done)
		})
		c, err := ouroboros.NewConnection(ouroboros.WithConnection(a), ouroboros.WithNetworkMagic(42), ouroboros.WithNodeToNode(true))
		if err != nil {
			rt.Log("client err %v", err)
		} else {
			v, _ := c.ProtocolVersion()
			rt.Log("client version %d", v)
			c.Close()
			for e := range rt.Range("cli:errs", c.ErrorChan()) {
				rt.Log("client errorchan %v", e)
			}
		}
		rt.Recv("h:done?", done)
		rt.Log("end")
	}
	st := time.Now()
	r := rt.RunOnce(t, nil0{}, rt.Config{Horizon: time.Hour, Trace: true}, body)
	fmt.Println("verdict", r.Verdict.Kind, r.Verdict.Detail, "steps", r.Steps, "unmod", r.Unmodelled, "div", r.Divergences, time.Since(st))
	for _, s := range r.Verdict.Stuck {
		fmt.Println("  stuck", s)
	}
	for _, l := range r.Logs {
		fmt.Println("  log", l)
	}
}

type nil0 struct{}

func (nil0) Next(i, n int) int { return 0 }
