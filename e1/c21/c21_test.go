// C21: chain-sync delivers the server's chain updates faithfully.
//
// Seam S3: the real chainsync.Client (NtN, NtC, NtC with a real pipeline.BlockPipeline) on a
// real muxer over a scheduler-owned connection; the peer is a scripted raw server that
// follows the specification automaton of chain-sync (it answers FindIntersect, answers each
// RequestNext with the next step of its script, stops after Done) and builds its messages
// with the harness' own CBOR writer around two real blocks (Byron main, Shelley).
// A connection-owner goroutine does what ouroboros.Connection does: the first error on the
// protocol error channel or the muxer error channel stops the muxer.
package c21

import (
	"encoding/binary"
	"encoding/hex"
	"fmt"
	"io"
	"os"
	"path/filepath"
	"strings"
	"testing"
	"time"

	"github.com/blinklabs-io/gouroboros/connection"
	lcommon "github.com/blinklabs-io/gouroboros/ledger/common"
	"github.com/blinklabs-io/gouroboros/muxer"
	"github.com/blinklabs-io/gouroboros/pipeline"
	"github.com/blinklabs-io/gouroboros/protocol"
	"github.com/blinklabs-io/gouroboros/protocol/chainsync"
	pcommon "github.com/blinklabs-io/gouroboros/protocol/common"
	rt "github.com/blinklabs-io/gouroboros/verifrt"
	vcontext "github.com/blinklabs-io/gouroboros/verifrt/vcontext"
	vtime "github.com/blinklabs-io/gouroboros/verifrt/vtime"
	"verif/e1/e1lib"
	"verif/space"
)

// ---- fixtures: two small real blocks ---------------------------------------------------

type block struct {
	name   string
	typ    uint64 // NtC block type
	era    uint64 // NtN header era
	cbor   []byte
	header []byte // first element of the block array
	hash   string // from the fixture's file name (independent of the decoder under test)
}

var blocks = func() []block {
	repo := os.Getenv("REPO_ROOT")
	if repo == "" {
		repo = "/repo"
	}
	rd := func(name string, typ, era uint64, hash string) block {
		b, err := os.ReadFile(filepath.Join(repo, "protocol/chainsync/testdata", name+hash+".hex"))
		if err != nil {
			panic(err)
		}
		raw, err := hex.DecodeString(strings.TrimSpace(string(b)))
		if err != nil {
			panic(err)
		}
		n, err := space.Parse(raw)
		if err != nil || !n.IsArray() || len(n.Items) == 0 {
			panic("fixture is not a CBOR array")
		}
		h := n.Items[0]
		return block{name: name, typ: typ, era: era, cbor: raw, header: raw[h.Start:h.End], hash: hash}
	}
	return []block{
		rd("byron_main_block_testnet_", 1, 0, "f38aa5e8cf0b47d1ffa8b2385aa2d43882282db2ffd5ac0e3dadec1a6f2ecf08"),
		rd("shelley_block_testnet_", 2, 1, "02b1c561715da9e540411123a6135ee319b02f60b9a11a603d3305556c04329f"),
	}
}()

// ---- the server's script -----------------------------------------------------------------

// A script is a string over F (RollForward), B (RollBackward), A (AwaitReply, a pause, then
// RollForward). Step i carries tip i; roll-forwards alternate between the two blocks.

type mode int

const (
	ntn mode = iota
	ntc
	ntcPipe
)

func (m mode) String() string { return []string{"NtN", "NtC", "NtC+pipe"}[m] }

type params struct {
	mode   mode
	limit  int    // configured PipelineLimit (0 = library default)
	script string // server script
	policy string // eager | lazy | burst
	stopAt int    // Client.Stop() is issued once this many messages have been handled
	slow   int    // index of the callback that blocks on the harness gate (-1 none)
	strict string // name of a dedicated stop scenario group: errors caused by Stop are findings here
	slot0  bool   // tips, rollback points and the intersect point sit at slot 0 WITH a hash (start of the chain)
	lib    bool   // the server is the library's chainsync.Server driven through its API, not the raw peer
}

func (p params) name() string {
	s := fmt.Sprintf("%s|L%d|%s|%s|stop%d", p.mode, p.limit, p.script, p.policy, p.stopAt)
	if p.slow >= 0 {
		s += fmt.Sprintf("|slow%d", p.slow)
	}
	if p.slot0 {
		s += "|slot0"
	}
	if p.lib {
		s = "libsrv|" + s
	}
	if p.strict != "" {
		s = p.strict + "|" + s
	}
	return s
}

func effLimit(l int) int {
	if l == 0 {
		return 75 // documented default of the library (chainsync.DefaultPipelineLimit)
	}
	return l
}

// tipVals / rbVals / isectVals are the values the server is told to send. With zero they sit
// at slot 0 WITH a hash (the first block of a chain; block number 0 for the first message):
// only the true origin may be encoded as the empty list.
func tipVals(i int, zero bool) (slot uint64, hash []byte, blockNo uint64) {
	hash = make([]byte, 32)
	binary.BigEndian.PutUint32(hash, uint32(0xA0000000+i))
	if zero {
		return 0, hash, uint64(i)
	}
	return uint64(1000 + i), hash, uint64(100 + i)
}

func rbVals(i int, zero bool) (uint64, []byte) {
	h := make([]byte, 32)
	binary.BigEndian.PutUint32(h, uint32(0xB0000000+i))
	if zero {
		return 0, h
	}
	return uint64(500 + i), h
}

// isectVals: the point the application syncs from (nil hash = origin).
func isectVals(zero bool) (uint64, []byte) {
	if !zero {
		return 0, nil
	}
	h := make([]byte, 32)
	binary.BigEndian.PutUint32(h, 0xC0000000)
	return 0, h
}

func pointStr(slot uint64, hash []byte) string {
	if slot == 0 && len(hash) == 0 {
		return "origin"
	}
	return fmt.Sprintf("%d/%x", slot, hash)
}

func tipNode(i int, zero bool) *space.Node {
	s, h, n := tipVals(i, zero)
	return space.A(space.A(space.U(s), space.B(h)), space.U(n))
}

func tipStr(slot, blockNo uint64, hash []byte) string {
	return fmt.Sprintf("tip=%d/%d/%x", slot, blockNo, hash)
}

func wantTip(i int, zero bool) string {
	s, h, n := tipVals(i, zero)
	return tipStr(s, n, h)
}

func rollForward(m mode, i int, zero bool) []byte {
	b := blocks[i%2]
	if m == ntn {
		var wrapped *space.Node
		if b.era == 0 {
			wrapped = space.A(space.U(0), space.A(space.A(space.U(b.typ), space.U(uint64(len(b.cbor)+2))), space.Tag(24, space.B(b.header))))
		} else {
			wrapped = space.A(space.U(b.era), space.Tag(24, space.B(b.header)))
		}
		return space.A(space.U(2), wrapped, tipNode(i, zero)).Encode()
	}
	inner := space.A(space.U(b.typ), space.Raw(b.cbor)).Encode()
	return space.A(space.U(2), space.Tag(24, space.B(inner)), tipNode(i, zero)).Encode()
}

func rollBackward(i int, zero bool) []byte {
	s, h := rbVals(i, zero)
	return space.A(space.U(3), space.A(space.U(s), space.B(h)), tipNode(i, zero)).Encode()
}

// expected is the callback sequence the specification demands for a script.
// blockFor: the block of step i. The library server's NtN RollForward only knows the
// post-Byron eras (BlockToBlockHeaderTypeMap), so it always serves the Shelley block there.
func blockFor(p params, i int) block {
	if p.lib && p.mode == ntn {
		return blocks[1]
	}
	return blocks[i%2]
}

func expected(p params) []string {
	var out []string
	for i, c := range p.script {
		switch c {
		case 'F', 'A':
			b := blockFor(p, i)
			out = append(out, fmt.Sprintf("RF type=%d hash=%s %s", b.typ, b.hash, wantTip(i, p.slot0)))
		case 'B':
			s, h := rbVals(i, p.slot0)
			out = append(out, fmt.Sprintf("RB point=%d/%x %s", s, h, wantTip(i, p.slot0)))
		}
	}
	return out
}

// ---- harness -----------------------------------------------------------------------------

func errStr(err error) string {
	if err == nil {
		return "nil"
	}
	return "(" + err.Error() + ")"
}

func connID(c *rt.Conn) connection.ConnectionId {
	return connection.ConnectionId{LocalAddr: c.LocalAddr(), RemoteAddr: c.RemoteAddr()}
}

func owner(name string, protoErrs chan error, m *muxer.Muxer) (down, done chan struct{}) {
	down, done = make(chan struct{}), make(chan struct{})
	rt.Go("owner "+name, func() {
		s := rt.NewSel("h:owner "+name, false)
		rt.SelRecvCase(s, protoErrs)
		rt.SelRecvCase(s, m.ErrorChan())
		switch s.Choose() {
		case 0:
			rt.Log("err %s proto %s", name, errStr(rt.SelVal(s, protoErrs)))
		case 1:
			if err, ok := rt.SelVal2(s, m.ErrorChan()); ok {
				rt.Log("err %s mux %s", name, errStr(err))
			}
		}
		rt.Close("h:down "+name, down)
		m.Stop()
		for range rt.Range("h:muxerrs "+name, m.ErrorChan()) {
		}
		rt.Close("h:ownerDone "+name, done)
	})
	return
}

func body(p params) func() {
	return func() {
		peer, ca := rt.ConnPair("rawsrv", "cli")
		protoID := uint16(5)
		pmode := protocol.ProtocolModeNodeToClient
		if p.mode == ntn {
			protoID, pmode = 2, protocol.ProtocolModeNodeToNode
		}
		nSteps := len(p.script)
		handled := make(chan int, nSteps+8)
		gate := make(chan struct{})
		rt.Go("gatekeeper", func() {
			vtime.Sleep(time.Second)
			rt.Close("h:gateOpen", gate)
		})
		nCb := 0
		enter := func() int {
			i := nCb
			nCb++
			if i == p.slow {
				rt.Log("cb %d blocked", i)
				rt.Recv("h:gate", gate)
			}
			return i
		}
		onRF := func(typ uint, hash string, tip pcommon.Tip) {
			i := enter()
			rt.Log("cb RF type=%d hash=%s %s", typ, hash, tipStr(tip.Point.Slot, tip.BlockNumber, tip.Point.Hash))
			rt.Send("h:handled", handled, i)
		}
		cfgOpts := []chainsync.ChainSyncOptionFunc{
			chainsync.WithPipelineLimit(p.limit),
			chainsync.WithRollBackwardFunc(func(_ chainsync.CallbackContext, pt pcommon.Point, tip chainsync.Tip) error {
				i := enter()
				rt.Log("cb RB point=%d/%x %s", pt.Slot, pt.Hash, tipStr(tip.Point.Slot, tip.BlockNumber, tip.Point.Hash))
				rt.Send("h:handled", handled, i)
				return nil
			}),
			chainsync.WithRollForwardFunc(func(_ chainsync.CallbackContext, typ uint, data any, tip chainsync.Tip) error {
				hash := hashOf(data)
				if p.mode == ntcPipe {
					rt.Log("cbdirect RF (pipeline configured)")
				}
				onRF(typ, hash, tip)
				return nil
			}),
		}
		var bp *pipeline.BlockPipeline
		var resDone, errDone chan struct{}
		if p.mode == ntcPipe {
			bp = pipeline.NewBlockPipeline(
				pipeline.WithDecodeWorkers(2),
				pipeline.WithPrefetchBufferSize(2),
				pipeline.WithApplyFunc(func(b *pipeline.BlockItem) error {
					onRF(b.BlockType(), hashOf(b.Block()), b.Tip())
					return nil
				}),
			)
			if err := bp.Start(vcontext.Background()); err != nil {
				rt.Log("pipeline start error %v", err)
				return
			}
			resDone, errDone = make(chan struct{}), make(chan struct{})
			rt.Go("results", func() {
				for range rt.Range("h:results", bp.Results()) {
				}
				rt.Close("h:resDone", resDone)
			})
			rt.Go("errors", func() {
				for e := range rt.Range("h:errors", bp.Errors()) {
					rt.Log("err pipeline %s", errStr(e))
				}
				rt.Close("h:errDone", errDone)
			})
			cfgOpts = append(cfgOpts, chainsync.WithPipeline(bp))
		}
		cfg := chainsync.NewConfig(cfgOpts...)
		cmux := muxer.New(ca)
		cerrs := make(chan error, 10)
		cli := chainsync.NewClient(protocol.ProtocolOptions{ConnectionId: connID(ca), Muxer: cmux, ErrorChan: cerrs,
			Mode: pmode, Role: protocol.ProtocolRoleClient, Version: 14}, &cfg)
		cDown, cDone := owner("cli", cerrs, cmux)

		rdDone, wrDone := make(chan struct{}), make(chan struct{})
		var smux *muxer.Muxer
		var sDone chan struct{}
		if p.lib {
			// --- the library server driven through its API, as an application would
			rt.Close("h:rdDone", rdDone)
			rt.Close("h:wrDone", wrDone)
			step := 0
			var srv *chainsync.Server
			scfg := chainsync.NewConfig(
				chainsync.WithFindIntersectFunc(func(_ chainsync.CallbackContext, pts []pcommon.Point) (pcommon.Point, chainsync.Tip, error) {
					var ps []string
					for _, pt := range pts {
						ps = append(ps, pointStr(pt.Slot, pt.Hash))
					}
					rt.Log("C>S FindIntersect %s", strings.Join(ps, ","))
					rt.Log("S>C IntersectFound")
					is, ih := isectVals(p.slot0)
					ts, th, tn := tipVals(900, p.slot0)
					return pcommon.Point{Slot: is, Hash: ih}, chainsync.Tip{Point: pcommon.Point{Slot: ts, Hash: th}, BlockNumber: tn}, nil
				}),
				chainsync.WithRequestNextFunc(func(chainsync.CallbackContext) error {
					rt.Log("C>S RequestNext")
					if step >= nSteps {
						return nil // at the tip, nothing to say yet
					}
					i := step
					step++
					ts, th, tn := tipVals(i, p.slot0)
					tip := chainsync.Tip{Point: pcommon.Point{Slot: ts, Hash: th}, BlockNumber: tn}
					b := blockFor(p, i)
					switch p.script[i] {
					case 'B':
						rs, rh := rbVals(i, p.slot0)
						rt.Log("S>C reply RB %d", i)
						return srv.RollBackward(pcommon.Point{Slot: rs, Hash: rh}, tip)
					case 'A':
						rt.Log("S>C AwaitReply %d", i)
						if err := srv.AwaitReply(); err != nil {
							return err
						}
						rt.Go("next block", func() {
							vtime.Sleep(time.Second)
							rt.Log("S>C reply RF %d", i)
							if err := srv.RollForward(uint(b.typ), b.cbor, tip); err != nil {
								rt.Log("srv api error %s", errStr(err))
							}
						})
						return nil
					}
					rt.Log("S>C reply RF %d", i)
					return srv.RollForward(uint(b.typ), b.cbor, tip)
				}),
			)
			smux = muxer.New(peer)
			serrs := make(chan error, 10)
			srv = chainsync.NewServer(protocol.ProtocolOptions{ConnectionId: connID(peer), Muxer: smux, ErrorChan: serrs,
				Mode: pmode, Role: protocol.ProtocolRoleServer, Version: 14}, &scfg)
			_, sDone = owner("srv", serrs, smux)
			srv.Start()
			smux.SetDiffusionMode(muxer.DiffusionModeResponder)
			smux.Start()
		} else {
			// --- the scripted server: a reader that parses the client's messages and hands one
			// token per RequestNext to a writer that plays the script
			tokens := make(chan struct{}, 512)
			send := func(msg []byte) bool {
				seg := make([]byte, 8+len(msg))
				binary.BigEndian.PutUint32(seg, 1)
				binary.BigEndian.PutUint16(seg[4:], protoID|0x8000)
				binary.BigEndian.PutUint16(seg[6:], uint16(len(msg)))
				copy(seg[8:], msg)
				_, err := peer.Write(seg)
				return err == nil
			}
			rt.Go("rawsrv reader", func() {
				defer rt.Close("h:rdDone", rdDone)
				defer rt.Close("h:noMoreTokens", tokens)
				var stream []byte
				hdr := make([]byte, 8)
				for {
					if _, err := io.ReadFull(peer, hdr); err != nil {
						return
					}
					pl := make([]byte, int(binary.BigEndian.Uint16(hdr[6:])))
					if _, err := io.ReadFull(peer, pl); err != nil {
						return
					}
					if id := binary.BigEndian.Uint16(hdr[4:]); id != protoID {
						rt.Log("C>S foreign-protocol %d", id)
					}
					stream = append(stream, pl...)
					for len(stream) > 0 {
						n, used, err := space.ParsePrefix(stream)
						if err != nil {
							break
						}
						stream = stream[used:]
						typ := uint64(99)
						if n.IsArray() && len(n.Items) > 0 && n.Items[0].Major == 0 {
							typ = n.Items[0].Arg
						}
						switch typ {
						case 4:
							pts := "?"
							if len(n.Items) == 2 && n.Items[1].IsArray() {
								var ps []string
								for _, pt := range n.Items[1].Items {
									switch {
									case pt.IsArray() && len(pt.Items) == 0:
										ps = append(ps, "origin")
									case pt.IsArray() && len(pt.Items) == 2 && pt.Items[0].Major == 0 && pt.Items[1].Major == 2:
										ps = append(ps, fmt.Sprintf("%d/%x", pt.Items[0].Arg, pt.Items[1].Bytes))
									default:
										ps = append(ps, fmt.Sprintf("malformed:%x", pt.Encode()))
									}
								}
								pts = strings.Join(ps, ",")
							}
							rt.Log("C>S FindIntersect %s", pts)
							rt.Log("S>C IntersectFound")
							is, ih := isectVals(p.slot0)
							ipt := space.A()
							if ih != nil {
								ipt = space.A(space.U(is), space.B(ih))
							}
							if !send(space.A(space.U(5), ipt, tipNode(900, p.slot0)).Encode()) {
								return
							}
						case 0:
							rt.Log("C>S RequestNext")
							rt.Send("h:token", tokens, struct{}{})
						case 7:
							rt.Log("C>S Done")
						default:
							rt.Log("C>S other %x", n.Encode())
						}
					}
				}
			})
			policy := strings.TrimSuffix(p.policy, "+sched")
			rt.Go("rawsrv writer", func() {
				defer rt.Close("h:wrDone", wrDone)
				i := 0
				for i < nSteps {
					if _, ok := rt.Recv2("h:token?", tokens); !ok {
						return
					}
					var out []byte
					for {
						if policy == "lazy" {
							// a slow server: the client gets all the time it wants to react first
							vtime.Sleep(time.Millisecond)
						}
						c := p.script[i]
						if c == 'A' {
							if len(out) > 0 {
								if !send(out) {
									return
								}
								out = nil
							}
							rt.Log("S>C AwaitReply %d", i)
							if !send(space.A(space.U(1)).Encode()) {
								return
							}
							vtime.Sleep(time.Second) // the next block takes a while
						}
						if c == 'B' {
							rt.Log("S>C reply RB %d", i)
							out = append(out, rollBackward(i, p.slot0)...)
						} else {
							rt.Log("S>C reply RF %d", i)
							out = append(out, rollForward(p.mode, i, p.slot0)...)
						}
						i++
						// burst: answer every request already seen in the same segment
						if policy != "burst" || i >= nSteps || p.script[i] == 'A' || rt.Len("h:tokens?", tokens) == 0 {
							break
						}
						if _, ok := rt.Recv2("h:token+", tokens); !ok {
							break
						}
					}
					if !send(out) {
						return
					}
				}
			})

		}

		// --- the application
		cli.Start()
		cmux.SetDiffusionMode(muxer.DiffusionModeInitiator)
		cmux.Start()
		is, ih := isectVals(p.slot0)
		err := cli.Sync([]pcommon.Point{{Slot: is, Hash: ih}})
		rt.Log("sync returned %s", errStr(err))
		alive := err == nil
		for n := 0; alive && n < p.stopAt; n++ {
			s := rt.NewSel("h:waitHandled", false)
			rt.SelRecvCase(s, handled)
			rt.SelRecvCase(s, cDown)
			alive = s.Choose() == 0
		}
		rt.Log("stop called")
		t0 := vtime.Now()
		err = cli.Stop()
		rt.Log("stop returned %s", errStr(err))
		if d := vtime.Now().Sub(t0); d > 10*time.Second {
			rt.Log("stop took %v", d)
		}
		// the application keeps the connection for a while (it may want to sync again)
		vtime.Sleep(2 * time.Second)
		rt.Log("closing")
		cmux.Stop()
		rt.Recv("h:cDone?", cDone)
		if p.lib {
			smux.Stop()
			rt.Recv("h:sDone?", sDone)
		} else {
			peer.Close()
		}
		rt.Recv("h:rdDone?", rdDone)
		rt.Recv("h:wrDone?", wrDone)
		if bp != nil {
			bp.Stop()
			rt.Recv("h:resDone?", resDone)
			rt.Recv("h:errDone?", errDone)
		}
		rt.Log("end")
	}
}

func hashOf(v any) string {
	if v == nil {
		return "nil"
	}
	if h, ok := v.(interface{ Hash() lcommon.Blake2b256 }); ok {
		return h.Hash().String()
	}
	return fmt.Sprintf("%T", v)
}

func verdictFinding(r *rt.Result) []rt.Finding {
	if r.Verdict.Kind != "ok" {
		k := r.Verdict.Kind
		if k == "panic" {
			k += ":" + strings.SplitN(r.Verdict.Detail, "\n", 2)[0]
		}
		return []rt.Finding{{Key: "verdict:" + k, What: r.Verdict.Detail + " " + strings.Join(r.Verdict.Stuck, "; ")}}
	}
	return nil
}

// errClass shortens an error line to a stable class for keys.
func errClass(l string) string {
	l = strings.TrimPrefix(l, "err ")
	if i := strings.Index(l, "("); i >= 0 {
		msg := strings.Trim(l[i:], "()")
		w := strings.Fields(msg)
		if len(w) > 6 {
			w = w[:6]
		}
		return strings.Join(strings.Fields(l[:i]), "-") + ":" + strings.Join(w, "_")
	}
	return l
}

func check(p params) func(r *rt.Result) []rt.Finding {
	want := expected(p)
	lim := effLimit(p.limit)
	return func(r *rt.Result) []rt.Finding {
		if f := verdictFinding(r); f != nil {
			return f
		}
		var out []rt.Finding
		add := func(key, what string) {
			for _, f := range out {
				if f.Key == key {
					return
				}
			}
			out = append(out, rt.Finding{Key: key, What: what + "; log " + strings.Join(r.Logs, " | ")})
		}
		var got []string
		outstanding, maxOut := 0, 0
		closing, doneSeen, stopReturned, stopCalled := false, false, false, false
		for _, l := range r.Logs {
			switch {
			case strings.HasPrefix(l, "cb RF ") || strings.HasPrefix(l, "cb RB "):
				got = append(got, l[3:])
			case strings.HasPrefix(l, "cbdirect "):
				// with a pipeline configured the blocks go to the pipeline, not to the callback
			case l == "C>S RequestNext":
				if doneSeen {
					add("c21:message-after-done", "the client sent RequestNext after Done")
				}
				outstanding++
				if outstanding > maxOut {
					maxOut = outstanding
				}
				if outstanding > lim {
					add("c21:outstanding-exceeds-limit", fmt.Sprintf("%d RequestNext outstanding (seen by the server minus replies sent), pipeline limit %d", outstanding, lim))
				}
			case strings.HasPrefix(l, "S>C reply "):
				outstanding--
			case l == "C>S Done":
				if doneSeen {
					add("c21:message-after-done", "the client sent Done twice")
				}
				doneSeen = true
			case strings.HasPrefix(l, "C>S FindIntersect"):
				if doneSeen {
					add("c21:message-after-done", "the client sent FindIntersect after Done")
				}
				if want := "C>S FindIntersect " + pointStr(isectVals(p.slot0)); l != want {
					add("c21:wrong-intersect-points", fmt.Sprintf("the application asked to sync from %s, the server received %q", pointStr(isectVals(p.slot0)), l))
				}
			case strings.HasPrefix(l, "srv api error"):
				add("c21:server-api-error", l)
			case strings.HasPrefix(l, "err srv "):
				// the library server's side of the connection: nothing may go wrong there
				// before the application stops the client
				if !stopCalled {
					add("c21:error-during-sync|"+errClass(l), l)
				}
			case strings.HasPrefix(l, "C>S other") || strings.HasPrefix(l, "C>S foreign"):
				add("c21:unexpected-client-message", l)
			case l == "closing":
				closing = true
			case l == "stop called":
				stopCalled = true
			case strings.HasPrefix(l, "stop took "):
				add("c21:stop-blocked", "Client.Stop() "+l[5:]+" of virtual time (its own timeouts add up to 5.25 s)")
			case strings.HasPrefix(l, "stop returned"):
				stopReturned = true
				if l != "stop returned nil" {
					add("c21:stop-error", l)
				}
			case strings.HasPrefix(l, "sync returned") && l != "sync returned nil":
				add("c21:sync-error", l)
			case strings.HasPrefix(l, "err "):
				if !closing {
					// conforming server, conforming application: nothing may go wrong before the
					// application itself closes the connection
					when := "during-sync"
					if stopCalled {
						when = "after-stop"
					}
					// Two consequences of Stop() are findings of the dedicated scenarios
					// (stopclean: the protocol is unregistered before the replies to requests
					// already sent arrive; stoprace: syncLoop queues a RequestNext after Done and
					// reports the refusal as a protocol error); elsewhere they are attributed to
					// those findings so that one root cause does not produce hundreds of keys
					if stopCalled && p.strict != "stopclean" && strings.Contains(l, "mux (received message for unknown protocol ID") {
						continue
					}
					if stopCalled && p.strict != "stoprace" && strings.Contains(l, "proto (protocol is shutting down)") {
						continue
					}
					add("c21:error-"+when+"|"+errClass(l), l)
				}
			}
		}
		// callbacks = the server's send sequence, in order, with the tips sent
		for i := range got {
			if i >= len(want) {
				add("c21:extra-callback", fmt.Sprintf("callback %d %q was never sent", i, got[i]))
				break
			}
			if got[i] != want[i] {
				k := "c21:wrong-callback"
				if len(got[i]) > 2 && len(want[i]) > 2 && got[i][:2] == want[i][:2] {
					k = "c21:wrong-callback-content"
				}
				add(k, fmt.Sprintf("callback %d is %q, the server sent %q", i, got[i], want[i]))
				break
			}
		}
		if len(got) < p.stopAt && len(got) < len(want) {
			add("c21:missing-callback", fmt.Sprintf("%d callbacks, the application waited for %d of %d messages", len(got), p.stopAt, len(want)))
		}
		if !stopReturned {
			add("c21:stop-did-not-return", "")
		}
		_ = maxOut
		return out
	}
}

func scenario(p params) e1lib.Scenario {
	return e1lib.Scenario{Name: p.name(), Body: body(p), Check: check(p), Cfg: rt.Config{Horizon: time.Hour}}
}

func scripts(maxLen int) []string {
	var out []string
	var rec func(s string)
	rec = func(s string) {
		if len(s) > 0 {
			out = append(out, s)
		}
		if len(s) == maxLen {
			return
		}
		for _, c := range "FBA" {
			rec(s + string(c))
		}
	}
	rec("")
	return out
}

func TestC21(t *testing.T) {
	e1lib.Main(t, "C21", func(thorough bool) []e1lib.Scenario {
		var scs []e1lib.Scenario
		seen := map[string]bool{}
		add := func(p params, minB, maxB int, budget time.Duration) {
			if seen[p.name()] {
				return
			}
			seen[p.name()] = true
			s := scenario(p)
			s.MinB, s.MaxB, s.Budget = minB, maxB, budget
			scs = append(scs, s)
		}
		maxLen := 3
		if thorough {
			maxLen = 5
		}
		b0 := 40 * time.Second
		// G1 delivery: every script, every mode, limits 1..3, three server policies; the
		// application stops after the last message was handled. Canonical schedule.
		for _, sc := range scripts(maxLen) {
			for _, m := range []mode{ntn, ntc, ntcPipe} {
				for _, l := range []int{1, 2, 3} {
					for _, pol := range []string{"eager", "lazy", "burst"} {
						if len(sc) > 3 && (pol == "burst" || m == ntcPipe && l == 2) {
							continue
						}
						if pol == "burst" && l == 1 {
							continue
						}
						if !thorough && (pol == "burst" && l != 3 || m == ntcPipe && (l == 2 || pol == "burst")) {
							continue
						}
						add(params{mode: m, limit: l, script: sc, policy: pol, stopAt: len(sc), slow: -1}, 0, 0, b0)
					}
				}
			}
		}
		// G2 stop: Client.Stop() after k handled messages for every k < len
		for _, sc := range scripts(3) {
			for k := 0; k < len(sc); k++ {
				for _, m := range []mode{ntn, ntc, ntcPipe} {
					for _, l := range []int{1, 2} {
						for _, pol := range []string{"eager", "lazy"} {
							if m == ntcPipe && (l == 1 || pol == "eager") {
								continue
							}
							add(params{mode: m, limit: l, script: sc, policy: pol, stopAt: k, slow: -1}, 0, 0, b0)
						}
					}
				}
			}
		}
		// G3 slow callback: callback j blocks on the gate (opened after 1 s of virtual time);
		// Stop after all messages, and Stop while the callback is blocked (k = j)
		for _, sc := range scripts(3) {
			for j := 0; j < len(sc); j++ {
				for _, m := range []mode{ntn, ntc, ntcPipe} {
					for _, k := range []int{len(sc), j} {
						add(params{mode: m, limit: 2, script: sc, policy: "eager", stopAt: k, slow: j}, 0, 0, b0)
					}
				}
			}
		}
		// G2b the dedicated stop scenarios: stopping in the middle of a sync must not cost the connection
		// (at the tip: the server has said AwaitReply, the next block comes a second later;
		// with a block pipeline: Done leaves in the same segment as two RequestNext)
		add(params{mode: ntn, limit: 2, script: "FFA", policy: "lazy", stopAt: 2, slow: -1, strict: "stopclean"}, 0, 1, b0)
		add(params{mode: ntc, limit: 2, script: "FFA", policy: "lazy", stopAt: 2, slow: -1, strict: "stopclean"}, 0, 1, b0)
		add(params{mode: ntcPipe, limit: 2, script: "FFF", policy: "lazy", stopAt: 1, slow: -1, strict: "stopclean"}, 0, 1, b0)
		// G2c Stop() racing with the sync loop (needs one schedule deviation)
		add(params{mode: ntn, limit: 1, script: "F", policy: "eager", stopAt: 1, slow: -1, strict: "stoprace"}, 1, 1, b0)
		add(params{mode: ntc, limit: 2, script: "FF", policy: "eager", stopAt: 1, slow: -1, strict: "stoprace"}, 1, 1, b0)
		// G6 start of the chain: tips, rollback points and the intersect point at slot 0 WITH a
		// hash (only the true origin is the empty list); raw server, so the client's decoder
		// and its own FindIntersect encoding are what is exercised
		for _, sc := range scripts(maxLen - 1) {
			for _, m := range []mode{ntn, ntc} {
				add(params{mode: m, limit: 2, script: sc, policy: "eager", stopAt: len(sc), slow: -1, slot0: true}, 0, 0, b0)
			}
		}
		add(params{mode: ntcPipe, limit: 2, script: "FBF", policy: "eager", stopAt: 3, slow: -1, slot0: true}, 0, 0, b0)
		// G7 the LIBRARY server (chainsync.Server driven through RollForward / RollBackward /
		// AwaitReply from its RequestNext callback) feeding the library client: the encoding
		// side of every message is the library's, with ordinary and with slot-0 tips/points
		for _, sc := range scripts(maxLen) {
			for _, m := range []mode{ntn, ntc, ntcPipe} {
				for _, z := range []bool{false, true} {
					for _, l := range []int{1, 2, 3} {
						if l != 2 && (len(sc) > 2 || m == ntcPipe || !thorough) {
							continue
						}
						add(params{mode: m, limit: l, script: sc, policy: "eager", stopAt: len(sc), slow: -1, slot0: z, lib: true}, 0, 0, b0)
					}
				}
			}
		}
		// G5 schedules: all schedules with <= 1 (thorough <= 2) deviations for short scripts
		// (bound 1 must complete; bound 2 is attempted within the budget and reported)
		sb, sbudget := 1, 60*time.Second
		if thorough {
			sb, sbudget = 2, 120*time.Second
		}
		sched := func(p params, budget time.Duration) {
			p.policy += "+sched" // distinct name: same body, explored under perturbed schedules
			add(p, 1, sb, budget)
		}
		for _, sc := range scripts(2) {
			for _, l := range []int{1, 2} {
				sched(params{mode: ntn, limit: l, script: sc, policy: "eager", stopAt: len(sc), slow: -1}, sbudget)
			}
		}
		len3 := []string{"FFF", "FBF", "BFF", "FFB", "AFF", "FAF", "FFA", "BFB"}
		if !thorough {
			len3 = len3[:4]
		}
		for _, sc := range len3 {
			sched(params{mode: ntn, limit: 2, script: sc, policy: "eager", stopAt: len(sc), slow: -1}, sbudget*3/2)
		}
		for _, sc := range []string{"FF", "FB", "AF", "BA"} {
			sched(params{mode: ntc, limit: 2, script: sc, policy: "lazy", stopAt: len(sc), slow: -1}, sbudget*3/2)
			sched(params{mode: ntcPipe, limit: 2, script: sc, policy: "eager", stopAt: len(sc), slow: -1}, sbudget*3/2)
		}
		sched(params{mode: ntn, limit: 2, script: "FFF", policy: "eager", stopAt: 1, slow: -1}, sbudget*3/2)
		sched(params{mode: ntn, limit: 3, script: "FBF", policy: "lazy", stopAt: 1, slow: -1}, sbudget*3/2)
		sched(params{mode: ntc, limit: 2, script: "FF", policy: "eager", stopAt: 0, slow: -1}, sbudget*3/2)
		sched(params{mode: ntn, limit: 2, script: "FF", policy: "eager", stopAt: 2, slow: 0}, sbudget*3/2)
		sched(params{mode: ntn, limit: 2, script: "FB", policy: "eager", stopAt: 0, slow: 0}, sbudget*3/2)
		sched(params{mode: ntcPipe, limit: 2, script: "FB", policy: "lazy", stopAt: 1, slow: 1}, sbudget*3/2)
		sched(params{mode: ntn, limit: 2, script: "FB", policy: "eager", stopAt: 2, slow: -1, slot0: true, lib: true}, sbudget*3/2)
		sched(params{mode: ntc, limit: 2, script: "BF", policy: "eager", stopAt: 2, slow: -1, slot0: true, lib: true}, sbudget*3/2)
		// G4 large limits (0 = default 75, and 100): long runs of roll-forwards so that the
		// window is refilled at least twice; canonical schedule only
		for _, l := range []int{0, 100} {
			n := 2*effLimit(l) - 2 // the application stops while 3 requests of the second refill are outstanding
			for _, m := range []mode{ntn, ntc} {
				for _, pol := range []string{"eager", "lazy"} {
					add(params{mode: m, limit: l, script: strings.Repeat("F", n), policy: pol, stopAt: n, slow: -1}, 0, 0, 2*b0)
					if l == 0 {
						add(params{mode: m, limit: l, script: "FBA", policy: pol, stopAt: 3, slow: -1}, 0, 0, b0)
					}
				}
			}
		}
		// observation only (never a finding): PipelineLimit 100 exceeds the protocol's send queue
		// (80); Stop() then waits for the server's next reply (see FINDINGS.md)
		{
			p := params{mode: ntn, limit: 100, script: "FBA", policy: "eager", stopAt: 3, slow: -1}
			s := scenario(p)
			s.Name = "info|" + s.Name
			s.Check = func(r *rt.Result) []rt.Finding { return verdictFinding(r) }
			s.Budget = b0
			scs = append(scs, s)
		}
		// a worker process takes up to 24 consecutive scenarios: spread the expensive ones
		// (bound >= 1) over the first batches, one per batch, so that they start first and run
		// in parallel
		var cheap, costly []e1lib.Scenario
		for _, s := range scs {
			if s.MaxB > 0 {
				costly = append(costly, s)
			} else {
				cheap = append(cheap, s)
			}
		}
		out := make([]e1lib.Scenario, 0, len(scs))
		for len(cheap) > 0 || len(costly) > 0 {
			if len(costly) > 0 {
				out = append(out, costly[0])
				costly = costly[1:]
			}
			n := 23
			if n > len(cheap) {
				n = len(cheap)
			}
			out = append(out, cheap[:n]...)
			cheap = cheap[n:]
		}
		return out
	})
}
