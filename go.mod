module verif

go 1.25.7

toolchain go1.25.8

require (
	filippo.io/edwards25519 v1.2.0
	github.com/bits-and-blooms/bitset v1.24.4
	github.com/blinklabs-io/gouroboros v0.188.0
	github.com/blinklabs-io/ouroboros-mock v0.16.0
	github.com/blinklabs-io/plutigo v0.3.0
	github.com/btcsuite/btcd/btcec/v2 v2.5.0
	github.com/btcsuite/btcd/btcutil v1.2.0
	github.com/btcsuite/btcd/chaincfg/chainhash v1.2.0
	github.com/btcsuite/btcd/chainhash/v2 v2.0.0
	github.com/consensys/gnark-crypto v0.20.1
	github.com/decred/dcrd/crypto/blake256 v1.1.0
	github.com/decred/dcrd/dcrec/secp256k1/v4 v4.4.0
	github.com/fxamacker/cbor/v2 v2.9.2
	github.com/jinzhu/copier v0.4.0
	github.com/klauspost/cpuid/v2 v2.2.3
	github.com/kr/text v0.2.0
	github.com/minio/sha256-simd v1.0.1
	github.com/rogpeppe/go-internal v1.14.1
	github.com/stretchr/testify v1.12.0
	github.com/utxorpc/go-codegen v0.19.2
	github.com/x448/float16 v0.8.4
	go.uber.org/goleak v1.3.0
	golang.org/x/crypto v0.55.0
	golang.org/x/sys v0.47.0
	google.golang.org/protobuf v1.36.12
	gopkg.in/yaml.v3 v3.0.1
)

replace github.com/blinklabs-io/gouroboros => /repo
