package verifrt

// Step is the generic modelled operation used by the shim packages (vsync, vatomic,
// vcontext): a scheduling point that is enabled only when enabled() holds (evaluated by
// the scheduler while every goroutine is quiescent), followed by apply() executed under
// the runtime lock. apply's result is mixed into the happens-before hashes.
func Step(kind OpKind, pos string, o *Obj, enabled func() bool, apply func() uint64) {
	e := cur.Load()
	if e == nil {
		// outside a controlled execution (package initialisation): single-threaded, apply directly
		if enabled != nil && !enabled() {
			panic("verifrt: blocking synchronisation outside a controlled execution: " + pos)
		}
		if apply != nil {
			apply()
		}
		return
	}
	g := e.self()
	p := &op{kind: kind, pos: pos, obj: o, pc: callerPC(3)}
	if enabled != nil {
		p.enabled = func(*Exec) bool { return enabled() }
	}
	e.point(g, p)
	var x uint64
	if apply != nil {
		e.mu.Lock()
		x = apply()
		e.mu.Unlock()
	}
	e.done(g, p, x)
}

// InExec reports whether the caller runs inside a controlled execution.
func InExec() bool { return cur.Load() != nil }

// CloseTracked closes a shim-owned channel and records it as closed for the model.
func CloseTracked[T any](c chan T) { closeTracked(current(), c) }

// Self returns a stable identifier of the calling goroutine (its spawn path).
func Self() string { return current().self().path }
