// Package verifrt is the controlled scheduler ("engine E1") that runs the real,
// build-time instrumented goroutine code of gouroboros one step at a time inside a
// testing/synctest bubble. Every synchronisation operation of the instrumented code
// (channel send/receive/close/len, select, mutexes, wait groups, atomics, timers,
// context cancellation, connection reads and writes) first parks its goroutine at a
// *point*; the scheduler — the bubble's root goroutine — releases exactly one parked
// goroutine (or fires one virtual timer) at a time and uses synctest.Wait to learn when
// everything is quiescent again. Whether a released channel operation blocks is
// discovered, not predicted (DESIGN §9 interim mode): a goroutine found inside its
// operation after Wait is "blocked in a real operation" and continues when a later
// operation of another goroutine lets it. Which goroutine/alternative is taken at every
// decision comes from a Strategy, so the explorer (explore.go) can enumerate schedules.
//
// The package is mounted into the build at github.com/blinklabs-io/gouroboros/verifrt by
// a go build overlay; nothing of it exists in /repo.
package verifrt

import (
	"fmt"
	"hash/fnv"
	"reflect"
	"runtime"
	"sort"
	"strings"
	"sync"
	"sync/atomic"
	"testing"
	"testing/synctest"
	"time"
	"unsafe"
)

type gstate int

const (
	gRunning gstate = iota // released; either computing, or (after Wait) blocked in its operation
	gAtPoint               // parked before an operation, waiting for the scheduler
	gExited
)

// OpKind names the operation a goroutine is about to perform.
type OpKind int

const (
	OpStart OpKind = iota
	OpSend
	OpRecv
	OpClose
	OpLen
	OpSelect
	OpLock
	OpUnlock
	OpRLock
	OpRUnlock
	OpTryLock
	OpWgAdd
	OpWgWait
	OpOnce
	OpAtomic
	OpSleep
	OpTimer
	OpChoice
	OpConnRead
	OpConnWrite
	OpConnClose
	OpYield
	OpCancel
	OpResume
)

var opNames = []string{"start", "send", "recv", "close", "len", "select", "lock", "unlock", "rlock", "runlock", "trylock", "wgadd", "wgwait", "once", "atomic", "sleep", "timer", "choice", "connread", "connwrite", "connclose", "yield", "cancel", "resume"}

func (k OpKind) String() string { return opNames[k] }

// Obj is the scheduler-side record of one shared object (channel, mutex, …).
type Obj struct {
	hash   uint64
	closed bool // channels: closed through an instrumented close
	ref    any  // keeps the channel alive so its address is never reused within an execution
}

// selCase is one communication clause of a select.
type selCase struct {
	send bool
	ch   reflect.Value // may be a nil channel
	val  reflect.Value
	ptr  uintptr
	obj  *Obj
}

type op struct {
	kind    OpKind
	pos     string
	obj     *Obj
	chptr   uintptr
	sel     *Sel
	n       int                // OpChoice: number of answers
	enabled func(e *Exec) bool // nil = always enabled (blocking is discovered)
	wakeAt  time.Duration      // OpSleep/OpConnRead: virtual time at which it becomes enabled anyway (0 = none)
	pc      uintptr            // call site of shim operations (their pos is only the operation name)
	ph      uint64             // hash of pos, kind and pc (set when the goroutine parks)
}

func callerPC(skip int) uintptr {
	var pcs [1]uintptr
	if runtime.Callers(skip+1, pcs[:]) == 0 {
		return 0
	}
	return pcs[0]
}

func (o *op) where() string {
	if o.pc == 0 {
		return o.pos
	}
	f := runtime.FuncForPC(o.pc - 1)
	if f == nil {
		return o.pos
	}
	file, line := f.FileLine(o.pc - 1)
	if i := strings.LastIndex(file, "/"); i >= 0 {
		if j := strings.LastIndex(file[:i], "/"); j >= 0 {
			file = file[j+1:]
		}
	}
	return fmt.Sprintf("%s(%s:%d)", o.pos, file, line)
}

// G is one goroutine under the scheduler.
type G struct {
	id         int
	path       string // deterministic identity: parent path + "." + spawn index
	pathH      uint64
	name       string
	state      gstate
	inOp       bool // released into its operation and not yet through it
	op         *op
	wake       chan int // scheduler -> goroutine: the decision (alternative index)
	hash       uint64
	arrived    int64
	stamped    bool
	wasBlocked bool // found blocked inside its operation by the scheduler
	lazy       bool // scheduled only when no non-lazy goroutine is enabled (Config.Lazy)
	spawned    int
	exec       *Exec
}

// Verdict of one execution.
type Verdict struct {
	Kind   string // "ok", "deadlock", "horizon", "panic", "steps", "internal"
	Detail string
	Stuck  []string // who is stuck where (deadlock/horizon)
}

// Decision is one recorded decision point.
type Decision struct {
	N      int    // number of alternatives
	Chosen int    // index taken
	Key    uint64 // state key before the decision
	Label  string // what the canonical alternative was (debugging)
}

// Strategy supplies decisions.
type Strategy interface {
	// Next returns the index (0..n-1) to take at decision number i.
	Next(i, n int) int
}

// Exec is one controlled execution.
type Exec struct {
	mu        sync.Mutex
	gs        []*G
	byGoid    map[int64]*G
	seq       int64
	now       time.Duration
	timers    []*vtimer
	timerSeq  int
	objs      map[uintptr]*Obj
	abortCh   chan struct{}
	aborted   atomic.Bool
	strategy  Strategy
	Decisions []Decision
	lastRun   *G
	verdict   Verdict
	logs      []string
	logObj    Obj
	Horizon   time.Duration
	MaxSteps  int
	Steps     int

	Unmodelled    int // goroutines found blocked outside a modelled operation
	Divergences   int // model said ready/not ready and the runtime disagreed
	conns         []*Conn
	Trace         []string // filled when TraceOn
	TraceOn       bool
	objCount      uint64
	panicVal      string
	spawnCount    int
	mapDescending bool
	lazyNames     []string
	spawnByName   map[string]int
	exitedKey     uint64 // state-key contribution of goroutines that have exited (removed from gs)
	CollectKeys   bool
	invariant     func() string // evaluated by the scheduler in every quiescent state
	TimeJumps     bool          // offer 'a pending timer fires although goroutines are runnable' as an alternative
}

var cur atomic.Pointer[Exec]

func current() *Exec {
	e := cur.Load()
	if e == nil {
		panic("verifrt: instrumented code running outside a controlled execution")
	}
	return e
}

// Goroutine identity without parsing stack traces: the goroutine's profiler-label slot
// (copied to children by the runtime, overwritten by our spawn wrapper) holds the *G.
// CPU profiling must therefore not be enabled in controlled executions.
//
//go:linkname runtime_getProfLabel runtime/pprof.runtime_getProfLabel
func runtime_getProfLabel() unsafe.Pointer

//go:linkname runtime_setProfLabel runtime/pprof.runtime_setProfLabel
func runtime_setProfLabel(labels unsafe.Pointer)

func mix(a, b uint64) uint64 {
	x := a*0x9e3779b97f4a7c15 ^ (b + 0x632be59bd9b4e019 + (a << 6) + (a >> 2))
	x ^= x >> 29
	x *= 0xbf58476d1ce4e5b9
	x ^= x >> 32
	return x
}

func hstr(s string) uint64 {
	h := fnv.New64a()
	h.Write([]byte(s))
	return h.Sum64()
}

func (e *Exec) self() *G {
	g := (*G)(runtime_getProfLabel())
	if g == nil || g.exec != e {
		panic("verifrt: goroutine is not under the scheduler (spawned by uninstrumented code, or a stale execution)")
	}
	return g
}

type abortSentinel struct{}

// exitIfAborted ends the calling goroutine when the execution is being torn down.
func (e *Exec) exitIfAborted() {
	if e.aborted.Load() {
		runtime.Goexit()
	}
}

// point parks the calling goroutine before operation o and returns the scheduler's
// decision once released.
func (e *Exec) point(g *G, o *op) int {
	e.exitIfAborted()
	e.mu.Lock()
	if o.ph == 0 {
		o.ph = hstr(o.pos) ^ uint64(o.kind)<<56 ^ uint64(o.pc)*0x9e3779b1
	}
	g.op = o
	g.state = gAtPoint
	g.inOp = false
	g.stamped = false
	e.mu.Unlock()
	var d int
	select {
	case d = <-g.wake:
	case <-e.abortCh:
		runtime.Goexit()
	}
	return d
}

// done marks the released operation as completed and mixes the happens-before hashes.
// A goroutine that was found blocked inside the operation (and has now been let through
// by another goroutine's operation, a timer or a close) first parks at a "resume" point:
// at most one goroutine computes at any time, which keeps executions deterministic.
func (e *Exec) done(g *G, o *op, extra uint64) {
	e.mu.Lock()
	blocked := g.wasBlocked
	g.wasBlocked = false
	g.inOp = false
	e.mu.Unlock()
	if blocked {
		e.point(g, &op{kind: OpResume, pos: o.pos, pc: o.pc})
	}
	e.mu.Lock()
	g.inOp = false
	h := mix(g.hash, o.ph)
	if o.obj != nil {
		h = mix(h, o.obj.hash)
	}
	if extra != 0 {
		h = mix(h, extra)
	}
	g.hash = h
	if o.obj != nil {
		o.obj.hash = h
	}
	e.mu.Unlock()
	e.exitIfAborted()
}

// objFor returns the record for the shared object at address p, creating it on first touch.
func (e *Exec) objFor(p uintptr, ref any, g *G, pos string) *Obj {
	if p == 0 {
		return nil
	}
	e.mu.Lock()
	o := e.objs[p]
	if o == nil {
		o = &Obj{ref: ref, hash: mix(g.hash, hstr(pos))}
		e.objs[p] = o
	}
	e.mu.Unlock()
	return o
}

// Go starts fn as a goroutine under the scheduler.
func Go(pos string, fn func()) {
	e := cur.Load()
	if e == nil {
		// Outside a controlled execution (objects constructed while planning a scenario):
		// background goroutines of such objects are not started; they would otherwise
		// wander into a later execution without being under its scheduler.
		DroppedGo.Add(1)
		return
	}
	parent := e.self()
	e.spawn(parent, pos, fn)
}

func (e *Exec) spawn(parent *G, pos string, fn func()) *G {
	e.mu.Lock()
	e.spawnCount++
	g := &G{id: e.spawnCount, exec: e, wake: make(chan int), name: pos}
	if parent != nil {
		parent.spawned++
		g.path = fmt.Sprintf("%s.%d", parent.path, parent.spawned)
		g.hash = mix(parent.hash, hstr(pos))
		parent.hash = mix(parent.hash, hstr(pos)+1)
	} else {
		g.path = fmt.Sprintf("r%d", e.spawnCount-1)
		g.hash = hstr(pos)
	}
	g.pathH = hstr(g.path)
	if len(e.lazyNames) > 0 {
		if e.spawnByName == nil {
			e.spawnByName = map[string]int{}
		}
		k := e.spawnByName[pos]
		e.spawnByName[pos] = k + 1
		for _, ln := range e.lazyNames {
			if ln == pos || ln == fmt.Sprintf("%s#%d", pos, k) {
				g.lazy = true
			}
		}
	}
	g.state = gAtPoint
	g.op = &op{kind: OpStart, pos: pos, ph: hstr(pos)}
	e.gs = append(e.gs, g)
	e.mu.Unlock()
	ready := make(chan struct{})
	go func() {
		runtime_setProfLabel(unsafe.Pointer(g))
		close(ready)
		defer func() {
			if r := recover(); r != nil {
				if _, ok := r.(abortSentinel); !ok && !e.aborted.Load() {
					buf := make([]byte, 8192)
					buf = buf[:runtime.Stack(buf, false)]
					e.mu.Lock()
					if e.panicVal == "" {
						e.panicVal = fmt.Sprintf("%v\n%s", r, trimStack(string(buf)))
					}
					e.mu.Unlock()
				}
			}
			e.mu.Lock()
			g.state = gExited
			g.inOp = false
			e.mu.Unlock()
			runtime_setProfLabel(nil)
		}()
		select {
		case <-g.wake:
		case <-e.abortCh:
			return
		}
		e.mu.Lock()
		g.inOp = false
		e.mu.Unlock()
		fn()
	}()
	<-ready
	return g
}

func trimStack(s string) string {
	lines := strings.Split(s, "\n")
	var out []string
	for _, l := range lines {
		if strings.Contains(l, "/verifrt/") || strings.Contains(l, "runtime/panic.go") || strings.Contains(l, "/verif/rt/") {
			continue
		}
		out = append(out, l)
		if len(out) > 24 {
			break
		}
	}
	return strings.Join(out, "\n")
}

// Log appends an observation to the execution log. It is a conflicting operation on a
// scheduler-visible log object, so two linearisations that order logged observations
// differently are different states (DESIGN §2.3 rule ii). It does not yield.
func Log(format string, a ...any) {
	e := current()
	g := e.self()
	s := fmt.Sprintf(format, a...)
	e.mu.Lock()
	e.logs = append(e.logs, s)
	h := mix(mix(g.hash, e.logObj.hash), hstr(s))
	g.hash = h
	e.logObj.hash = h
	e.mu.Unlock()
}

// Logs returns the observations logged so far.
func (e *Exec) Logs() []string {
	e.mu.Lock()
	defer e.mu.Unlock()
	return append([]string(nil), e.logs...)
}

// Now returns the virtual time elapsed since the start of the execution.
func (e *Exec) Now() time.Duration {
	e.mu.Lock()
	defer e.mu.Unlock()
	return e.now
}

// SetInvariant installs a state invariant that the scheduler evaluates in every quiescent
// state (all goroutines parked or blocked). It must only read, without synchronisation.
func SetInvariant(f func() string) {
	e := current()
	e.mu.Lock()
	e.invariant = f
	e.mu.Unlock()
}

// SetMapDescending makes every instrumented map iteration of this execution run in
// descending key order instead of ascending (both are legal Go behaviours).
func SetMapDescending(on bool) {
	e := current()
	e.mu.Lock()
	e.mapDescending = on
	e.mu.Unlock()
}

// Yield is an explicit scheduling point (used by harness code in polling loops).
func Yield(pos string) {
	e := current()
	g := e.self()
	o := &op{kind: OpYield, pos: pos}
	e.point(g, o)
	e.done(g, o, 0)
}

// Choice is an environment answer owned by the scheduler: 0 is the default answer,
// every other answer costs one deviation.
func Choice(pos string, n int) int {
	if n <= 1 {
		return 0
	}
	e := cur.Load()
	if e == nil {
		return 0
	}
	g := e.self()
	o := &op{kind: OpChoice, pos: pos, n: n}
	d := e.point(g, o)
	e.done(g, o, uint64(d)+1)
	return d
}

// candidate is one alternative at a decision point.
type candidate struct {
	g     *G
	alt   int // select case index / choice answer / -1 default / -2 block
	timer *vtimer
	jump  bool // advance the clock to the timer's deadline first
	label string
}

const (
	altDefault = -1
	altBlock   = -2
)

func (e *Exec) stateKey() uint64 {
	// order-independent combination (sum) of per-goroutine contributions: the key of a
	// state is the multiset of (identity, history hash, control point) plus clock and timers
	h := mix(uint64(e.now)+0x1234567, 0x51) + e.exitedKey
	for _, g := range e.gs {
		v := g.hash ^ uint64(g.state)<<60
		if g.inOp {
			v ^= 0x5555
		}
		if g.state != gExited && g.op != nil {
			v = mix(v, g.op.ph)
		}
		h += mix(g.pathH, v)
	}
	for _, t := range e.timers {
		if t.active {
			h += mix(uint64(t.deadline), t.idh)
		}
	}
	return h
}

// collect lists the enabled alternatives in canonical order: the goroutine that ran
// last first, then the others by arrival at their point, then due timers.
func (e *Exec) collect() []candidate {
	var gs []*G
	for _, g := range e.gs {
		if g.state == gAtPoint {
			gs = append(gs, g)
		}
	}
	sort.Slice(gs, func(i, j int) bool {
		if gs[i].lazy != gs[j].lazy {
			return !gs[i].lazy
		}
		if (gs[i] == e.lastRun) != (gs[j] == e.lastRun) {
			return gs[i] == e.lastRun
		}
		return gs[i].arrived < gs[j].arrived
	})
	var out []candidate
	for _, g := range gs {
		o := g.op
		if o.enabled != nil && !o.enabled(e) {
			if o.wakeAt == 0 || e.now < o.wakeAt {
				continue
			}
		}
		switch o.kind {
		case OpSelect:
			ready := o.sel.readyCases(e)
			if len(ready) == 0 {
				if o.sel.hasDefault {
					out = append(out, candidate{g: g, alt: altDefault})
				} else {
					out = append(out, candidate{g: g, alt: altBlock})
				}
			}
			for _, k := range ready {
				out = append(out, candidate{g: g, alt: k})
			}
		case OpChoice:
			for k := 0; k < o.n; k++ {
				out = append(out, candidate{g: g, alt: k})
			}
		default:
			out = append(out, candidate{g: g})
		}
	}
	var due []*vtimer
	for _, t := range e.timers {
		if t.active && t.deadline <= e.now {
			due = append(due, t)
		}
	}
	sort.Slice(due, func(i, j int) bool {
		if due[i].deadline != due[j].deadline {
			return due[i].deadline < due[j].deadline
		}
		return due[i].seq < due[j].seq
	})
	for _, t := range due {
		out = append(out, candidate{timer: t})
	}
	if e.TimeJumps && len(out) > 0 {
		// a slow goroutine: the earliest pending timer fires before anything else runs
		var best *vtimer
		for _, t := range e.timers {
			if t.active && t.deadline > e.now && (best == nil || t.deadline < best.deadline || (t.deadline == best.deadline && t.seq < best.seq)) {
				best = t
			}
		}
		if best != nil {
			out = append(out, candidate{timer: best, jump: true})
		}
	}
	return out
}

// nextWake returns the earliest virtual time at which something can become enabled.
func (e *Exec) nextWake() (time.Duration, bool) {
	var best time.Duration
	ok := false
	upd := func(d time.Duration) {
		if !ok || d < best {
			best, ok = d, true
		}
	}
	for _, t := range e.timers {
		if t.active {
			upd(t.deadline)
		}
	}
	for _, g := range e.gs {
		if g.state == gAtPoint && g.op.wakeAt > e.now {
			upd(g.op.wakeAt)
		}
	}
	return best, ok
}

func (e *Exec) describeStuck() []string {
	var out []string
	for _, g := range e.gs {
		switch {
		case g.state == gExited:
		case g.state == gAtPoint:
			out = append(out, fmt.Sprintf("%s[%s] waiting (disabled) before %s at %s", g.path, g.name, g.op.kind, g.op.where()))
		case g.inOp:
			out = append(out, fmt.Sprintf("%s[%s] blocked in %s at %s", g.path, g.name, g.op.kind, g.op.where()))
		default:
			out = append(out, fmt.Sprintf("%s[%s] blocked in an unmodelled operation after %s at %s", g.path, g.name, g.op.kind, g.op.where()))
		}
	}
	return out
}

// loop is the scheduler. It runs in the bubble's root goroutine.
func (e *Exec) loop() {
	for {
		spinEnter()
		synctest.Wait()
		spinLeave()
		e.mu.Lock()
		if e.panicVal != "" {
			e.verdict = Verdict{Kind: "panic", Detail: e.panicVal}
			e.mu.Unlock()
			return
		}
		// goroutines that have exited leave the scan list; their contribution to the state
		// key is kept in exitedKey
		if n := len(e.gs); n > 0 {
			live := e.gs[:0]
			for _, g := range e.gs {
				if g.state == gExited {
					e.exitedKey += mix(g.pathH, g.hash^uint64(gExited)<<60)
					continue
				}
				live = append(live, g)
			}
			for i := len(live); i < n; i++ {
				e.gs[i] = nil
			}
			e.gs = live
		}
		for _, g := range e.gs {
			switch {
			case g.state == gRunning && !g.inOp:
				e.Unmodelled++
			case g.state == gRunning && g.inOp:
				g.wasBlocked = true
			case g.state == gAtPoint && !g.stamped:
				// arrival order is assigned here, in goroutine creation order, so that it
				// does not depend on how the Go runtime interleaved the last computations
				g.stamped = true
				e.seq++
				g.arrived = e.seq
			}
		}
		if e.invariant != nil {
			if msg := e.invariant(); msg != "" {
				e.verdict = Verdict{Kind: "invariant", Detail: msg}
				e.mu.Unlock()
				return
			}
		}
		cands := e.collect()
		if len(cands) == 0 {
			if t, ok := e.nextWake(); ok && t > e.now {
				if e.Horizon > 0 && t > e.Horizon {
					e.verdict = Verdict{Kind: "horizon", Detail: fmt.Sprintf("virtual time horizon %v reached", e.Horizon), Stuck: e.describeStuck()}
					e.mu.Unlock()
					return
				}
				e.now = t
				e.mu.Unlock()
				continue
			}
			alive := false
			for _, g := range e.gs {
				if g.state != gExited {
					alive = true
				}
			}
			if alive {
				e.verdict = Verdict{Kind: "deadlock", Detail: "no enabled transition", Stuck: e.describeStuck()}
			} else {
				e.verdict = Verdict{Kind: "ok"}
			}
			e.mu.Unlock()
			return
		}
		e.Steps++
		if e.MaxSteps > 0 && e.Steps > e.MaxSteps {
			e.verdict = Verdict{Kind: "steps", Detail: fmt.Sprintf("step budget %d exhausted", e.MaxSteps), Stuck: e.describeStuck()}
			e.mu.Unlock()
			return
		}
		i := len(e.Decisions)
		var key uint64
		if e.CollectKeys {
			key = e.stateKey()
		}
		k := 0
		if len(cands) > 1 {
			k = e.strategy.Next(i, len(cands))
			if k < 0 || k >= len(cands) {
				e.verdict = Verdict{Kind: "internal", Detail: fmt.Sprintf("replay divergence: decision %d has %d alternatives, strategy asked for %d", i, len(cands), k)}
				e.mu.Unlock()
				return
			}
		} else {
			// still consume the decision index so prefixes stay aligned
			_ = e.strategy.Next(i, 1)
		}
		c := cands[k]
		e.Decisions = append(e.Decisions, Decision{N: len(cands), Chosen: k, Key: key})
		if e.TraceOn {
			e.Trace = append(e.Trace, e.describe(c, len(cands), k))
		}
		if c.timer != nil {
			t := c.timer
			if c.jump && t.deadline > e.now {
				e.now = t.deadline
			}
			e.mu.Unlock()
			e.fire(t)
			continue
		}
		g := c.g
		g.state = gRunning
		g.inOp = true
		g.wasBlocked = false
		e.lastRun = g
		spin.g.Store(g)
		e.mu.Unlock()
		g.wake <- c.alt
	}
}

func (e *Exec) describe(c candidate, n, k int) string {
	if c.timer != nil {
		return fmt.Sprintf("[%d/%d] t=%v fire timer %s", k, n, e.now, c.timer.pos)
	}
	s := fmt.Sprintf("[%d/%d] t=%v %s %s@%s", k, n, e.now, c.g.path, c.g.op.kind, c.g.op.where())
	if c.g.op.kind == OpSelect || c.g.op.kind == OpChoice {
		s += fmt.Sprintf(" alt=%d", c.alt)
	}
	return s
}

// Result is what one execution produced.
type Result struct {
	Verdict     Verdict
	Decisions   []Decision
	Logs        []string
	Trace       []string
	Steps       int
	Unmodelled  int
	Divergences int
	End         time.Duration
}

// RunOnce runs body as the first goroutine of a fresh controlled execution.
func RunOnce(t *testing.T, s Strategy, cfg Config, body func()) *Result {
	var res *Result
	synctest.Test(t, func(t *testing.T) {
		e := &Exec{
			byGoid:      map[int64]*G{},
			objs:        map[uintptr]*Obj{},
			abortCh:     make(chan struct{}),
			strategy:    s,
			Horizon:     cfg.Horizon,
			MaxSteps:    cfg.MaxSteps,
			TraceOn:     cfg.Trace,
			CollectKeys: cfg.Keys,
			TimeJumps:   cfg.TimeJumps,
			lazyNames:   cfg.Lazy,
		}
		if e.MaxSteps == 0 {
			e.MaxSteps = 200000
		}
		cur.Store(e)
		e.spawn(nil, "main", body)
		e.loop()
		// tear down whatever is left
		e.aborted.Store(true)
		close(e.abortCh)
		spinEnter()
		synctest.Wait()
		spinLeave()
		e.mu.Lock()
		left := 0
		for _, g := range e.gs {
			if g.state != gExited {
				left++
			}
		}
		res = &Result{Verdict: e.verdict, Decisions: e.Decisions, Logs: e.logs, Trace: e.Trace, Steps: e.Steps,
			Unmodelled: e.Unmodelled, Divergences: e.Divergences, End: e.now}
		e.mu.Unlock()
		cur.Store(nil)
		if left > 0 {
			res.Verdict.Detail += fmt.Sprintf(" [teardown left %d goroutines]", left)
			Poisoned.Store(true)
		}
	})
	return res
}

// DroppedGo counts goroutines not started because they were spawned outside an execution.
var DroppedGo atomic.Int64

// Poisoned is set when an execution could not be torn down completely; the worker
// process should finish reporting and exit.
var Poisoned atomic.Bool

// Config of one execution.
type Config struct {
	Horizon   time.Duration
	MaxSteps  int
	Trace     bool
	Keys      bool
	TimeJumps bool
	// Lazy names goroutines (spawn position, optionally with "#<k>" = k-th goroutine spawned at that
	// position, counting from 0) that the canonical schedule runs only when nothing else is enabled: a
	// different zero-deviation schedule (a slow worker), not a restriction — every other order is still
	// reachable by deviations.
	Lazy []string
}
