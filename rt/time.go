package verifrt

import (
	"time"
)

// Epoch is the wall-clock value of virtual time zero.
var Epoch = time.Date(2030, 1, 1, 0, 0, 0, 0, time.UTC)

type vtimer struct {
	pos      string
	idh      uint64
	seq      int
	deadline time.Duration
	period   time.Duration
	active   bool
	c        chan time.Time
	fn       func()
	obj      Obj
}

// VNow is the virtual wall clock.
func VNow() time.Time {
	e := cur.Load()
	if e == nil {
		return Epoch
	}
	e.mu.Lock()
	defer e.mu.Unlock()
	return Epoch.Add(e.now)
}

func (e *Exec) newTimer(pos string, d, period time.Duration, fn func()) *vtimer {
	g := e.self()
	e.mu.Lock()
	e.timerSeq++
	t := &vtimer{pos: pos, seq: e.timerSeq, deadline: e.now + d, period: period, active: true, fn: fn}
	t.idh = mix(g.hash, hstr(pos))
	t.obj.hash = t.idh
	g.hash = mix(g.hash, t.idh+1)
	if fn == nil {
		t.c = make(chan time.Time, 1)
	}
	if d < 0 {
		t.deadline = e.now
	}
	e.timers = append(e.timers, t)
	e.mu.Unlock()
	return t
}

// fire runs in the scheduler goroutine.
func (e *Exec) fire(t *vtimer) {
	e.mu.Lock()
	if !t.active {
		e.mu.Unlock()
		return
	}
	if t.period > 0 {
		t.deadline += t.period
	} else {
		t.active = false
	}
	now := Epoch.Add(e.now)
	t.obj.hash = mix(t.obj.hash, 0xf1)
	e.mu.Unlock()
	if t.fn != nil {
		fn := t.fn
		e.spawnFromTimer(t, fn)
		return
	}
	select {
	case t.c <- now:
	default:
	}
}

func (e *Exec) spawnFromTimer(t *vtimer, fn func()) {
	// the callback goroutine's identity derives from the timer, not from a parent goroutine
	pg := &G{path: "t" + t.pos, hash: t.obj.hash}
	e.mu.Lock()
	t.obj.hash = mix(t.obj.hash, 0xaf)
	pg.spawned = int(t.obj.hash & 0xffff)
	e.mu.Unlock()
	e.spawn(pg, "afterfunc@"+t.pos, fn)
}

// timerOp is the scheduling point shared by Stop and Reset.
func (e *Exec) timerOp(t *vtimer, pos string, reset bool, d time.Duration) bool {
	g := e.self()
	o := &op{kind: OpTimer, pos: pos, obj: &t.obj, pc: callerPC(4)}
	e.point(g, o)
	e.mu.Lock()
	was := t.active
	if t.c != nil {
		// Go >= 1.23 semantics: a fired but unreceived value is discarded and counts as pending
		select {
		case <-t.c:
			was = true
		default:
		}
	}
	if reset {
		t.active = true
		t.deadline = e.now + d
	} else {
		t.active = false
	}
	e.mu.Unlock()
	x := uint64(1)
	if was {
		x = 2
	}
	e.done(g, o, x)
	return was
}

// Timer API used by the vtime shim.

type TimerHandle struct{ t *vtimer }

func NewTimerAt(pos string, d time.Duration) (TimerHandle, <-chan time.Time) {
	e := cur.Load()
	if e == nil {
		// outside a controlled execution (object construction while planning): an inert timer
		t := &vtimer{pos: pos, c: make(chan time.Time, 1)}
		return TimerHandle{t}, t.c
	}
	t := e.newTimer(pos, d, 0, nil)
	return TimerHandle{t}, t.c
}

func NewTickerAt(pos string, d time.Duration) (TimerHandle, <-chan time.Time) {
	e := cur.Load()
	if e == nil {
		t := &vtimer{pos: pos, c: make(chan time.Time, 1)}
		return TimerHandle{t}, t.c
	}
	t := e.newTimer(pos, d, d, nil)
	return TimerHandle{t}, t.c
}

func AfterFuncAt(pos string, d time.Duration, fn func()) TimerHandle {
	e := cur.Load()
	if e == nil {
		return TimerHandle{&vtimer{pos: pos}}
	}
	return TimerHandle{e.newTimer(pos, d, 0, fn)}
}

func (h TimerHandle) Stop(pos string) bool {
	e := cur.Load()
	if e == nil {
		return false
	}
	return e.timerOp(h.t, pos, false, 0)
}
func (h TimerHandle) Reset(pos string, d time.Duration) bool {
	e := cur.Load()
	if e == nil {
		return false
	}
	return e.timerOp(h.t, pos, true, d)
}

// SleepFor parks the goroutine until virtual time has advanced by d.
func SleepFor(pos string, d time.Duration) {
	e := cur.Load()
	if e == nil {
		return
	}
	g := e.self()
	e.mu.Lock()
	at := e.now + d
	e.mu.Unlock()
	o := &op{kind: OpSleep, pos: pos, wakeAt: at, pc: callerPC(3)}
	o.enabled = func(e *Exec) bool { return e.now >= at }
	if d <= 0 {
		o.enabled = nil
		o.wakeAt = 0
	}
	e.point(g, o)
	e.done(g, o, 0)
}
