// Package vtime is the drop-in for package time inside instrumented packages: the same
// names, backed by the scheduler's virtual clock.
package vtime

import (
	"time"

	rt "github.com/blinklabs-io/gouroboros/verifrt"
)

type (
	Duration = time.Duration
	Time     = time.Time
	Month    = time.Month
	Location = time.Location
)

const (
	Nanosecond  = time.Nanosecond
	Microsecond = time.Microsecond
	Millisecond = time.Millisecond
	Second      = time.Second
	Minute      = time.Minute
	Hour        = time.Hour
	RFC3339     = time.RFC3339
	RFC3339Nano = time.RFC3339Nano
)

var UTC = time.UTC

func Now() Time                                { return rt.VNow() }
func Since(t Time) Duration                    { return rt.VNow().Sub(t) }
func Until(t Time) Duration                    { return t.Sub(rt.VNow()) }
func Unix(sec int64, nsec int64) Time          { return time.Unix(sec, nsec) }
func UnixMilli(msec int64) Time                { return time.UnixMilli(msec) }
func ParseDuration(s string) (Duration, error) { return time.ParseDuration(s) }
func Date(year int, month Month, day, hour, min, sec, nsec int, loc *Location) Time {
	return time.Date(year, month, day, hour, min, sec, nsec, loc)
}
func Sleep(d Duration) { rt.SleepFor("time.Sleep", d) }

type Timer struct {
	C <-chan Time
	h rt.TimerHandle
}

func NewTimer(d Duration) *Timer {
	h, c := rt.NewTimerAt("time.NewTimer", d)
	return &Timer{C: c, h: h}
}
func (t *Timer) Stop() bool            { return t.h.Stop("Timer.Stop") }
func (t *Timer) Reset(d Duration) bool { return t.h.Reset("Timer.Reset", d) }

func After(d Duration) <-chan Time {
	_, c := rt.NewTimerAt("time.After", d)
	return c
}

func AfterFunc(d Duration, f func()) *Timer {
	h := rt.AfterFuncAt("time.AfterFunc", d, f)
	return &Timer{h: h}
}

type Ticker struct {
	C <-chan Time
	h rt.TimerHandle
}

func NewTicker(d Duration) *Ticker {
	if d <= 0 {
		panic("non-positive interval for NewTicker")
	}
	h, c := rt.NewTickerAt("time.NewTicker", d)
	return &Ticker{C: c, h: h}
}
func (t *Ticker) Stop()            { t.h.Stop("Ticker.Stop") }
func (t *Ticker) Reset(d Duration) { t.h.Reset("Ticker.Reset", d) }
func Tick(d Duration) <-chan Time  { return NewTicker(d).C }
