// Package vcontext is the drop-in for package context inside instrumented packages and
// harnesses: cancellation closes a channel the scheduler tracks, timeouts are virtual
// timers.
package vcontext

import (
	"context"
	"time"

	rt "github.com/blinklabs-io/gouroboros/verifrt"
)

type (
	Context    = context.Context
	CancelFunc = context.CancelFunc
)

var (
	Canceled         = context.Canceled
	DeadlineExceeded = context.DeadlineExceeded
)

func Background() Context { return context.Background() }
func TODO() Context       { return context.TODO() }

type vctx struct {
	parent   Context
	o        rt.Obj
	done     chan struct{}
	err      error
	children []*vctx
	deadline time.Time
	hasDL    bool
	timer    rt.TimerHandle
	hasTimer bool
}

func (c *vctx) Deadline() (time.Time, bool) {
	if c.hasDL {
		return c.deadline, true
	}
	return c.parent.Deadline()
}
func (c *vctx) Done() <-chan struct{} { return c.done }
func (c *vctx) Err() error {
	var err error
	rt.Step(rt.OpAtomic, "Context.Err", &c.o, nil, func() uint64 {
		err = c.err
		if err != nil {
			return 2
		}
		return 1
	})
	return err
}
func (c *vctx) Value(key any) any { return c.parent.Value(key) }

// cancel marks the context (and its descendants) cancelled; runs under the runtime lock.
func (c *vctx) cancelLocked(err error, closeList *[]chan struct{}) {
	if c.err != nil {
		return
	}
	c.err = err
	*closeList = append(*closeList, c.done)
	for _, ch := range c.children {
		ch.cancelLocked(err, closeList)
	}
}

func (c *vctx) cancel(err error, pos string) {
	var list []chan struct{}
	rt.Step(rt.OpCancel, pos, &c.o, nil, func() uint64 {
		c.cancelLocked(err, &list)
		return uint64(len(list)) + 1
	})
	for _, ch := range list {
		rt.CloseTracked(ch)
	}
}

func newCtx(parent Context) *vctx {
	c := &vctx{parent: parent, done: make(chan struct{})}
	if p, ok := parent.(*vctx); ok {
		already := false
		rt.Step(rt.OpAtomic, "Context.child", &p.o, nil, func() uint64 {
			if p.err != nil {
				already = true
				c.err = p.err
				return 2
			}
			p.children = append(p.children, c)
			return 1
		})
		if already {
			rt.CloseTracked(c.done)
		}
	} else if parent.Done() != nil {
		panic("vcontext: parent context created outside the shim is cancellable; wrap it with vcontext")
	}
	return c
}

func WithCancel(parent Context) (Context, CancelFunc) {
	c := newCtx(parent)
	return c, func() { c.cancel(Canceled, "CancelFunc") }
}

func WithTimeout(parent Context, d time.Duration) (Context, CancelFunc) {
	return WithDeadline(parent, rt.VNow().Add(d))
}

func WithDeadline(parent Context, t time.Time) (Context, CancelFunc) {
	c := newCtx(parent)
	c.deadline, c.hasDL = t, true
	d := t.Sub(rt.VNow())
	c.timer = rt.AfterFuncAt("context.deadline", d, func() { c.cancel(DeadlineExceeded, "context.deadline") })
	c.hasTimer = true
	return c, func() {
		c.cancel(Canceled, "CancelFunc")
		c.timer.Stop("context.stopTimer")
	}
}

func WithValue(parent Context, key, val any) Context { return context.WithValue(parent, key, val) }
func Cause(c Context) error                          { return c.Err() }
