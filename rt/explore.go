package verifrt

import (
	"fmt"
	"syscall"
	"testing"
	"time"
)

// prefixStrategy replays a list of choices and then always takes alternative 0.
type prefixStrategy struct{ prefix []int }

func (p *prefixStrategy) Next(i, n int) int {
	if i < len(p.prefix) {
		return p.prefix[i]
	}
	return 0
}

// Explorer enumerates the schedules (and environment answers) of one harness body with
// at most Bound deviations from the canonical schedule, pruning states whose
// happens-before key was already expanded with at least as much remaining budget.
type Explorer struct {
	T        *testing.T
	Cfg      Config
	Body     func()
	Check    func(r *Result) []Finding // oracle, evaluated on every execution
	Bound    int
	NoCache  bool
	Deadline time.Time
	// CPUDeadline, if non-zero, is compared with the process CPU time (user+system): a
	// budget that does not shrink when the machine is loaded.
	CPUDeadline time.Duration
	MaxExecs    int64

	// statistics
	Execs       int64
	States      int64 // distinct state keys expanded
	Transitions int64 // decisions taken over all executions
	CacheHits   int64
	BoundCuts   int64 // alternatives not taken because the deviation bound was reached (0 = the search was exhaustive)
	Capped      bool
	Outcomes    map[string]int64 // distinct oracle-visible outcomes (verdict kind + logs)
	Findings    []Finding
	MaxDecs     int
	Unmodelled  int
	Divergences int
	Internal    []string

	seen map[uint64]int // state key -> largest remaining budget it was expanded with
}

// Finding is one oracle violation together with the schedule that produced it.
type Finding struct {
	Key     string
	What    string
	Choices []int
	Logs    []string
	Trace   []string
}

func (x *Explorer) Run() {
	x.seen = map[uint64]int{}
	if x.Outcomes == nil {
		x.Outcomes = map[string]int64{}
	}
	x.Cfg.Keys = !x.NoCache
	x.explore(nil, 0)
}

func outcomeOf(r *Result) string {
	h := hstr(r.Verdict.Kind)
	for _, l := range r.Logs {
		h = mix(h, hstr(l))
	}
	return fmt.Sprintf("%s/%x", r.Verdict.Kind, h)
}

func (x *Explorer) stop() bool {
	if x.Capped {
		return true
	}
	if x.MaxExecs > 0 && x.Execs >= x.MaxExecs {
		x.Capped = true
		return true
	}
	if !x.Deadline.IsZero() && x.Execs%16 == 0 && time.Now().After(x.Deadline) {
		x.Capped = true
		return true
	}
	if x.CPUDeadline > 0 && x.Execs%16 == 0 && ProcessCPU() > x.CPUDeadline {
		x.Capped = true
		return true
	}
	return Poisoned.Load()
}

func (x *Explorer) explore(prefix []int, used int) {
	if x.stop() {
		return
	}
	r := RunOnce(x.T, &prefixStrategy{prefix}, x.Cfg, x.Body)
	x.Execs++
	x.Transitions += int64(len(r.Decisions) - len(prefix))
	if len(r.Decisions) > x.MaxDecs {
		x.MaxDecs = len(r.Decisions)
	}
	x.Unmodelled += r.Unmodelled
	x.Divergences += r.Divergences
	if r.Verdict.Kind == "internal" {
		x.Internal = append(x.Internal, fmt.Sprintf("%s (prefix %v)", r.Verdict.Detail, prefix))
		return
	}
	x.Outcomes[outcomeOf(r)]++
	if x.Check != nil {
		for _, f := range x.Check(r) {
			dup := false
			for _, g := range x.Findings {
				if g.Key == f.Key {
					dup = true
					break
				}
			}
			if !dup {
				f.Choices = choicesOf(r)
				f.Logs = r.Logs
				x.Findings = append(x.Findings, f)
			}
		}
	}
	// branch on every later decision of this execution
	u := used
	for i := len(prefix); i < len(r.Decisions); i++ {
		d := r.Decisions[i]
		if !x.NoCache {
			rem := x.Bound - u
			if old, ok := x.seen[d.Key]; ok && old >= rem {
				x.CacheHits++
				return // everything reachable from here was (or is being) covered
			}
			if _, ok := x.seen[d.Key]; !ok {
				x.States++
			}
			x.seen[d.Key] = rem
		}
		if d.N > 1 && u+1 > x.Bound {
			x.BoundCuts += int64(d.N - 1)
		}
		if d.N > 1 && u+1 <= x.Bound {
			base := make([]int, i, i+1)
			for j := 0; j < i; j++ {
				base[j] = r.Decisions[j].Chosen
			}
			for alt := 1; alt < d.N; alt++ {
				x.explore(append(base[:i:i], alt), u+1)
				if x.stop() {
					return
				}
			}
		}
		if d.Chosen != 0 {
			u++ // cannot happen beyond the prefix, kept for clarity
		}
	}
}

func choicesOf(r *Result) []int {
	out := make([]int, len(r.Decisions))
	for i, d := range r.Decisions {
		out[i] = d.Chosen
	}
	// trim trailing zeros: the canonical continuation
	n := len(out)
	for n > 0 && out[n-1] == 0 {
		n--
	}
	return out[:n]
}

// Replay runs one recorded schedule with tracing on.
func Replay(t *testing.T, cfg Config, body func(), choices []int) *Result {
	cfg.Trace = true
	return RunOnce(t, &prefixStrategy{choices}, cfg, body)
}

// ProcessCPU returns the CPU time (user+system) consumed by this process so far.
func ProcessCPU() time.Duration {
	var ru syscall.Rusage
	if syscall.Getrusage(syscall.RUSAGE_SELF, &ru) != nil {
		return 0
	}
	return time.Duration(ru.Utime.Nano() + ru.Stime.Nano())
}
