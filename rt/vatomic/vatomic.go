// Package vatomic is the drop-in for sync/atomic inside instrumented packages: every
// operation is a scheduling point.
package vatomic

import (
	rt "github.com/blinklabs-io/gouroboros/verifrt"
)

type Int64 struct {
	o rt.Obj
	v int64
}

func (a *Int64) Load() (r int64) {
	rt.Step(rt.OpAtomic, "Int64.Load", &a.o, nil, func() uint64 { r = a.v; return uint64(r) + 1 })
	return
}
func (a *Int64) Store(v int64) {
	rt.Step(rt.OpAtomic, "Int64.Store", &a.o, nil, func() uint64 { a.v = v; return 0 })
}
func (a *Int64) Add(d int64) (r int64) {
	rt.Step(rt.OpAtomic, "Int64.Add", &a.o, nil, func() uint64 { a.v += d; r = a.v; return uint64(r) + 1 })
	return
}
func (a *Int64) Swap(v int64) (r int64) {
	rt.Step(rt.OpAtomic, "Int64.Swap", &a.o, nil, func() uint64 { r = a.v; a.v = v; return uint64(r) + 1 })
	return
}
func (a *Int64) CompareAndSwap(old, new int64) (ok bool) {
	rt.Step(rt.OpAtomic, "Int64.CAS", &a.o, nil, func() uint64 {
		if a.v == old {
			a.v, ok = new, true
			return 2
		}
		return 1
	})
	return
}

type Uint64 struct {
	o rt.Obj
	v uint64
}

func (a *Uint64) Load() (r uint64) {
	rt.Step(rt.OpAtomic, "Uint64.Load", &a.o, nil, func() uint64 { r = a.v; return r + 1 })
	return
}
func (a *Uint64) Store(v uint64) {
	rt.Step(rt.OpAtomic, "Uint64.Store", &a.o, nil, func() uint64 { a.v = v; return 0 })
}
func (a *Uint64) Add(d uint64) (r uint64) {
	rt.Step(rt.OpAtomic, "Uint64.Add", &a.o, nil, func() uint64 { a.v += d; r = a.v; return r + 1 })
	return
}
func (a *Uint64) Swap(v uint64) (r uint64) {
	rt.Step(rt.OpAtomic, "Uint64.Swap", &a.o, nil, func() uint64 { r = a.v; a.v = v; return r + 1 })
	return
}
func (a *Uint64) CompareAndSwap(old, new uint64) (ok bool) {
	rt.Step(rt.OpAtomic, "Uint64.CAS", &a.o, nil, func() uint64 {
		if a.v == old {
			a.v, ok = new, true
			return 2
		}
		return 1
	})
	return
}

type Int32 struct {
	o rt.Obj
	v int32
}

func (a *Int32) Load() (r int32) {
	rt.Step(rt.OpAtomic, "Int32.Load", &a.o, nil, func() uint64 { r = a.v; return uint64(r) + 1 })
	return
}
func (a *Int32) Store(v int32) {
	rt.Step(rt.OpAtomic, "Int32.Store", &a.o, nil, func() uint64 { a.v = v; return 0 })
}
func (a *Int32) Add(d int32) (r int32) {
	rt.Step(rt.OpAtomic, "Int32.Add", &a.o, nil, func() uint64 { a.v += d; r = a.v; return uint64(r) + 1 })
	return
}

type Bool struct {
	o rt.Obj
	v bool
}

func b2u(b bool) uint64 {
	if b {
		return 2
	}
	return 1
}
func (a *Bool) Load() (r bool) {
	rt.Step(rt.OpAtomic, "Bool.Load", &a.o, nil, func() uint64 { r = a.v; return b2u(r) })
	return
}
func (a *Bool) Store(v bool) {
	rt.Step(rt.OpAtomic, "Bool.Store", &a.o, nil, func() uint64 { a.v = v; return 0 })
}
func (a *Bool) Swap(v bool) (r bool) {
	rt.Step(rt.OpAtomic, "Bool.Swap", &a.o, nil, func() uint64 { r = a.v; a.v = v; return b2u(r) })
	return
}
func (a *Bool) CompareAndSwap(old, new bool) (ok bool) {
	rt.Step(rt.OpAtomic, "Bool.CAS", &a.o, nil, func() uint64 {
		if a.v == old {
			a.v, ok = new, true
			return 2
		}
		return 1
	})
	return
}

type Value struct {
	o rt.Obj
	v any
}

func (a *Value) Load() (r any) {
	rt.Step(rt.OpAtomic, "Value.Load", &a.o, nil, func() uint64 { r = a.v; return 0 })
	return
}
func (a *Value) Store(v any) {
	if v == nil {
		panic("sync/atomic: store of nil value into Value")
	}
	rt.Step(rt.OpAtomic, "Value.Store", &a.o, nil, func() uint64 { a.v = v; return 0 })
}

type Pointer[T any] struct {
	o rt.Obj
	v *T
}

func (a *Pointer[T]) Load() (r *T) {
	rt.Step(rt.OpAtomic, "Pointer.Load", &a.o, nil, func() uint64 { r = a.v; return 0 })
	return
}
func (a *Pointer[T]) Store(v *T) {
	rt.Step(rt.OpAtomic, "Pointer.Store", &a.o, nil, func() uint64 { a.v = v; return 0 })
}
