package verifrt

import (
	"io"
	"net"
	"os"
	"time"
)

// Conn is one end of an in-memory duplex connection whose reads, writes, closes and
// read deadlines are owned by the scheduler. Read may return a strict prefix of the
// available bytes and Write may be delivered in two chunks; both are environment
// answers that cost one deviation (the default is a full read and an atomic write).
type Conn struct {
	name     string
	peer     *Conn
	o        Obj
	buf      []byte // bytes written by the peer and not yet read
	closed   bool   // this end closed locally
	peerGone bool   // the peer closed its end
	rdl      time.Duration
	hasRdl   bool
	Frag     bool // offer short reads / split writes as alternatives
	Wrote    int  // bytes written by this end (for harness assertions)
	ReadN    int  // bytes read by this end
}

type vaddr string

func (a vaddr) Network() string { return "vconn" }
func (a vaddr) String() string  { return string(a) }

// ConnPair returns the two ends of a fresh connection.
func ConnPair(a, b string) (*Conn, *Conn) {
	x, y := &Conn{name: a}, &Conn{name: b}
	x.peer, y.peer = y, x
	return x, y
}

func (c *Conn) readable() bool {
	return len(c.buf) > 0 || c.closed || c.peerGone
}

func (c *Conn) Read(p []byte) (int, error) {
	if len(p) == 0 {
		return 0, nil
	}
	e := current()
	g := e.self()
	o := &op{kind: OpConnRead, pos: "Conn.Read:" + c.name, obj: &c.o, pc: callerPC(2)}
	o.enabled = func(*Exec) bool { return c.readable() }
	e.mu.Lock()
	if c.hasRdl {
		o.wakeAt = c.rdl
		if o.wakeAt <= 0 {
			o.wakeAt = 1
		}
	}
	e.mu.Unlock()
	e.point(g, o)
	e.mu.Lock()
	var n int
	var err error
	switch {
	case c.closed:
		err = io.ErrClosedPipe
	case len(c.buf) > 0:
		n = copy(p, c.buf)
	case c.peerGone:
		err = io.EOF
	default:
		err = os.ErrDeadlineExceeded
	}
	avail := n
	e.mu.Unlock()
	if err == nil && c.Frag && avail > 1 {
		// environment answer: 0 = everything that fits, 1 = a single byte, 2 = all but one byte
		switch Choice("Conn.Read.frag:"+c.name, 3) {
		case 1:
			n = 1
		case 2:
			n = avail - 1
		}
	}
	e.mu.Lock()
	if err == nil {
		c.buf = c.buf[n:]
		c.ReadN += n
	}
	e.mu.Unlock()
	e.done(g, o, uint64(n)+7)
	return n, err
}

func (c *Conn) Write(p []byte) (int, error) {
	e := current()
	g := e.self()
	o := &op{kind: OpConnWrite, pos: "Conn.Write:" + c.name, obj: &c.peer.o, pc: callerPC(2)}
	e.point(g, o)
	split := 0
	if c.Frag && len(p) > 1 {
		// 0 = atomic, 1 = first byte then the rest, 2 = all but the last byte then the rest
		switch Choice("Conn.Write.frag:"+c.name, 3) {
		case 1:
			split = 1
		case 2:
			split = len(p) - 1
		}
	}
	deliver := func(b []byte) error {
		e.mu.Lock()
		defer e.mu.Unlock()
		if c.closed {
			return io.ErrClosedPipe
		}
		if c.peerGone {
			return io.ErrClosedPipe
		}
		c.peer.buf = append(c.peer.buf, b...)
		c.Wrote += len(b)
		return nil
	}
	if split > 0 {
		if err := deliver(p[:split]); err != nil {
			e.done(g, o, 1)
			return 0, err
		}
		e.done(g, o, 2)
		o2 := &op{kind: OpConnWrite, pos: "Conn.Write2:" + c.name, obj: &c.peer.o}
		e.point(g, o2)
		err := deliver(p[split:])
		e.done(g, o2, 3)
		if err != nil {
			return split, err
		}
		return len(p), nil
	}
	err := deliver(p)
	e.done(g, o, 4)
	if err != nil {
		return 0, err
	}
	return len(p), nil
}

func (c *Conn) Close() error {
	e := current()
	g := e.self()
	o := &op{kind: OpConnClose, pos: "Conn.Close:" + c.name, obj: &c.o, pc: callerPC(2)}
	e.point(g, o)
	e.mu.Lock()
	was := c.closed
	c.closed = true
	c.peer.peerGone = true
	c.peer.o.hash = mix(c.peer.o.hash, 0xc105e)
	e.mu.Unlock()
	e.done(g, o, 0)
	if was {
		return io.ErrClosedPipe
	}
	return nil
}

func (c *Conn) LocalAddr() net.Addr  { return vaddr(c.name) }
func (c *Conn) RemoteAddr() net.Addr { return vaddr(c.peer.name) }

func (c *Conn) SetDeadline(t time.Time) error { return c.SetReadDeadline(t) }
func (c *Conn) SetReadDeadline(t time.Time) error {
	e := current()
	e.mu.Lock()
	if t.IsZero() {
		c.hasRdl = false
	} else {
		c.hasRdl = true
		c.rdl = t.Sub(Epoch)
	}
	e.mu.Unlock()
	return nil
}
func (c *Conn) SetWriteDeadline(t time.Time) error { return nil }

// Pending returns the number of bytes written to this end and not yet read.
func (c *Conn) Pending() int {
	e := current()
	e.mu.Lock()
	defer e.mu.Unlock()
	return len(c.buf)
}
