package verifrt

import (
	"cmp"
	"fmt"
	"iter"
	"reflect"
	"sort"
	"sync"
	"unsafe"
)

func chanPtr[T any](c <-chan T) uintptr { return *(*uintptr)(unsafe.Pointer(&c)) }

// Send performs c <- v as a scheduling point followed by the real operation.
func Send[T any](pos string, c chan<- T, v T) {
	e := cur.Load()
	if e == nil {
		c <- v
		return
	}
	g := e.self()
	p := *(*uintptr)(unsafe.Pointer(&c))
	o := &op{kind: OpSend, pos: pos, chptr: p, obj: e.objFor(p, c, g, pos)}
	e.point(g, o)
	select {
	case c <- v:
	case <-e.abortCh:
		e.exitIfAborted()
	}
	e.done(g, o, 0)
}

// SendTo is Send with the element type inferred from the channel alone (the value is
// then assigned to it under the ordinary assignability rules, as in `c <- v`).
func SendTo[T any](pos string, c chan<- T) func(T) {
	return func(v T) { Send(pos, c, v) }
}

// SelSendTo is SelSendCase with the element type inferred from the channel alone.
func SelSendTo[T any](s *Sel, c chan<- T) func(T) {
	return func(v T) { SelSendCase(s, c, v) }
}

// Recv performs <-c.
func Recv[T any](pos string, c <-chan T) T {
	v, _ := Recv2(pos, c)
	return v
}

// Recv2 performs v, ok := <-c.
func Recv2[T any](pos string, c <-chan T) (T, bool) {
	e := cur.Load()
	if e == nil {
		v, ok := <-c
		return v, ok
	}
	g := e.self()
	p := chanPtr(c)
	o := &op{kind: OpRecv, pos: pos, chptr: p, obj: e.objFor(p, c, g, pos)}
	e.point(g, o)
	var v T
	var ok bool
	select {
	case v, ok = <-c:
	case <-e.abortCh:
		e.exitIfAborted()
	}
	x := uint64(1)
	if ok {
		x = 2
	}
	e.done(g, o, x)
	return v, ok
}

// Close performs close(c) and records the channel as closed for the readiness model.
func Close[T any](pos string, c chan<- T) {
	e := cur.Load()
	if e == nil {
		// package initialisation: remember the channel as closed for later executions
		preClosed.Store(*(*uintptr)(unsafe.Pointer(&c)), c)
		close(c)
		return
	}
	g := e.self()
	p := *(*uintptr)(unsafe.Pointer(&c))
	o := &op{kind: OpClose, pos: pos, chptr: p, obj: e.objFor(p, c, g, pos)}
	e.point(g, o)
	if o.obj != nil {
		e.mu.Lock()
		o.obj.closed = true
		e.mu.Unlock()
	}
	close(c)
	e.done(g, o, 0)
}

// closeTracked closes a runtime-owned channel (timers, contexts) without a point.
func closeTracked[T any](e *Exec, c chan T) {
	p := *(*uintptr)(unsafe.Pointer(&c))
	e.mu.Lock()
	o := e.objs[p]
	if o == nil {
		o = &Obj{ref: c}
		e.objs[p] = o
	}
	o.closed = true
	e.mu.Unlock()
	close(c)
}

// Len performs len(c) on a channel (a racy read that the code under test branches on).
func Len[T any](pos string, c <-chan T) int {
	e := cur.Load()
	if e == nil {
		return len(c)
	}
	g := e.self()
	p := chanPtr(c)
	o := &op{kind: OpLen, pos: pos, chptr: p, obj: e.objFor(p, c, g, pos)}
	e.point(g, o)
	n := len(c)
	e.done(g, o, uint64(n)+1)
	return n
}

// Cap is cap(c); not a scheduling point (immutable).
func Cap[T any](pos string, c <-chan T) int { return cap(c) }

// Range is `for v := range c`.
func Range[T any](pos string, c <-chan T) iter.Seq[T] {
	return func(yield func(T) bool) {
		for {
			v, ok := Recv2(pos, c)
			if !ok {
				return
			}
			if !yield(v) {
				return
			}
		}
	}
}

// MapRange iterates a map in a deterministic (sorted) order so that map iteration in
// instrumented packages is not a source of unowned nondeterminism. Entries deleted
// during the iteration are skipped, entries added are not visited (both allowed by
// the language).
func MapRange[M ~map[K]V, K comparable, V any](m M) iter.Seq2[K, V] {
	return func(yield func(K, V) bool) {
		keys := make([]K, 0, len(m))
		for k := range m {
			keys = append(keys, k)
		}
		sortKeys(keys)
		if e := cur.Load(); e != nil && e.mapDescending {
			// harness-selected alternative order (Go's own order is unspecified): lets a
			// scenario show that a result does not depend on ascending iteration
			for i, j := 0, len(keys)-1; i < j; i, j = i+1, j-1 {
				keys[i], keys[j] = keys[j], keys[i]
			}
		}
		for _, k := range keys {
			v, ok := m[k]
			if !ok {
				continue
			}
			if !yield(k, v) {
				return
			}
		}
	}
}

func sortKeys[K comparable](keys []K) {
	if len(keys) < 2 {
		return
	}
	switch ks := any(keys).(type) {
	case []string:
		sort.Strings(ks)
		return
	case []int:
		sort.Ints(ks)
		return
	case []uint16:
		sort.Slice(ks, func(i, j int) bool { return ks[i] < ks[j] })
		return
	case []uint64:
		sort.Slice(ks, func(i, j int) bool { return ks[i] < ks[j] })
		return
	case []uint:
		sort.Slice(ks, func(i, j int) bool { return ks[i] < ks[j] })
		return
	}
	rv := reflect.ValueOf(keys[0])
	switch rv.Kind() {
	case reflect.Int, reflect.Int8, reflect.Int16, reflect.Int32, reflect.Int64:
		sort.Slice(keys, func(i, j int) bool { return reflect.ValueOf(keys[i]).Int() < reflect.ValueOf(keys[j]).Int() })
	case reflect.Uint, reflect.Uint8, reflect.Uint16, reflect.Uint32, reflect.Uint64, reflect.Uintptr:
		sort.Slice(keys, func(i, j int) bool { return reflect.ValueOf(keys[i]).Uint() < reflect.ValueOf(keys[j]).Uint() })
	case reflect.String:
		sort.Slice(keys, func(i, j int) bool { return reflect.ValueOf(keys[i]).String() < reflect.ValueOf(keys[j]).String() })
	default:
		strs := make([]string, len(keys))
		idx := make([]int, len(keys))
		for i := range keys {
			strs[i] = fmt.Sprintf("%#v", keys[i])
			idx[i] = i
		}
		sort.Slice(idx, func(i, j int) bool { return cmp.Less(strs[idx[i]], strs[idx[j]]) })
		out := make([]K, len(keys))
		for i, j := range idx {
			out[i] = keys[j]
		}
		copy(keys, out)
	}
}

// ---- select ----

// Sel is the runtime side of one rewritten select statement.
type Sel struct {
	pos        string
	hasDefault bool
	cases      []selCase
	chosen     int
	recv       reflect.Value
	recvOK     bool
}

func NewSel(pos string, hasDefault bool) *Sel { return &Sel{pos: pos, hasDefault: hasDefault} }

// SelRecvCase registers `case … <-c`.
func SelRecvCase[T any](s *Sel, c <-chan T) {
	s.cases = append(s.cases, selCase{ch: reflect.ValueOf(c), ptr: chanPtr(c)})
}

// SelSendCase registers `case c <- v`.
func SelSendCase[T any](s *Sel, c chan<- T, v T) {
	p := *(*uintptr)(unsafe.Pointer(&c))
	s.cases = append(s.cases, selCase{send: true, ch: reflect.ValueOf(c), val: reflect.ValueOf(&v).Elem(), ptr: p})
}

// chanReady reports whether an operation in direction send on channel ptr can proceed
// now according to the model: buffer state (real), tracked close, or a partner that is
// blocked inside a real operation on the same channel.
func (e *Exec) chanReady(send bool, ch reflect.Value, ptr uintptr, self *G) bool {
	if ptr == 0 {
		return false
	}
	if o := e.objs[ptr]; o != nil && o.closed {
		return true
	}
	if _, ok := preClosed.Load(ptr); ok {
		return true
	}
	if send {
		if ch.Len() < ch.Cap() {
			return true
		}
	} else if ch.Len() > 0 {
		return true
	}
	for _, g := range e.gs {
		if g == self || g.state != gRunning || !g.inOp || g.op == nil {
			continue
		}
		switch g.op.kind {
		case OpSend:
			if !send && g.op.chptr == ptr {
				return true
			}
		case OpRecv:
			if send && g.op.chptr == ptr {
				return true
			}
		case OpSelect:
			for _, c := range g.op.sel.cases {
				if c.ptr == ptr && c.send != send {
					return true
				}
			}
		}
	}
	return false
}

func (s *Sel) readyCases(e *Exec) []int {
	var out []int
	for i, c := range s.cases {
		if e.chanReady(c.send, c.ch, c.ptr, nil) {
			out = append(out, i)
		}
	}
	return out
}

// Choose is the scheduling point of the select; it performs the chosen communication
// and returns the index of the clause to run (-1 = default).
func (s *Sel) Choose() int {
	e := cur.Load()
	if e == nil {
		return s.choosePlain()
	}
	g := e.self()
	o := &op{kind: OpSelect, pos: s.pos, sel: s}
	for i := range s.cases {
		c := &s.cases[i]
		if c.ptr != 0 {
			c.obj = e.objFor(c.ptr, c.ch.Interface(), g, s.pos)
		}
	}
	d := e.point(g, o)
	abortCase := reflect.SelectCase{Dir: reflect.SelectRecv, Chan: reflect.ValueOf(e.abortCh)}
	mk := func(c selCase) reflect.SelectCase {
		if c.send {
			return reflect.SelectCase{Dir: reflect.SelectSend, Chan: c.ch, Send: c.val}
		}
		return reflect.SelectCase{Dir: reflect.SelectRecv, Chan: c.ch}
	}
	blockAll := func() int {
		cs := make([]reflect.SelectCase, 0, len(s.cases)+1)
		for _, c := range s.cases {
			cs = append(cs, mk(c))
		}
		cs = append(cs, abortCase)
		i, v, ok := reflect.Select(cs)
		if i == len(s.cases) {
			e.exitIfAborted()
		}
		s.recv, s.recvOK = v, ok
		return i
	}
	switch {
	case d >= 0:
		i, v, ok := reflect.Select([]reflect.SelectCase{mk(s.cases[d]), {Dir: reflect.SelectDefault}})
		if i == 0 {
			s.chosen, s.recv, s.recvOK = d, v, ok
		} else {
			// the model believed the case ready and the runtime disagreed
			e.mu.Lock()
			e.Divergences++
			e.mu.Unlock()
			if s.hasDefault {
				s.chosen = -1
			} else {
				s.chosen = blockAll()
			}
		}
	case d == altDefault:
		// the model believed nothing ready; ask the runtime (a case may be ready through
		// a channel closed by uninstrumented code)
		cs := make([]reflect.SelectCase, 0, len(s.cases)+1)
		for _, c := range s.cases {
			cs = append(cs, mk(c))
		}
		cs = append(cs, reflect.SelectCase{Dir: reflect.SelectDefault})
		i, v, ok := reflect.Select(cs)
		if i == len(s.cases) {
			s.chosen = -1
		} else {
			e.mu.Lock()
			e.Divergences++
			e.mu.Unlock()
			s.chosen, s.recv, s.recvOK = i, v, ok
		}
	default:
		s.chosen = blockAll()
	}
	if s.chosen >= 0 {
		o.obj = s.cases[s.chosen].obj
	}
	x := uint64(s.chosen + 2)
	if s.recvOK {
		x += 1000
	}
	e.done(g, o, x)
	return s.chosen
}

// SelVal returns the value received by the chosen clause.
func SelVal[T any](s *Sel, c <-chan T) T {
	v, _ := SelVal2(s, c)
	return v
}

// SelVal2 returns the value and ok flag received by the chosen clause.
func SelVal2[T any](s *Sel, c <-chan T) (T, bool) {
	var out T
	if s.recv.IsValid() {
		reflect.ValueOf(&out).Elem().Set(s.recv)
	}
	return out, s.recvOK
}

// preClosed holds channels closed during package initialisation (outside any execution).
var preClosed sync.Map

// choosePlain performs the select outside a controlled execution (package init).
func (s *Sel) choosePlain() int {
	cs := make([]reflect.SelectCase, 0, len(s.cases)+1)
	for _, c := range s.cases {
		if c.send {
			cs = append(cs, reflect.SelectCase{Dir: reflect.SelectSend, Chan: c.ch, Send: c.val})
		} else {
			cs = append(cs, reflect.SelectCase{Dir: reflect.SelectRecv, Chan: c.ch})
		}
	}
	if s.hasDefault {
		cs = append(cs, reflect.SelectCase{Dir: reflect.SelectDefault})
	}
	i, v, ok := reflect.Select(cs)
	if i == len(s.cases) {
		s.chosen = -1
		return -1
	}
	s.chosen, s.recv, s.recvOK = i, v, ok
	return i
}
