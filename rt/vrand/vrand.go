// Package vrand is the drop-in for math/rand/v2 inside instrumented packages: a draw
// is an environment choice owned by the scheduler (both extremes of the range).
package vrand

import (
	rt "github.com/blinklabs-io/gouroboros/verifrt"
)

func Int64N(n int64) int64 {
	if n <= 1 {
		return 0
	}
	if rt.Choice("rand.Int64N", 2) == 1 {
		return n - 1
	}
	return 0
}
func IntN(n int) int          { return int(Int64N(int64(n))) }
func Uint64N(n uint64) uint64 { return uint64(Int64N(int64(n))) }
