// Package vsync is the drop-in for package sync inside instrumented packages. All state
// lives in the scheduler's model: a goroutine waiting for a lock is disabled, never
// blocked, so lock hand-over is an explicit scheduling decision.
package vsync

import (
	rt "github.com/blinklabs-io/gouroboros/verifrt"
)

type Locker interface {
	Lock()
	Unlock()
}

type Mutex struct {
	o    rt.Obj
	held bool
}

func (m *Mutex) Lock() {
	rt.Step(rt.OpLock, "Mutex.Lock", &m.o, func() bool { return !m.held }, func() uint64 { m.held = true; return 0 })
}

func (m *Mutex) Unlock() {
	rt.Step(rt.OpUnlock, "Mutex.Unlock", &m.o, nil, func() uint64 {
		if !m.held {
			panic("sync: unlock of unlocked mutex")
		}
		m.held = false
		return 0
	})
}

func (m *Mutex) TryLock() bool {
	ok := false
	rt.Step(rt.OpTryLock, "Mutex.TryLock", &m.o, nil, func() uint64 {
		if !m.held {
			m.held = true
			ok = true
			return 2
		}
		return 1
	})
	return ok
}

type RWMutex struct {
	o       rt.Obj
	writer  bool
	readers int
}

func (m *RWMutex) Lock() {
	rt.Step(rt.OpLock, "RWMutex.Lock", &m.o, func() bool { return !m.writer && m.readers == 0 }, func() uint64 { m.writer = true; return 0 })
}
func (m *RWMutex) Unlock() {
	rt.Step(rt.OpUnlock, "RWMutex.Unlock", &m.o, nil, func() uint64 {
		if !m.writer {
			panic("sync: Unlock of unlocked RWMutex")
		}
		m.writer = false
		return 0
	})
}
func (m *RWMutex) RLock() {
	rt.Step(rt.OpRLock, "RWMutex.RLock", &m.o, func() bool { return !m.writer }, func() uint64 { m.readers++; return 0 })
}
func (m *RWMutex) RUnlock() {
	rt.Step(rt.OpRUnlock, "RWMutex.RUnlock", &m.o, nil, func() uint64 {
		if m.readers <= 0 {
			panic("sync: RUnlock of unlocked RWMutex")
		}
		m.readers--
		return 0
	})
}
func (m *RWMutex) TryLock() bool {
	ok := false
	rt.Step(rt.OpTryLock, "RWMutex.TryLock", &m.o, nil, func() uint64 {
		if !m.writer && m.readers == 0 {
			m.writer, ok = true, true
			return 2
		}
		return 1
	})
	return ok
}
func (m *RWMutex) TryRLock() bool {
	ok := false
	rt.Step(rt.OpTryLock, "RWMutex.TryRLock", &m.o, nil, func() uint64 {
		if !m.writer {
			m.readers++
			ok = true
			return 2
		}
		return 1
	})
	return ok
}
func (m *RWMutex) RLocker() Locker { return rlocker{m} }

type rlocker struct{ m *RWMutex }

func (r rlocker) Lock()   { r.m.RLock() }
func (r rlocker) Unlock() { r.m.RUnlock() }

// Once: done / running flags in the model; a second caller waits until the first one's
// function has returned, as sync.Once does.
type Once struct {
	o       rt.Obj
	done    bool
	running bool
}

func (o *Once) Do(f func()) {
	run := false
	rt.Step(rt.OpOnce, "Once.Do", &o.o, func() bool { return !o.running }, func() uint64 {
		if o.done {
			return 1
		}
		o.running = true
		run = true
		return 2
	})
	if !run {
		return
	}
	defer rt.Step(rt.OpOnce, "Once.done", &o.o, nil, func() uint64 { o.running = false; o.done = true; return 3 })
	f()
}

type WaitGroup struct {
	o rt.Obj
	n int
}

func (w *WaitGroup) Add(d int) {
	rt.Step(rt.OpWgAdd, "WaitGroup.Add", &w.o, nil, func() uint64 {
		w.n += d
		if w.n < 0 {
			panic("sync: negative WaitGroup counter")
		}
		return uint64(w.n) + 1
	})
}
func (w *WaitGroup) Done() { w.Add(-1) }
func (w *WaitGroup) Wait() {
	rt.Step(rt.OpWgWait, "WaitGroup.Wait", &w.o, func() bool { return w.n == 0 }, nil)
}
func (w *WaitGroup) Go(f func()) {
	w.Add(1)
	rt.Go("WaitGroup.Go", func() {
		defer w.Done()
		f()
	})
}

// OnceFunc / OnceValue are not used by the instrumented packages.
