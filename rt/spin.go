package verifrt

import (
	"encoding/json"
	"fmt"
	"os"
	"runtime"
	"strings"
	"sync/atomic"
	"time"
)

// Spin watchdog ("make waiting visible"): the scheduler learns that a released goroutine has
// reached its next synchronisation operation (or blocked) from synctest.Wait. A goroutine that
// computes forever without reaching one — a retry loop that neither blocks nor yields, as in a
// read loop that `continue`s on the same buffer — never lets Wait return, and a stateless
// explorer would hang. The watchdog runs OUTSIDE the bubble and measures the CPU time the
// process has burnt since the scheduler entered its current Wait; goroutine-local computation
// between two synchronisation operations takes micro- to milliseconds, so tens of CPU-seconds
// inside ONE step mean a spinner. It cannot be pre-empted from outside, so the worker process
// reports the livelock (E1LIVELOCK line: last released goroutine, spinning function, choice
// list) and exits; e1lib turns a reproduced report into the finding "verdict:livelock|<func>".
var spin struct {
	waiting atomic.Bool
	epoch   atomic.Uint64
	g       atomic.Pointer[G]
}

// SpinInfo is what the watchdog reports.
type SpinInfo struct {
	Func    string   `json:"func"`    // outermost repository frame of the spinning goroutine
	Who     string   `json:"who"`     // goroutine released last by the scheduler
	Choices []int    `json:"choices"` // schedule prefix that leads to the spin
	CPU     float64  `json:"cpu_s"`
	Stack   []string `json:"stack"`
}

func spinEnter() { spin.epoch.Add(1); spin.waiting.Store(true) }
func spinLeave() { spin.waiting.Store(false) }

// StartSpinWatchdog starts the watchdog goroutine (call it outside any execution). limit is
// CPU time of the process within one scheduler step.
func StartSpinWatchdog(limit time.Duration) {
	go func() {
		var ep uint64
		var cpu0 time.Duration
		armed := false
		for {
			time.Sleep(500 * time.Millisecond)
			if !spin.waiting.Load() {
				armed = false
				continue
			}
			if e := spin.epoch.Load(); !armed || e != ep {
				ep, cpu0, armed = e, ProcessCPU(), true
				continue
			}
			if used := ProcessCPU() - cpu0; used > limit {
				reportSpin(used)
			}
		}
	}()
}

func reportSpin(used time.Duration) {
	info := SpinInfo{CPU: used.Seconds()}
	if g := spin.g.Load(); g != nil {
		info.Who = fmt.Sprintf("%s after %s@%s", g.path, g.op.kind, g.op.where())
	}
	if e := cur.Load(); e != nil && e.mu.TryLock() {
		for _, d := range e.Decisions {
			info.Choices = append(info.Choices, d.Chosen)
		}
		e.mu.Unlock()
	}
	buf := make([]byte, 1<<20)
	buf = buf[:runtime.Stack(buf, true)]
	stanzas := strings.Split(string(buf), "\n\n")
	const mod = "github.com/blinklabs-io/gouroboros/"
	for i, st := range stanzas {
		if i == 0 {
			continue // the watchdog itself
		}
		lines := strings.Split(st, "\n")
		if len(lines) == 0 || !(strings.Contains(lines[0], "[running") || strings.Contains(lines[0], "[runnable")) {
			continue
		}
		// the OUTERMOST repository frame (the goroutine's own loop) names the spinner: the innermost
		// one depends on where inside the loop body the snapshot happened to be taken
		fn := ""
		for _, l := range lines[1:] {
			if strings.HasPrefix(l, mod) && !strings.HasPrefix(l, mod+"verifrt") {
				fn = strings.TrimPrefix(l, mod)
				if p := strings.LastIndex(fn, "("); p > 0 {
					fn = fn[:p]
				}
			}
		}
		if fn == "" {
			continue
		}
		info.Func = fn
		if len(lines) > 24 {
			lines = lines[:24]
		}
		info.Stack = lines
		break
	}
	if info.Func == "" {
		info.Func = "unknown"
	}
	b, _ := json.Marshal(info)
	fmt.Printf("\nE1LIVELOCK %s\n", b)
	os.Stdout.Sync()
	os.Exit(3)
}
