// Package vlib is the common plumbing of every check: tier/seed handling, the
// known-findings matcher, VIOLATION / KNOWN-FINDING reporting, replay files and the
// evidence writer. It decides nothing itself.
package vlib

import (
	"crypto/sha256"
	"encoding/hex"
	"encoding/json"
	"flag"
	"fmt"
	"os"
	"os/exec"
	"path/filepath"
	"runtime"
	"sort"
	"strconv"
	"strings"
	"sync"
	"time"
)

// Root returns the verification root directory (/verif unless VERIF_ROOT is set).
func Root() string {
	if r := os.Getenv("VERIF_ROOT"); r != "" {
		return r
	}
	return "/verif"
}

// Repo returns the repository root (/repo unless REPO_ROOT is set).
func Repo() string {
	if r := os.Getenv("REPO_ROOT"); r != "" {
		return r
	}
	return "/repo"
}

type finding struct {
	Status   string `json:"status"`
	Property string `json:"property"`
	Key      string `json:"key"`
	What     string `json:"what"`
	Commit   string `json:"commit,omitempty"`
}

// Check is the per-run state of one property check.
type Check struct {
	ID     string
	Tier   string
	Seed   int64
	Level  string
	Replay string // non-empty: replay this file instead of exploring

	start time.Time
	mu    sync.Mutex

	known      map[string]finding
	knownSeen  map[string]bool
	violations map[string]string // key -> replay path
	cov        map[string]any
	samples    []any
	assump     []string
	evals      int64
	distinct   map[string]struct{}
	outcomes   map[string]int64
	exhaustive bool
	notes      []string
}

// New parses the standard flags (--tier, --replay) and the VERIF_TIER / VERIF_SEED
// environment, loads the known-findings file and returns the run state.
func New(id, level string) *Check {
	c := &Check{ID: id, Level: level, start: time.Now()}
	if flag.Lookup("test.v") == nil {
		tier := flag.String("tier", "", "quick|thorough")
		replay := flag.String("replay", "", "replay file")
		if !flag.Parsed() {
			flag.Parse()
		}
		c.Tier = *tier
		c.Replay = *replay
	}
	// test binaries (E1/E3 harnesses) get tier and replay through the environment
	if c.Tier == "" {
		c.Tier = os.Getenv("VERIF_TIER")
	}
	if c.Replay == "" {
		c.Replay = os.Getenv("VERIF_REPLAY")
	}
	if c.Tier != "thorough" {
		c.Tier = "quick"
	}
	if s := os.Getenv("VERIF_SEED"); s != "" {
		if v, err := strconv.ParseInt(s, 10, 64); err == nil {
			c.Seed = v
		}
	}
	c.known = map[string]finding{}
	c.knownSeen = map[string]bool{}
	c.violations = map[string]string{}
	c.cov = map[string]any{}
	c.distinct = map[string]struct{}{}
	c.outcomes = map[string]int64{}
	c.exhaustive = true
	c.loadKnown()
	return c
}

func (c *Check) Thorough() bool { return c.Tier == "thorough" }

func (c *Check) loadKnown() {
	b, err := os.ReadFile(filepath.Join(Root(), "findings", "known.jsonl"))
	if err != nil {
		return
	}
	for _, ln := range strings.Split(string(b), "\n") {
		ln = strings.TrimSpace(ln)
		if ln == "" || strings.HasPrefix(ln, "#") {
			continue
		}
		var f finding
		if json.Unmarshal([]byte(ln), &f) != nil {
			continue
		}
		if f.Property == c.ID && f.Status == "known" {
			c.known[f.Key] = f
		}
	}
}

// Eval counts one evaluated case. class is the equivalence class used for the
// distinct_nontrivial count ("" = trivial, not counted); outcome is the observed
// outcome label (used to flag vacuous runs).
func (c *Check) Eval(class, outcome string) {
	c.mu.Lock()
	c.evals++
	if class != "" {
		c.distinct[class] = struct{}{}
	}
	if outcome != "" {
		c.outcomes[outcome]++
	}
	c.mu.Unlock()
}

// EvalN adds n evaluations without class bookkeeping (bulk enumerations).
func (c *Check) EvalN(n int64) {
	c.mu.Lock()
	c.evals += n
	c.mu.Unlock()
}

// Distinct records a distinct non-trivial class without counting an evaluation.
func (c *Check) Distinct(class string) {
	c.mu.Lock()
	c.distinct[class] = struct{}{}
	c.mu.Unlock()
}

func (c *Check) Outcome(o string) {
	c.mu.Lock()
	c.outcomes[o]++
	c.mu.Unlock()
}

// Sample keeps up to 12 written-out cases for the evidence file.
func (c *Check) Sample(s any) {
	c.mu.Lock()
	if len(c.samples) < 12 {
		c.samples = append(c.samples, s)
	}
	c.mu.Unlock()
}

func (c *Check) Set(key string, v any) {
	c.mu.Lock()
	c.cov[key] = v
	c.mu.Unlock()
}

func (c *Check) Add(key string, n int64) {
	c.mu.Lock()
	old, _ := c.cov[key].(int64)
	c.cov[key] = old + n
	c.mu.Unlock()
}

func (c *Check) Assume(s string) {
	c.mu.Lock()
	c.assump = append(c.assump, s)
	c.mu.Unlock()
}

func (c *Check) Note(s string) {
	c.mu.Lock()
	c.notes = append(c.notes, s)
	c.mu.Unlock()
}

// NotExhaustive marks the run as capped (deadline, budget) with the reason.
func (c *Check) NotExhaustive(why string) {
	c.mu.Lock()
	c.exhaustive = false
	c.notes = append(c.notes, "not exhaustive: "+why)
	c.mu.Unlock()
}

// Violation reports a property violation identified by key (coarser than one input,
// finer than the property; see DESIGN §6). If the key is listed as known in
// findings/known.jsonl a KNOWN-FINDING line is printed once, otherwise a VIOLATION
// line with a replay file. Only the first occurrence of a key writes a replay file.
func (c *Check) Violation(key, what string, replay any) {
	c.mu.Lock()
	defer c.mu.Unlock()
	if f, ok := c.known[key]; ok {
		if !c.knownSeen[key] {
			c.knownSeen[key] = true
			fmt.Printf("KNOWN-FINDING: property=%s key=%q %s\n", c.ID, key, f.What)
		}
		return
	}
	if _, ok := c.violations[key]; ok {
		return
	}
	h := sha256.Sum256([]byte(key))
	dir := filepath.Join(Root(), "findings", "replay")
	_ = os.MkdirAll(dir, 0o755)
	path := filepath.Join(dir, fmt.Sprintf("%s-%s.json", c.ID, hex.EncodeToString(h[:6])))
	b, _ := json.MarshalIndent(map[string]any{
		"property": c.ID, "key": key, "what": what, "replay": replay,
	}, "", " ")
	_ = os.WriteFile(path, b, 0o644)
	c.violations[key] = path
	fmt.Printf("VIOLATION property=%s replay=%s\n", c.ID, path)
	fmt.Printf("  key=%q %s\n", key, what)
}

func (c *Check) Violations() int {
	c.mu.Lock()
	defer c.mu.Unlock()
	return len(c.violations)
}

// Internal reports an error of the machinery itself: exit 2, never a verdict.
func (c *Check) Internal(format string, a ...any) {
	fmt.Fprintf(os.Stderr, "INTERNAL-ERROR check=%s: %s\n", c.ID, fmt.Sprintf(format, a...))
	os.Exit(2)
}

// Finish writes the evidence file and exits 0/1.
func (c *Check) Finish() {
	c.mu.Lock()
	cov := c.cov
	if _, ok := cov["evaluations"]; !ok {
		cov["evaluations"] = c.evals
	}
	if _, ok := cov["distinct_nontrivial"]; !ok {
		cov["distinct_nontrivial"] = int64(len(c.distinct))
	}
	if len(c.samples) > 0 {
		cov["samples"] = c.samples
	}
	cov["exhaustive"] = c.exhaustive
	if len(c.outcomes) > 0 {
		cov["outcomes"] = c.outcomes
		if len(c.outcomes) == 1 && c.evals > 1 {
			c.notes = append(c.notes, "vacuity warning: a single distinct outcome was observed")
		}
	}
	if len(c.notes) > 0 {
		cov["notes"] = c.notes
	}
	var known []string
	for k := range c.knownSeen {
		known = append(known, k)
	}
	sort.Strings(known)
	if len(known) > 0 {
		cov["known_findings_reproduced"] = known
	}
	var stale []string
	for k := range c.known {
		if !c.knownSeen[k] {
			stale = append(stale, k)
		}
	}
	sort.Strings(stale)
	if len(stale) > 0 {
		cov["known_findings_not_reproduced_this_run"] = stale
	}
	ev := map[string]any{
		"property_id": c.ID,
		"tier":        c.Tier,
		"seed":        c.Seed,
		"level":       c.Level,
		"coverage":    cov,
		"assumptions": c.assump,
		"wall_s":      time.Since(c.start).Seconds(),
		"violations":  len(c.violations),
		"go":          runtime.Version(),
	}
	nv := len(c.violations)
	c.mu.Unlock()
	b, _ := json.MarshalIndent(ev, "", " ")
	dir := filepath.Join(Root(), "evidence")
	if d := os.Getenv("VERIF_EVIDENCE_DIR"); d != "" {
		dir = d // runs against scratch copies (seeded changes) must not overwrite the real evidence
	}
	_ = os.MkdirAll(dir, 0o755)
	if err := os.WriteFile(filepath.Join(dir, c.ID+".json"), append(b, '\n'), 0o644); err != nil {
		c.Internal("cannot write evidence: %v", err)
	}
	fmt.Printf("check %s tier=%s evaluations=%v distinct=%v exhaustive=%v violations=%d wall=%.1fs\n",
		c.ID, c.Tier, cov["evaluations"], cov["distinct_nontrivial"], cov["exhaustive"], nv, time.Since(c.start).Seconds())
	if nv > 0 {
		os.Exit(1)
	}
	os.Exit(0)
}

// Parallel runs fn(i) for i in [0,n) on all cores. fn must be safe for concurrent use.
func Parallel(n int, fn func(i int)) {
	w := runtime.NumCPU()
	if w > n {
		w = n
	}
	if w < 1 {
		w = 1
	}
	var wg sync.WaitGroup
	var mu sync.Mutex
	next := 0
	for k := 0; k < w; k++ {
		wg.Add(1)
		go func() {
			defer wg.Done()
			for {
				mu.Lock()
				i := next
				next++
				mu.Unlock()
				if i >= n {
					return
				}
				fn(i)
			}
		}()
	}
	wg.Wait()
}

// Deadline returns a soft deadline for the tier (quick, thorough) measured from the
// start of the run; checks that hit it must call NotExhaustive and stop cleanly.
func (c *Check) Deadline(quick, thorough time.Duration) time.Time {
	if c.Thorough() {
		return c.start.Add(thorough)
	}
	return c.start.Add(quick)
}

// Hex is a small helper for samples.
func Hex(b []byte) string {
	if len(b) > 48 {
		return hex.EncodeToString(b[:48]) + fmt.Sprintf("…(%dB)", len(b))
	}
	return hex.EncodeToString(b)
}

// RaceAudit runs the free-running race-detector pass of a check: the test package
// race/<pkg> (harness bodies on several goroutines, no controlled scheduler) under
// `go test -race`. It is an audit that complements the exhaustive part — a cooperative
// scheduler hides unsynchronised plain-memory accesses, and a single-goroutine
// enumeration cannot see state shared between calls. Every DATA RACE report whose stack
// contains a gouroboros frame, and every RACEAUDIT-MISMATCH line printed by the test,
// becomes a violation keyed by the first gouroboros function involved. Problems of the
// audit itself (no cgo, build failure) are recorded as a note, never as a verdict.
func (c *Check) RaceAudit(pkg string) {
	vgo := os.Getenv("VGO")
	if vgo == "" {
		vgo = "go"
	}
	args := []string{"test", "-race", "-count=1", "-vet=off", "-v"}
	if mf := os.Getenv("VERIF_MODFILE"); mf != "" {
		args = append(args, "-modfile="+mf)
	}
	args = append(args, "./race/"+pkg)
	cmd := exec.Command(vgo, args...)
	cmd.Dir = Root()
	cmd.Env = append(os.Environ(), "CGO_ENABLED=1", "GORACE=halt_on_error=0")
	out, err := cmd.CombinedOutput()
	text := string(out)
	races, mism := 0, 0
	lines := strings.Split(text, "\n")
	for i := 0; i < len(lines); i++ {
		ln := lines[i]
		if strings.HasPrefix(ln, "RACEAUDIT-MISMATCH ") {
			mism++
			key := "race-audit|mismatch"
			if j := strings.Index(ln, "key="); j >= 0 {
				key = "race-audit|" + strings.Fields(ln[j+4:])[0]
			}
			c.Violation(key, ln, map[string]any{"cmd": vgo + " " + strings.Join(args, " ")})
		}
		if strings.HasPrefix(ln, "RACEAUDIT-STATS ") {
			c.Set("race_audit_stats", strings.TrimPrefix(ln, "RACEAUDIT-STATS "))
		}
		if strings.Contains(ln, "WARNING: DATA RACE") {
			fn := ""
			var block []string
			for k := i; k < len(lines) && k < i+60 && !strings.HasPrefix(lines[k], "=================="); k++ {
				block = append(block, lines[k])
				f := strings.TrimSpace(lines[k])
				if fn == "" && strings.HasPrefix(f, "github.com/blinklabs-io/gouroboros/") && !strings.Contains(f, "/verifrt") {
					fn = strings.TrimPrefix(f, "github.com/blinklabs-io/gouroboros/")
					if p := strings.Index(fn, "("); p > 0 && !strings.HasPrefix(fn[p:], "(*") {
						fn = fn[:p]
					} else if q := strings.LastIndex(fn, "("); q > 0 {
						fn = fn[:q]
					}
				}
			}
			if fn == "" {
				continue // race inside the audit's own code: not the repository's
			}
			races++
			c.Violation("race-audit|data-race|"+fn, "go test -race reports a data race in "+fn+" (concurrent callers on disjoint inputs)",
				map[string]any{"cmd": vgo + " " + strings.Join(args, " "), "report": block})
		}
	}
	c.Set("race_audit", map[string]any{"package": "race/" + pkg, "data_race_reports": races, "mismatch_lines": mism,
		"role": "free-running -race pass of the harness bodies (audit; the exhaustive enumeration is the deciding step)"})
	if err != nil && races == 0 && mism == 0 {
		tail := text
		if len(tail) > 600 {
			tail = tail[len(tail)-600:]
		}
		c.Note("race audit did not run to completion (no verdict from it): " + strings.TrimSpace(tail))
	}
}
