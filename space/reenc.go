package space

import (
	"fmt"
	"strings"
)

// Site is one header of the tree together with the alternative forms it may take
// without changing the data model value.
type Site struct {
	Path []int
	Node *Node
	Alts []int
}

// AltForms lists every header form other than the current one that encodes the same
// value: wider arguments for integers/tags/lengths, and the indefinite form for
// strings, arrays and maps.
func AltForms(n *Node) []int {
	var v uint64
	indef := false
	switch n.Major {
	case 0, 1, 6:
		v = n.Arg
	case 2, 3:
		v = uint64(len(n.Bytes))
		indef = true
	case 4:
		v = uint64(len(n.Items))
		indef = true
	case 5:
		v = uint64(len(n.Items) / 2)
		indef = true
	default:
		return nil
	}
	cur := n.Form
	if cur == FormMin {
		cur = minForm(v)
	}
	var out []int
	for f := minForm(v); f <= Form8; f++ {
		if f != cur {
			out = append(out, f)
		}
	}
	if indef && cur != FormIndef {
		out = append(out, FormIndef)
	}
	return out
}

// Sites lists the headers of the tree accepted by filter (nil = all), in encoding
// order. Chunks of an indefinite string are not separate sites.
func Sites(root *Node, filter func(n *Node, path []int) bool) []Site {
	var out []Site
	var rec func(n *Node, path []int)
	rec = func(n *Node, path []int) {
		if filter == nil || filter(n, path) {
			if a := AltForms(n); len(a) > 0 {
				out = append(out, Site{Path: append([]int(nil), path...), Node: n, Alts: a})
			}
		}
		if n.Major == 2 || n.Major == 3 {
			return
		}
		for i, it := range n.Items {
			rec(it, append(path[:len(path):len(path)], i))
		}
	}
	rec(root, nil)
	return out
}

func pathStr(p []int) string {
	if len(p) == 0 {
		return "/"
	}
	var sb strings.Builder
	for _, i := range p {
		fmt.Fprintf(&sb, "/%d", i)
	}
	return sb.String()
}

// Variant describes one re-encoding.
type Variant struct {
	Desc  string // e.g. "/0/1:arr->indef"
	Class string // e.g. "arr->indef@depth2" (for distinct counting)
	Bytes []byte
}

var majNames = []string{"uint", "nint", "bstr", "tstr", "arr", "map", "tag", "simple"}

func desc1(s Site, f int) (string, string) {
	return fmt.Sprintf("%s:%s->%s", pathStr(s.Path), majNames[s.Node.Major], FormNames[f]),
		fmt.Sprintf("%s->%s@d%d", majNames[s.Node.Major], FormNames[f], len(s.Path))
}

// EnumD1 calls fn for every variant that differs from root in exactly one header form.
// The tree is restored after each call. fn returning false stops the enumeration.
func EnumD1(root *Node, sites []Site, fn func(v Variant) bool) int {
	cnt := 0
	for _, s := range sites {
		old := s.Node.Form
		for _, f := range s.Alts {
			s.Node.Form = f
			d, c := desc1(s, f)
			ok := fn(Variant{Desc: d, Class: c, Bytes: root.Encode()})
			cnt++
			s.Node.Form = old
			if !ok {
				return cnt
			}
		}
	}
	return cnt
}

// EnumD2 calls fn for every variant that differs in exactly two header forms, both
// taken from sites.
func EnumD2(root *Node, sites []Site, fn func(v Variant) bool) int {
	cnt := 0
	for i, a := range sites {
		oa := a.Node.Form
		for _, fa := range a.Alts {
			a.Node.Form = fa
			da, ca := desc1(a, fa)
			for _, b := range sites[i+1:] {
				ob := b.Node.Form
				for _, fb := range b.Alts {
					b.Node.Form = fb
					db, cb := desc1(b, fb)
					ok := fn(Variant{Desc: da + "+" + db, Class: ca + "+" + cb, Bytes: root.Encode()})
					cnt++
					b.Node.Form = ob
					if !ok {
						a.Node.Form = oa
						return cnt
					}
				}
			}
		}
		a.Node.Form = oa
	}
	return cnt
}

// Range returns the [start,end) of the node at path inside the encoding produced by
// root.Encode() (computed by re-parsing enc, so it is independent of the Start/End
// recorded when the original was parsed).
func RangeIn(enc []byte, path []int) (int, int, error) {
	n, err := Parse(enc)
	if err != nil {
		return 0, 0, err
	}
	x := n.At(path)
	if x == nil {
		return 0, 0, fmt.Errorf("no node at %v", path)
	}
	return x.Start, x.End, nil
}
