// Package space holds the bounded-exhaustive enumerators and the independent reference
// codecs the E2 checks use. This file: a tolerant CBOR reader/writer written for this
// purpose (independent of fxamacker and of the repository's cbor package) whose tree
// remembers every item's header form, so semantically equal re-encodings can be
// enumerated (reenc.go).
package space

import (
	"encoding/binary"
	"errors"
	"fmt"
	"math"
)

// Header forms.
const (
	FormMin   = 0 // shortest form for the value
	Form1     = 1 // additional info 24 (1-byte argument)
	Form2     = 2 // 25
	Form4     = 3 // 26
	Form8     = 4 // 27
	FormIndef = 5 // 31 (strings, arrays, maps only)
)

var FormNames = []string{"min", "1B", "2B", "4B", "8B", "indef"}

// Node is one CBOR data item.
type Node struct {
	Major  byte    // 0..7
	Arg    uint64  // value (0,1,6,7-simple) or length (2,3,4,5 when definite)
	Form   int     // header form as read / to be written
	Bytes  []byte  // content of a definite string (major 2,3)
	Items  []*Node // array items; map k0,v0,k1,v1…; chunks of an indefinite string; [0] = tagged item
	Float  bool    // major 7 with ai 25/26/27 (Arg holds the raw bits, Form 2/3/4)
	Start  int     // offsets in the parsed input
	End    int
	HdrEnd int // end of the header (start of content)
}

var ErrTrunc = errors.New("space/cbor: truncated")

// minForm returns the shortest form able to carry v.
func minForm(v uint64) int {
	switch {
	case v < 24:
		return FormMin
	case v <= 0xff:
		return Form1
	case v <= 0xffff:
		return Form2
	case v <= 0xffffffff:
		return Form4
	}
	return Form8
}

// Parse reads one item from b starting at off.
func Parse(b []byte) (*Node, error) {
	n, end, err := parseAt(b, 0, 0)
	if err != nil {
		return nil, err
	}
	if end != len(b) {
		return n, fmt.Errorf("space/cbor: %d trailing bytes", len(b)-end)
	}
	return n, nil
}

// ParsePrefix reads one item and returns the number of bytes consumed.
func ParsePrefix(b []byte) (*Node, int, error) {
	return parseAt(b, 0, 0)
}

func parseAt(b []byte, off, depth int) (*Node, int, error) {
	if depth > 2000 {
		return nil, 0, errors.New("space/cbor: too deep")
	}
	if off >= len(b) {
		return nil, 0, ErrTrunc
	}
	ib := b[off]
	n := &Node{Major: ib >> 5, Start: off}
	ai := ib & 0x1f
	p := off + 1
	switch {
	case ai < 24:
		n.Arg, n.Form = uint64(ai), FormMin
	case ai == 24:
		if p+1 > len(b) {
			return nil, 0, ErrTrunc
		}
		n.Arg, n.Form = uint64(b[p]), Form1
		p++
	case ai == 25:
		if p+2 > len(b) {
			return nil, 0, ErrTrunc
		}
		n.Arg, n.Form = uint64(binary.BigEndian.Uint16(b[p:])), Form2
		p += 2
	case ai == 26:
		if p+4 > len(b) {
			return nil, 0, ErrTrunc
		}
		n.Arg, n.Form = uint64(binary.BigEndian.Uint32(b[p:])), Form4
		p += 4
	case ai == 27:
		if p+8 > len(b) {
			return nil, 0, ErrTrunc
		}
		n.Arg, n.Form = binary.BigEndian.Uint64(b[p:]), Form8
		p += 8
	case ai == 31:
		n.Form = FormIndef
	default:
		return nil, 0, fmt.Errorf("space/cbor: reserved additional info %d", ai)
	}
	n.HdrEnd = p
	switch n.Major {
	case 0, 1:
		if n.Form == FormIndef {
			return nil, 0, errors.New("space/cbor: indefinite integer")
		}
	case 2, 3:
		if n.Form == FormIndef {
			for {
				if p >= len(b) {
					return nil, 0, ErrTrunc
				}
				if b[p] == 0xff {
					p++
					break
				}
				ch, e, err := parseAt(b, p, depth+1)
				if err != nil {
					return nil, 0, err
				}
				if ch.Major != n.Major || ch.Form == FormIndef {
					return nil, 0, errors.New("space/cbor: bad chunk")
				}
				n.Items = append(n.Items, ch)
				n.Bytes = append(n.Bytes[:len(n.Bytes):len(n.Bytes)], ch.Bytes...)
				p = e
			}
			if n.Bytes == nil {
				n.Bytes = []byte{}
			}
		} else {
			if n.Arg > uint64(len(b)-p) {
				return nil, 0, ErrTrunc
			}
			n.Bytes = b[p : p+int(n.Arg)]
			p += int(n.Arg)
		}
	case 4, 5:
		mult := 1
		if n.Major == 5 {
			mult = 2
		}
		if n.Form == FormIndef {
			for {
				if p >= len(b) {
					return nil, 0, ErrTrunc
				}
				if b[p] == 0xff {
					p++
					break
				}
				it, e, err := parseAt(b, p, depth+1)
				if err != nil {
					return nil, 0, err
				}
				n.Items = append(n.Items, it)
				p = e
			}
			if len(n.Items)%mult != 0 {
				return nil, 0, errors.New("space/cbor: odd map")
			}
			n.Arg = uint64(len(n.Items) / mult)
		} else {
			if n.Arg > uint64(len(b)) {
				return nil, 0, ErrTrunc
			}
			cnt := int(n.Arg) * mult
			for i := 0; i < cnt; i++ {
				it, e, err := parseAt(b, p, depth+1)
				if err != nil {
					return nil, 0, err
				}
				n.Items = append(n.Items, it)
				p = e
			}
		}
	case 6:
		if n.Form == FormIndef {
			return nil, 0, errors.New("space/cbor: indefinite tag")
		}
		it, e, err := parseAt(b, p, depth+1)
		if err != nil {
			return nil, 0, err
		}
		n.Items = []*Node{it}
		p = e
	case 7:
		switch n.Form {
		case FormIndef:
			return nil, 0, errors.New("space/cbor: stray break")
		case Form2, Form4, Form8:
			n.Float = true
		}
	}
	n.End = p
	return n, p, nil
}

func putHead(out []byte, major byte, arg uint64, form int) []byte {
	m := major << 5
	if form == FormMin {
		form = minForm(arg)
		if form == FormMin {
			return append(out, m|byte(arg))
		}
	}
	switch form {
	case Form1:
		return append(out, m|24, byte(arg))
	case Form2:
		return append(out, m|25, byte(arg>>8), byte(arg))
	case Form4:
		return append(out, m|26, byte(arg>>24), byte(arg>>16), byte(arg>>8), byte(arg))
	case Form8:
		var t [8]byte
		binary.BigEndian.PutUint64(t[:], arg)
		return append(append(out, m|27), t[:]...)
	case FormIndef:
		return append(out, m|31)
	}
	panic("bad form")
}

// Append encodes n (with the forms recorded in the tree) onto out.
func (n *Node) Append(out []byte) []byte {
	switch n.Major {
	case 0, 1:
		return putHead(out, n.Major, n.Arg, n.Form)
	case 2, 3:
		if n.Form == FormIndef {
			out = putHead(out, n.Major, 0, FormIndef)
			if len(n.Items) > 0 {
				for _, ch := range n.Items {
					out = ch.Append(out)
				}
			} else if len(n.Bytes) > 0 {
				out = putHead(out, n.Major, uint64(len(n.Bytes)), FormMin)
				out = append(out, n.Bytes...)
			}
			return append(out, 0xff)
		}
		out = putHead(out, n.Major, uint64(len(n.Bytes)), n.Form)
		return append(out, n.Bytes...)
	case 4, 5:
		mult := 1
		if n.Major == 5 {
			mult = 2
		}
		out = putHead(out, n.Major, uint64(len(n.Items)/mult), n.Form)
		for _, it := range n.Items {
			out = it.Append(out)
		}
		if n.Form == FormIndef {
			out = append(out, 0xff)
		}
		return out
	case 6:
		out = putHead(out, 6, n.Arg, n.Form)
		return n.Items[0].Append(out)
	default:
		if n.Float {
			return putHead(out, 7, n.Arg, n.Form)
		}
		return putHead(out, 7, n.Arg, n.Form)
	}
}

// Encode returns the encoding of n.
func (n *Node) Encode() []byte { return n.Append(nil) }

// Clone deep-copies the tree (byte contents are shared).
func (n *Node) Clone() *Node {
	c := *n
	if n.Items != nil {
		c.Items = make([]*Node, len(n.Items))
		for i, it := range n.Items {
			c.Items[i] = it.Clone()
		}
	}
	return &c
}

// StringBytes returns the content of a (definite or chunked) string.
func (n *Node) StringBytes() []byte { return n.Bytes }

// Uint returns the value of an unsigned integer node.
func (n *Node) Uint() (uint64, bool) {
	if n.Major != 0 {
		return 0, false
	}
	return n.Arg, true
}

// IsArray / IsMap / Len helpers.
func (n *Node) IsArray() bool { return n.Major == 4 }
func (n *Node) IsMap() bool   { return n.Major == 5 }
func (n *Node) Len() int {
	if n.Major == 5 {
		return len(n.Items) / 2
	}
	return len(n.Items)
}

// MapGetUint returns the value stored under unsigned key k of a map node.
func (n *Node) MapGetUint(k uint64) *Node {
	if n.Major != 5 {
		return nil
	}
	for i := 0; i+1 < len(n.Items); i += 2 {
		if n.Items[i].Major == 0 && n.Items[i].Arg == k {
			return n.Items[i+1]
		}
	}
	return nil
}

// Walk visits every node depth-first in encoding order. path is the index path.
func (n *Node) Walk(fn func(n *Node, path []int)) { n.walk(nil, fn) }

func (n *Node) walk(path []int, fn func(n *Node, path []int)) {
	fn(n, path)
	for i, it := range n.Items {
		it.walk(append(path[:len(path):len(path)], i), fn)
	}
}

// At returns the node at an index path.
func (n *Node) At(path []int) *Node {
	cur := n
	for _, i := range path {
		if i >= len(cur.Items) {
			return nil
		}
		cur = cur.Items[i]
	}
	return cur
}

// ---- builders (canonical forms) ----

func U(v uint64) *Node { return &Node{Major: 0, Arg: v} }
func NInt(v int64) *Node {
	if v >= 0 {
		return U(uint64(v))
	}
	return &Node{Major: 1, Arg: uint64(-1 - v)}
}
func Neg(arg uint64) *Node { return &Node{Major: 1, Arg: arg} } // value = -1-arg
func B(b []byte) *Node     { return &Node{Major: 2, Arg: uint64(len(b)), Bytes: b} }
func T(s string) *Node     { return &Node{Major: 3, Arg: uint64(len(s)), Bytes: []byte(s)} }
func A(items ...*Node) *Node {
	if items == nil {
		items = []*Node{}
	}
	return &Node{Major: 4, Arg: uint64(len(items)), Items: items}
}
func AIndef(items ...*Node) *Node {
	n := A(items...)
	n.Form = FormIndef
	return n
}
func M(kv ...*Node) *Node {
	if len(kv)%2 != 0 {
		panic("odd map")
	}
	if kv == nil {
		kv = []*Node{}
	}
	return &Node{Major: 5, Arg: uint64(len(kv) / 2), Items: kv}
}
func Tag(t uint64, x *Node) *Node { return &Node{Major: 6, Arg: t, Items: []*Node{x}} }
func Simple(v uint64) *Node       { return &Node{Major: 7, Arg: v} }
func Null() *Node                 { return Simple(22) }
func Bool(b bool) *Node {
	if b {
		return Simple(21)
	}
	return Simple(20)
}
func F64(f float64) *Node {
	return &Node{Major: 7, Arg: math.Float64bits(f), Form: Form8, Float: true}
}

// BigUint / BigNeg: tag 2 / tag 3 bignums from big-endian magnitude bytes.
func BigUint(mag []byte) *Node { return Tag(2, B(mag)) }
func BigNeg(mag []byte) *Node  { return Tag(3, B(mag)) }

// Raw parses b and panics on error (for fixtures built by hand).
func Raw(b []byte) *Node {
	n, err := Parse(b)
	if err != nil {
		panic(err)
	}
	return n
}
