package space

import (
	"bytes"
	"os"
	"testing"
)

func TestRoundTrip(t *testing.T) {
	for _, f := range []string{"/repo/protocol/chainsync/testdata/byron_main_block_testnet_f38aa5e8cf0b47d1ffa8b2385aa2d43882282db2ffd5ac0e3dadec1a6f2ecf08.hex"} {
		_ = f
	}
	in := []byte{0x9f, 0x01, 0x18, 0x02, 0x5f, 0x41, 0x61, 0x41, 0x62, 0xff, 0xa1, 0x19, 0x00, 0x03, 0xc2, 0x41, 0x01, 0xfb, 0, 0, 0, 0, 0, 0, 0, 0, 0xff}
	n, err := Parse(in)
	if err != nil {
		t.Fatal(err)
	}
	if !bytes.Equal(n.Encode(), in) {
		t.Fatalf("%x", n.Encode())
	}
	s := Sites(n, nil)
	c := EnumD1(n, s, func(v Variant) bool {
		if _, err := Parse(v.Bytes); err != nil {
			t.Fatalf("%s: %v", v.Desc, err)
		}
		return true
	})
	if c == 0 || !bytes.Equal(n.Encode(), in) {
		t.Fatal("not restored")
	}
	_ = os.Stdout
}
