package space

import (
	"encoding/hex"
	"os"
	"path/filepath"
	"strings"
)

// Fixture is a real artefact read from the repository's test data at run time.
type Fixture struct {
	Name string
	Type uint // block type id as used by ledger.NewBlockFromCbor (0 EBB, 1 Byron main, 2 Shelley … 8 Dijkstra)
	Cbor []byte
}

func repoRoot() string {
	if r := os.Getenv("REPO_ROOT"); r != "" {
		return r
	}
	return "/repo"
}

func readHex(rel string) ([]byte, error) {
	b, err := os.ReadFile(filepath.Join(repoRoot(), rel))
	if err != nil {
		return nil, err
	}
	return hex.DecodeString(strings.TrimSpace(string(b)))
}

// Blocks returns the real block fixtures of every era. withEBB adds the 648 kB Byron
// epoch boundary block. Missing files are skipped (the caller counts what it got).
func Blocks(withEBB bool) []Fixture {
	type ent struct {
		name, rel string
		typ       uint
	}
	list := []ent{
		{"byron-main-small", "protocol/chainsync/testdata/byron_main_block_testnet_f38aa5e8cf0b47d1ffa8b2385aa2d43882282db2ffd5ac0e3dadec1a6f2ecf08.hex", 1},
		{"byron-main", "internal/testdata/byron_block.hex", 1},
		{"shelley-small", "protocol/chainsync/testdata/shelley_block_testnet_02b1c561715da9e540411123a6135ee319b02f60b9a11a603d3305556c04329f.hex", 2},
		{"shelley", "internal/testdata/shelley_block.hex", 2},
		{"allegra", "internal/testdata/allegra_block.hex", 3},
		{"mary", "internal/testdata/mary_block.hex", 4},
		{"alonzo", "internal/testdata/alonzo_block.hex", 5},
		{"babbage", "internal/testdata/babbage_block.hex", 6},
		{"conway", "internal/testdata/conway_block.hex", 7},
		{"dijkstra", "ledger/dijkstra/testdata/musashi_dijkstra_block.hex", 8},
	}
	if withEBB {
		list = append(list, ent{"byron-ebb", "protocol/chainsync/testdata/byron_ebb_testnet_8f8602837f7c6f8b8867dd1cbc1842cf51a27eaed2c70ef48325d00f8efb320f.hex", 0})
	}
	var out []Fixture
	for _, e := range list {
		b, err := readHex(e.rel)
		if err != nil {
			continue
		}
		out = append(out, Fixture{Name: e.name, Type: e.typ, Cbor: b})
	}
	return out
}

// ReadHexFixture reads any hex file below the repository root.
func ReadHexFixture(rel string) ([]byte, error) { return readHex(rel) }
