//go:build verif

package messagesubmission

import "github.com/blinklabs-io/gouroboros/protocol"

// Read-only probes for the verification harnesses (added by overlay, never committed).

// VerifStateMapV1 returns the package-level (pre-Copy) state map of DMQ message-submission v1.
func VerifStateMapV1() protocol.StateMap { return stateMapV1 }

// VerifStateMapV2 returns the package-level (pre-Copy) state map of DMQ message-submission v2.
func VerifStateMapV2() protocol.StateMap { return stateMapV2 }
