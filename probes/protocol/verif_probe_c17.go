//go:build verif

package protocol

// Read-only probes for the verification harnesses (added by overlay, never committed).

// VerifStarted reports whether Start has run (the send queue exists only after Start).
func (p *Protocol) VerifStarted() bool { return p.sendQueueChan != nil }

// VerifRegistered reports whether the protocol has registered with the muxer.
func (p *Protocol) VerifRegistered() bool { return p.muxerSendChan != nil }

// VerifInitialState returns the configured initial state.
func (p *Protocol) VerifInitialState() State { return p.config.InitialState }
