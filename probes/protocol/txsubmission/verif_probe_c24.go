//go:build verif

package txsubmission

// Read-only probes for the C24 harness (added by overlay, never committed).

// VerifAckCount returns the number of ids the server will acknowledge in its next
// RequestTxIds message. Unsynchronised read: only for harness code that runs while no
// API call is in flight (the controlled scheduler runs one goroutine at a time).
func (s *Server) VerifAckCount() int { return s.ackCount }
