//go:build verif

package localmessagesubmission

import "github.com/blinklabs-io/gouroboros/protocol"

// VerifStateMap returns the package-level (pre-Copy) state map (read-only probe for the
// verification harnesses, added by overlay, never committed).
func VerifStateMap() protocol.StateMap { return stateMap }
