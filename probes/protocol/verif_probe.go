//go:build verif

package protocol

// Read-only probes for the verification harnesses (added by overlay, never committed).

// VerifConfig returns the configuration the protocol was constructed with (state map after
// the constructor's edits, match functions, state context, codec).
func (p *Protocol) VerifConfig() ProtocolConfig { return p.config }

// VerifNextState is the real transition function.
func (p *Protocol) VerifNextState(cur State, msg Message) (State, error) {
	return p.nextState(cur, msg)
}

// VerifCurrentState returns the current protocol state.
func (p *Protocol) VerifCurrentState() State { return p.getCurrentState() }

// VerifPendingRecvBytes returns the bytes of received messages queued and not yet handled.
func (p *Protocol) VerifPendingRecvBytes() int {
	p.pendingBytesMu.Lock()
	defer p.pendingBytesMu.Unlock()
	return p.pendingRecvBytes
}

// VerifPendingSendBytes returns the bytes of queued outbound messages.
func (p *Protocol) VerifPendingSendBytes() int {
	p.pendingBytesMu.Lock()
	defer p.pendingBytesMu.Unlock()
	return p.pendingSendBytes
}

// VerifPendingRecvBytesQuiescent reads the receive accounting without taking the lock; only
// for the scheduler's invariant hook, which runs while every goroutine is parked.
func (p *Protocol) VerifPendingRecvBytesQuiescent() int { return p.pendingRecvBytes }
