//go:build verif

package muxer

// Read-only probe for the verification harnesses (added by overlay, never committed).

// VerifDiffusionMode returns the diffusion mode the muxer currently enforces
// (0 none, 1 initiator, 2 responder, 3 initiator and responder).
func (m *Muxer) VerifDiffusionMode() int { return int(m.diffusionMode.Load()) }
