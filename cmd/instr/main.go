// instr rewrites the concurrent packages of gouroboros so that every synchronisation
// operation goes through the controlled scheduler (verifrt). It reads /repo's *current
// working tree*, type-checks each package against export data (stdlib go/types only) and
// writes rewritten copies of the files into an output directory that bin/mkoverlay.py
// turns into a `go build -overlay`. Nothing is written to the repository.
//
// usage: instr -repo /repo -out DIR -go /path/to/go pattern...
package main

import (
	"bytes"
	"encoding/json"
	"flag"
	"fmt"
	"go/ast"
	"go/importer"
	"go/parser"
	"go/token"
	"go/types"
	"io"
	"os"
	"os/exec"
	"path/filepath"
	"sort"
	"strings"
)

const rtPath = "github.com/blinklabs-io/gouroboros/verifrt"

var shims = map[string][2]string{
	"sync":         {"sync", rtPath + "/vsync"},
	"sync/atomic":  {"atomic", rtPath + "/vatomic"},
	"time":         {"time", rtPath + "/vtime"},
	"context":      {"context", rtPath + "/vcontext"},
	"math/rand/v2": {"rand", rtPath + "/vrand"},
}

type listPkg struct {
	Dir        string
	ImportPath string
	Export     string
	GoFiles    []string
	Standard   bool
	DepOnly    bool
}

func goList(gobin, repo string, args ...string) []listPkg {
	cmd := exec.Command(gobin, append([]string{"list", "-json=Dir,ImportPath,Export,GoFiles,Standard,DepOnly"}, args...)...)
	cmd.Dir = repo
	cmd.Stderr = os.Stderr
	out, err := cmd.Output()
	if err != nil {
		fatal("go list: %v", err)
	}
	dec := json.NewDecoder(bytes.NewReader(out))
	var res []listPkg
	for {
		var p listPkg
		if err := dec.Decode(&p); err == io.EOF {
			break
		} else if err != nil {
			fatal("go list json: %v", err)
		}
		res = append(res, p)
	}
	return res
}

func fatal(f string, a ...any) {
	fmt.Fprintf(os.Stderr, "instr: "+f+"\n", a...)
	os.Exit(2)
}

type stats struct {
	Files, Sends, Recvs, Closes, Lens, Selects, Gos, ChanRanges, MapRanges, Imports int
	Unhandled                                                                      []string
}

func main() {
	repo := flag.String("repo", "/repo", "repository root")
	out := flag.String("out", "", "output directory")
	gobin := flag.String("go", "go", "go binary")
	flag.Parse()
	if *out == "" || flag.NArg() == 0 {
		fatal("usage: instr -repo R -out D pattern...")
	}
	pats := flag.Args()
	all := goList(*gobin, *repo, append([]string{"-export", "-deps"}, pats...)...)
	exports := map[string]string{}
	var scope []listPkg
	for _, p := range all {
		if p.Export != "" {
			exports[p.ImportPath] = p.Export
		}
		if !p.DepOnly && !p.Standard {
			scope = append(scope, p)
		}
	}
	fset := token.NewFileSet()
	imp := importer.ForCompiler(fset, "gc", func(path string) (io.ReadCloser, error) {
		f, ok := exports[path]
		if !ok {
			return nil, fmt.Errorf("no export data for %s", path)
		}
		return os.Open(f)
	})
	st := &stats{}
	_ = os.RemoveAll(*out)
	for _, p := range scope {
		var files []*ast.File
		var names []string
		srcs := map[string][]byte{}
		for _, gf := range p.GoFiles {
			fn := filepath.Join(p.Dir, gf)
			b, err := os.ReadFile(fn)
			if err != nil {
				fatal("%v", err)
			}
			f, err := parser.ParseFile(fset, fn, b, parser.ParseComments)
			if err != nil {
				fatal("parse %s: %v", fn, err)
			}
			files = append(files, f)
			names = append(names, fn)
			srcs[fn] = b
		}
		info := &types.Info{Types: map[ast.Expr]types.TypeAndValue{}, Uses: map[*ast.Ident]types.Object{}}
		conf := types.Config{Importer: imp, Error: func(err error) {}}
		if _, err := conf.Check(p.ImportPath, fset, files, info); err != nil {
			fatal("type-check %s: %v", p.ImportPath, err)
		}
		rel, err := filepath.Rel(*repo, p.Dir)
		if err != nil {
			fatal("%v", err)
		}
		for i, f := range files {
			r := &rewriter{fset: fset, info: info, src: srcs[names[i]], file: f, st: st, tf: fset.File(f.Pos())}
			outText, changed := r.run()
			if !changed {
				continue
			}
			dst := filepath.Join(*out, rel, filepath.Base(names[i]))
			_ = os.MkdirAll(filepath.Dir(dst), 0o755)
			if err := os.WriteFile(dst, outText, 0o644); err != nil {
				fatal("%v", err)
			}
			st.Files++
		}
	}
	b, _ := json.Marshal(st)
	_ = os.MkdirAll(*out, 0o755)
	_ = os.WriteFile(filepath.Join(*out, "instr-stats.json"), b, 0o644)
	fmt.Println(string(b))
}

type region struct {
	start, end int // byte offsets
	gen        func(self *region) string
}

type rewriter struct {
	fset    *token.FileSet
	info    *types.Info
	src     []byte
	file    *ast.File
	tf      *token.File
	st      *stats
	regions []*region
	skip    map[ast.Node]bool // nodes handled by an enclosing region
	recv2   map[ast.Node]bool // receive expressions in a comma-ok context
	needRT  bool
	selN    int
}

func (r *rewriter) off(p token.Pos) int { return r.tf.Offset(p) }

func (r *rewriter) posStr(p token.Pos) string {
	ps := r.fset.Position(p)
	return fmt.Sprintf("%q", fmt.Sprintf("%s:%d", filepath.Base(ps.Filename), ps.Line))
}

func (r *rewriter) add(n ast.Node, gen func(self *region) string) {
	r.regions = append(r.regions, &region{start: r.off(n.Pos()), end: r.off(n.End()), gen: gen})
	r.needRT = true
}

// text renders src[from:to) with every maximal region inside it (other than self) replaced.
func (r *rewriter) text(from, to int, self *region) string {
	var sb strings.Builder
	cur := from
	for _, g := range r.regions {
		if g == self || g.start < cur || g.end > to {
			continue
		}
		if g.start == from && g.end == to && self != nil && g.start == self.start && g.end == self.end {
			continue
		}
		sb.Write(r.src[cur:g.start])
		sb.WriteString(g.gen(g))
		cur = g.end
	}
	sb.Write(r.src[cur:to])
	return sb.String()
}

func (r *rewriter) node(n ast.Node, self *region) string {
	return r.text(r.off(n.Pos()), r.off(n.End()), self)
}

func isChan(t types.Type) bool {
	if t == nil {
		return false
	}
	_, ok := t.Underlying().(*types.Chan)
	return ok
}

func isMap(t types.Type) bool {
	if t == nil {
		return false
	}
	_, ok := t.Underlying().(*types.Map)
	return ok
}

func unparen(e ast.Expr) ast.Expr {
	for {
		p, ok := e.(*ast.ParenExpr)
		if !ok {
			return e
		}
		e = p.X
	}
}

func isRecv(e ast.Expr) (*ast.UnaryExpr, bool) {
	u, ok := unparen(e).(*ast.UnaryExpr)
	if ok && u.Op == token.ARROW {
		return u, true
	}
	return nil, false
}

func (r *rewriter) run() ([]byte, bool) {
	r.skip = map[ast.Node]bool{}
	r.recv2 = map[ast.Node]bool{}
	changed := false
	// imports
	type impEdit struct {
		start, end int
		text       string
	}
	var impEdits []impEdit
	for _, is := range r.file.Imports {
		path := strings.Trim(is.Path.Value, "\"")
		sh, ok := shims[path]
		if !ok {
			continue
		}
		name := sh[0]
		if is.Name != nil {
			name = is.Name.Name
		}
		impEdits = append(impEdits, impEdit{r.off(is.Pos()), r.off(is.End()), fmt.Sprintf("%s %q", name, sh[1])})
		r.st.Imports++
		changed = true
	}
	// pre-pass: mark comma-ok receives and select-handled nodes
	ast.Inspect(r.file, func(n ast.Node) bool {
		switch x := n.(type) {
		case *ast.AssignStmt:
			if len(x.Lhs) == 2 && len(x.Rhs) == 1 {
				if u, ok := isRecv(x.Rhs[0]); ok {
					r.recv2[u] = true
				}
			}
		case *ast.ValueSpec:
			if len(x.Names) == 2 && len(x.Values) == 1 {
				if u, ok := isRecv(x.Values[0]); ok {
					r.recv2[u] = true
				}
			}
		case *ast.LabeledStmt:
			if s, ok := x.Stmt.(*ast.SelectStmt); ok {
				r.skip[s] = true
				r.addSelect(x, x.Label.Name, s)
			}
		case *ast.SelectStmt:
			for _, c := range x.Body.List {
				cc := c.(*ast.CommClause)
				switch cm := cc.Comm.(type) {
				case *ast.SendStmt:
					r.skip[cm] = true
				case *ast.ExprStmt:
					if u, ok := isRecv(cm.X); ok {
						r.skip[u] = true
					}
				case *ast.AssignStmt:
					if u, ok := isRecv(cm.Rhs[0]); ok {
						r.skip[u] = true
					}
				}
			}
		}
		return true
	})
	ast.Inspect(r.file, func(n ast.Node) bool {
		if n == nil {
			return true
		}
		switch x := n.(type) {
		case *ast.SelectStmt:
			if !r.skip[x] {
				r.addSelect(x, "", x)
			}
		case *ast.SendStmt:
			if !r.skip[x] {
				r.st.Sends++
				r.add(x, func(self *region) string {
					return fmt.Sprintf("verifrt.SendTo(%s, %s)(%s)", r.posStr(x.Pos()), r.node(x.Chan, self), r.node(x.Value, self))
				})
			}
		case *ast.UnaryExpr:
			if x.Op == token.ARROW && !r.skip[x] {
				r.st.Recvs++
				fn := "Recv"
				if r.recv2[x] {
					fn = "Recv2"
				}
				r.add(x, func(self *region) string {
					return fmt.Sprintf("verifrt.%s(%s, %s)", fn, r.posStr(x.Pos()), r.node(x.X, self))
				})
			}
		case *ast.CallExpr:
			if id, ok := x.Fun.(*ast.Ident); ok && len(x.Args) == 1 {
				if _, isB := r.info.Uses[id].(*types.Builtin); isB {
					switch id.Name {
					case "close":
						r.st.Closes++
						r.add(x, func(self *region) string {
							return fmt.Sprintf("verifrt.Close(%s, %s)", r.posStr(x.Pos()), r.node(x.Args[0], self))
						})
					case "len", "cap":
						if isChan(r.info.TypeOf(x.Args[0])) {
							r.st.Lens++
							fn := "Len"
							if id.Name == "cap" {
								fn = "Cap"
							}
							r.add(x, func(self *region) string {
								return fmt.Sprintf("verifrt.%s(%s, %s)", fn, r.posStr(x.Pos()), r.node(x.Args[0], self))
							})
						}
					}
				}
			}
		case *ast.GoStmt:
			r.st.Gos++
			r.add(x, func(self *region) string { return r.genGo(x, self) })
		case *ast.RangeStmt:
			t := r.info.TypeOf(x.X)
			switch {
			case isChan(t):
				r.st.ChanRanges++
				r.add(x.X, func(self *region) string {
					return fmt.Sprintf("verifrt.Range(%s, %s)", r.posStr(x.Pos()), r.node(x.X, self))
				})
			case isMap(t):
				r.st.MapRanges++
				r.add(x.X, func(self *region) string {
					return fmt.Sprintf("verifrt.MapRange(%s)", r.node(x.X, self))
				})
			}
		}
		return true
	})
	if len(r.regions) == 0 && !changed {
		return nil, false
	}
	sort.SliceStable(r.regions, func(i, j int) bool {
		if r.regions[i].start != r.regions[j].start {
			return r.regions[i].start < r.regions[j].start
		}
		return r.regions[i].end > r.regions[j].end
	})
	// import edits are regions too (they never nest with code regions)
	for _, ie := range impEdits {
		t := ie.text
		r.regions = append(r.regions, &region{start: ie.start, end: ie.end, gen: func(*region) string { return t }})
	}
	sort.SliceStable(r.regions, func(i, j int) bool {
		if r.regions[i].start != r.regions[j].start {
			return r.regions[i].start < r.regions[j].start
		}
		return r.regions[i].end > r.regions[j].end
	})
	nameEnd := r.off(r.file.Name.End())
	var sb strings.Builder
	sb.WriteString(r.text(0, nameEnd, nil))
	if r.needRT {
		sb.WriteString("\n\nimport verifrt \"" + rtPath + "\"\n")
	}
	sb.WriteString(r.text(nameEnd, len(r.src), nil))
	return []byte(sb.String()), true
}

func (r *rewriter) genGo(x *ast.GoStmt, self *region) string {
	call := x.Call
	pos := r.posStr(x.Pos())
	if fl, ok := call.Fun.(*ast.FuncLit); ok && len(call.Args) == 0 {
		return fmt.Sprintf("verifrt.Go(%s, %s)", pos, r.node(fl, self))
	}
	var sb strings.Builder
	sb.WriteString("{\n")
	var args []string
	for i, a := range call.Args {
		switch unparen(a).(type) {
		case *ast.BasicLit:
			args = append(args, r.node(a, self))
			continue
		}
		if id, ok := unparen(a).(*ast.Ident); ok && (id.Name == "nil" || id.Name == "true" || id.Name == "false") {
			args = append(args, r.node(a, self))
			continue
		}
		nm := fmt.Sprintf("_vga%d", i)
		fmt.Fprintf(&sb, "%s := %s\n", nm, r.node(a, self))
		args = append(args, nm)
	}
	fun := r.node(call.Fun, self)
	if _, ok := call.Fun.(*ast.FuncLit); ok {
		fun = "(" + fun + ")"
	}
	ell := ""
	if call.Ellipsis.IsValid() {
		ell = "..."
	}
	fmt.Fprintf(&sb, "verifrt.Go(%s, func() { %s(%s%s) })\n}", pos, fun, strings.Join(args, ", "), ell)
	return sb.String()
}

func (r *rewriter) addSelect(outer ast.Node, label string, s *ast.SelectStmt) {
	r.st.Selects++
	r.selN++
	id := r.selN
	r.add(outer, func(self *region) string {
		var sb strings.Builder
		hasDefault := false
		for _, c := range s.Body.List {
			if c.(*ast.CommClause).Comm == nil {
				hasDefault = true
			}
		}
		sv := fmt.Sprintf("_vs%d", id)
		fmt.Fprintf(&sb, "{\n%s := verifrt.NewSel(%s, %v)\n", sv, r.posStr(s.Pos()), hasDefault)
		type cl struct {
			idx  int
			decl string
			cc   *ast.CommClause
		}
		var cls []cl
		idx := 0
		for _, c := range s.Body.List {
			cc := c.(*ast.CommClause)
			if cc.Comm == nil {
				cls = append(cls, cl{idx: -1, cc: cc})
				continue
			}
			cv := fmt.Sprintf("_vc%d_%d", id, idx)
			decl := ""
			switch cm := cc.Comm.(type) {
			case *ast.SendStmt:
				fmt.Fprintf(&sb, "%s := %s\nverifrt.SelSendTo(%s, %s)(%s)\n", cv, r.node(cm.Chan, self), sv, cv, r.node(cm.Value, self))
			case *ast.ExprStmt:
				u, _ := isRecv(cm.X)
				fmt.Fprintf(&sb, "%s := %s\nverifrt.SelRecvCase(%s, %s)\n", cv, r.node(u.X, self), sv, cv)
			case *ast.AssignStmt:
				u, _ := isRecv(cm.Rhs[0])
				fmt.Fprintf(&sb, "%s := %s\nverifrt.SelRecvCase(%s, %s)\n", cv, r.node(u.X, self), sv, cv)
				var lhs []string
				allBlank := true
				for _, l := range cm.Lhs {
					t := r.node(l, self)
					lhs = append(lhs, t)
					if t != "_" {
						allBlank = false
					}
				}
				if !allBlank {
					fn := "SelVal"
					if len(lhs) == 2 {
						fn = "SelVal2"
					}
					tok := cm.Tok.String()
					decl = fmt.Sprintf("%s %s verifrt.%s(%s, %s)\n", strings.Join(lhs, ", "), tok, fn, sv, cv)
				}
			}
			cls = append(cls, cl{idx: idx, decl: decl, cc: cc})
			idx++
		}
		if label != "" {
			fmt.Fprintf(&sb, "%s:\n", label)
		}
		fmt.Fprintf(&sb, "switch %s.Choose() {\n", sv)
		for i, c := range cls {
			if c.idx < 0 {
				sb.WriteString("default:\n")
			} else {
				fmt.Fprintf(&sb, "case %d:\n%s", c.idx, c.decl)
			}
			from := r.off(c.cc.Colon) + 1
			var to int
			if i+1 < len(cls) {
				to = r.off(cls[i+1].cc.Pos())
			} else {
				to = r.off(s.Body.Rbrace)
			}
			sb.WriteString(r.text(from, to, self))
			sb.WriteString("\n")
		}
		if !hasDefault {
			sb.WriteString("default:\npanic(\"verifrt: impossible select choice\")\n")
		}
		sb.WriteString("}\n}")
		return sb.String()
	})
}
