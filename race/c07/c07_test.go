// Free-running race audit for C07 (not the deciding step; see DESIGN §10.6): the two
// offset extractors of the C07 harness (ledger.NewBlockFromCborWithOffsets and
// ledger.ExtractTransactionOffsets) run on several goroutines at once under the Go race
// detector on the real block fixtures and on a re-encoding of each with a non-minimal
// top-level header. Every goroutine works on its own copy of the bytes. Every reported
// range must lie inside the block, a reported body range of an unchanged real block must
// hash to the transaction id, and the complete set of ranges must be what a sequential
// caller gets.
package c07

import (
	"bytes"
	"fmt"
	"sort"
	"testing"
	"time"

	"golang.org/x/crypto/blake2b"

	"github.com/blinklabs-io/gouroboros/ledger"
	"github.com/blinklabs-io/gouroboros/ledger/common"
	"verif/race/ra"
	"verif/space"
)

var skipCfg = common.VerifyConfig{SkipBodyHashValidation: true}

func dump(off *common.BlockTransactionOffsets, n int) (string, string) {
	var b bytes.Buffer
	bad := ""
	chk := func(r common.ByteRange) string {
		if int64(r.Offset)+int64(r.Length) > int64(n) {
			bad = fmt.Sprintf("range [%d,+%d) outside the %d-byte block", r.Offset, r.Length, n)
		}
		return fmt.Sprintf("%d+%d", r.Offset, r.Length)
	}
	for i, t := range off.Transactions {
		fmt.Fprintf(&b, "tx%d body=%s wit=%s meta=%s outs=", i, chk(t.Body), chk(t.Witness), chk(t.Metadata))
		for _, o := range t.Outputs {
			b.WriteString(chk(o) + ",")
		}
		var ks []string
		for k, r := range t.Datums {
			ks = append(ks, fmt.Sprintf("d:%x=%s", k[:], chk(r)))
		}
		for k, r := range t.Redeemers {
			ks = append(ks, fmt.Sprintf("r:%v=%s", k, chk(r)))
		}
		for k, r := range t.Scripts {
			ks = append(ks, fmt.Sprintf("s:%x=%s", k[:], chk(r)))
		}
		sort.Strings(ks)
		fmt.Fprintf(&b, " %v\n", ks)
	}
	return b.String(), bad
}

func TestRaceAudit(t *testing.T) {
	var cases []ra.Case
	for _, fx := range space.Blocks(false) {
		fx := fx
		if len(fx.Cbor) > 9000 {
			continue
		}
		variants := map[string][]byte{"original": fx.Cbor}
		if root, err := space.Parse(fx.Cbor); err == nil && root.Major == 4 {
			v := root.Clone()
			v.Form = space.Form2
			variants["outer=2B"] = v.Encode()
		}
		for vn, wire := range variants {
			vn, wire := vn, wire
			cases = append(cases, ra.Case{Key: "NewBlockFromCborWithOffsets|" + fx.Name + "|" + vn, Fn: func(g int) string {
				b := append([]byte(nil), wire...)
				bo, err := ledger.NewBlockFromCborWithOffsets(fx.Type, b, skipCfg)
				if err != nil {
					return ra.Err(err)
				}
				d, bad := dump(bo.Offsets, len(b))
				if bad != "" {
					return ra.OracleFail + " " + bad
				}
				if vn == "original" {
					txs := bo.Block.Transactions()
					for i, tl := range bo.Offsets.Transactions {
						if i < len(txs) && tl.Body.Length > 0 {
							h := blake2b.Sum256(b[tl.Body.Offset : int(tl.Body.Offset)+int(tl.Body.Length)])
							if id := txs[i].Hash(); !bytes.Equal(h[:], id.Bytes()) {
								return ra.OracleFail + fmt.Sprintf(" tx %d: reported body range does not hash to the transaction id", i)
							}
						}
					}
				}
				return ra.Sum(d, len(bo.Block.Transactions()))
			}})
			cases = append(cases, ra.Case{Key: "ExtractTransactionOffsets|" + fx.Name + "|" + vn, Fn: func(g int) string {
				b := append([]byte(nil), wire...)
				off, err := ledger.ExtractTransactionOffsets(b)
				if err != nil {
					return ra.Err(err)
				}
				d, bad := dump(off, len(b))
				if bad != "" {
					return ra.OracleFail + " " + bad
				}
				return ra.Sum(d)
			}})
		}
	}
	ra.Run(t, 4, 3, 6*time.Second, cases)
}
