// Free-running race audit for C45 (not the deciding step; see DESIGN §10.6): the reward
// calculation of the C45 harness (common.CalculateRewards, the repository's real
// ledger/common/rewards.go, no overlay) runs on several goroutines at once under the Go race
// detector over snapshots of 1..3 pools (stake x margin x cost x delegation pattern x
// blocks) x reward pots below 2^53 x pool influence. Every goroutine builds its own pots,
// snapshot (own maps, own certificates, own big rationals) and parameters. The invariants of
// the property (pool totals add up to the pot, operator + delegators = pool total, no amount
// above the pot) must hold, and the result must be a sequential caller's. Map iteration
// order is left to the runtime here, so for several pools only order-independent facts are
// compared (the invariants, the set of rewarded pools, the grand total); single-pool results
// are compared completely.
package c45

import (
	"fmt"
	"math/big"
	"sort"
	"testing"
	"time"

	"github.com/blinklabs-io/gouroboros/cbor"
	"github.com/blinklabs-io/gouroboros/ledger/common"
	"verif/race/ra"
)

type poolCfg struct {
	Stake            uint64
	MarginN, MarginD int64
	Cost             uint64
	Deleg            int // 0 no delegator map, 1 one registered delegator, 2 owner 1/3 + delegator (both registered), 3 two delegators, second not registered
	Blocks           uint32
}

func poolID(p, g int) (id common.PoolKeyHash) {
	id[0], id[27] = byte(g+1), byte(p+1)
	return
}

func addrKey(p, d, g int) (k common.AddrKeyHash) {
	k[0], k[26], k[27] = byte(g+1), byte(p+1), byte(d+1)
	return
}

func build(pools []poolCfg, pot uint64, a0 bool, g int) (common.AdaPots, common.RewardSnapshot, common.RewardParameters) {
	snap := common.RewardSnapshot{
		PoolStake:          map[common.PoolKeyHash]uint64{},
		DelegatorStake:     map[common.PoolKeyHash]map[common.AddrKeyHash]uint64{},
		PoolParams:         map[common.PoolKeyHash]*common.PoolRegistrationCertificate{},
		StakeRegistrations: map[common.AddrKeyHash]bool{},
		PoolBlocks:         map[common.PoolKeyHash]uint32{},
	}
	for p, pc := range pools {
		id := poolID(p, g)
		snap.PoolStake[id] = pc.Stake
		snap.TotalActiveStake += pc.Stake
		snap.PoolBlocks[id] = pc.Blocks
		snap.TotalBlocksInEpoch += pc.Blocks
		cert := &common.PoolRegistrationCertificate{Operator: id, Cost: pc.Cost, Margin: cbor.Rat{Rat: big.NewRat(pc.MarginN, pc.MarginD)}}
		switch pc.Deleg {
		case 1:
			snap.DelegatorStake[id] = map[common.AddrKeyHash]uint64{addrKey(p, 0, g): pc.Stake}
			snap.StakeRegistrations[addrKey(p, 0, g)] = true
		case 2:
			own := pc.Stake / 3
			snap.DelegatorStake[id] = map[common.AddrKeyHash]uint64{addrKey(p, 0, g): own, addrKey(p, 1, g): pc.Stake - own}
			snap.StakeRegistrations[addrKey(p, 0, g)] = true
			snap.StakeRegistrations[addrKey(p, 1, g)] = true
			cert.PoolOwners = []common.AddrKeyHash{addrKey(p, 0, g)}
		case 3:
			half := pc.Stake / 2
			snap.DelegatorStake[id] = map[common.AddrKeyHash]uint64{addrKey(p, 0, g): pc.Stake - half, addrKey(p, 1, g): half}
			snap.StakeRegistrations[addrKey(p, 0, g)] = true
		}
		snap.PoolParams[id] = cert
	}
	params := common.RewardParameters{}
	if a0 {
		params.PoolInfluence = big.NewRat(3, 10)
	}
	return common.AdaPots{Reserves: 13_000_000_000_000_000, Treasury: 1_000_000_000_000_000, Rewards: pot}, snap, params
}

func TestRaceAudit(t *testing.T) {
	cfgs := []poolCfg{
		{1_000_000, 0, 1, 0, 1, 1}, {10_000_000, 1, 2, 340_000_000, 2, 1}, {45_000_000_000_000_000, 1, 1, 0, 3, 1},
		{1, 1, 2, 0, 0, 1}, {1_000_000, 1, 2, 340_000_000, 1, 0},
	}
	var sets [][]poolCfg
	for i := range cfgs {
		sets = append(sets, []poolCfg{cfgs[i]})
		for j := i; j < len(cfgs); j++ {
			sets = append(sets, []poolCfg{cfgs[i], cfgs[j]})
		}
	}
	sets = append(sets, []poolCfg{cfgs[0], cfgs[1], cfgs[2]}, []poolCfg{cfgs[1], cfgs[3], cfgs[4]}, []poolCfg{cfgs[0], cfgs[0], cfgs[0]})
	var cases []ra.Case
	for si, ps := range sets {
		for _, pot := range []uint64{1, 7, 1_000_000_000, 1_000_000_000_000_000} {
			for _, a0 := range []bool{true, false} {
				si, ps, pot, a0 := si, ps, pot, a0
				cases = append(cases, ra.Case{Key: fmt.Sprintf("CalculateRewards|pools=%d#%d|pot=%d|a0=%v", len(ps), si, pot, a0), PerG: true, Fn: func(g int) string {
					pots, snap, params := build(ps, pot, a0, g)
					res, err := common.CalculateRewards(pots, snap, params)
					if err != nil {
						return ra.Err(err)
					}
					if res == nil {
						return "nil-result"
					}
					if res.UpdatedPots.Rewards == pot && len(res.PoolRewards) == 0 {
						return "nothing-distributed"
					}
					sum := new(big.Int)
					var ids []int
					var full []any
					for id, pr := range res.PoolRewards {
						ids = append(ids, int(id[27]))
						tt := new(big.Int).SetUint64(pr.TotalRewards)
						sum.Add(sum, tt)
						inner := new(big.Int).SetUint64(pr.OperatorRewards)
						if pr.OperatorRewards > pot || pr.TotalRewards > pot {
							return ra.OracleFail + fmt.Sprintf(" pool %d: operator %d / total %d above the pot %d", id[27], pr.OperatorRewards, pr.TotalRewards, pot)
						}
						var ds []uint64
						for _, d := range pr.DelegatorRewards {
							inner.Add(inner, new(big.Int).SetUint64(d))
							ds = append(ds, d)
							if d > pot {
								return ra.OracleFail + fmt.Sprintf(" pool %d: delegator reward %d above the pot %d", id[27], d, pot)
							}
						}
						if inner.Cmp(tt) != 0 {
							return ra.OracleFail + fmt.Sprintf(" pool %d: operator+delegators=%s, pool total %s", id[27], inner, tt)
						}
						sort.Slice(ds, func(i, j int) bool { return ds[i] < ds[j] })
						full = append(full, pr.TotalRewards, pr.OperatorRewards, fmt.Sprint(ds))
					}
					distributed := new(big.Int).Sub(new(big.Int).SetUint64(pot), new(big.Int).SetUint64(res.UpdatedPots.Rewards))
					if sum.Cmp(distributed) != 0 || distributed.Cmp(new(big.Int).SetUint64(pot)) != 0 || res.TotalRewards != pot {
						return ra.OracleFail + fmt.Sprintf(" pool totals add up to %s, pot %d (UpdatedPots.Rewards=%d, TotalRewards=%d)", sum, pot, res.UpdatedPots.Rewards, res.TotalRewards)
					}
					sort.Ints(ids)
					parts := []any{fmt.Sprint(ids), sum.String()}
					if len(ps) == 1 {
						parts = append(parts, full...)
					}
					return ra.Sum(parts...)
				}})
			}
		}
	}
	ra.Run(t, 4, 6, 6*time.Second, cases)
}
