// Free-running race audit for C03 (not the deciding step; see DESIGN §10.6): a
// representative slice of the tagged-sum decoders of the C03 harness (certificates, DReps,
// pool relays, native scripts, nonces, datum options, Conway governance actions, peer
// addresses) and cbor.DecodeIdFromList run on several goroutines at once under the Go race
// detector, each instance with its array header in all six forms. Every goroutine builds
// its own bytes. The variant must be the one the table gives for the first element (or an
// error), exactly as for a sequential caller.
package c03

import (
	"fmt"
	"strings"
	"testing"
	"time"

	"github.com/blinklabs-io/gouroboros/cbor"
	"github.com/blinklabs-io/gouroboros/ledger/babbage"
	"github.com/blinklabs-io/gouroboros/ledger/common"
	"github.com/blinklabs-io/gouroboros/ledger/conway"
	"github.com/blinklabs-io/gouroboros/protocol/peersharing"
	"verif/race/ra"
	"verif/space"
)

var A, U, B, T, M, Tag, Null = space.A, space.U, space.B, space.T, space.M, space.Tag, space.Null

func lab(name string, t any) string { return fmt.Sprintf("%s/%v", name, t) }
func typ(v any) string              { return fmt.Sprintf("%T", v) }

func hN(n int, k byte) []byte {
	b := make([]byte, n)
	for i := range b {
		b[i] = byte(i*7+int(k)*31) ^ k
	}
	return b
}
func h28(k byte) *space.Node    { return B(hN(28, k)) }
func h32(k byte) *space.Node    { return B(hN(32, k)) }
func cred(k byte) *space.Node   { return A(U(0), h28(k)) }
func anchor() *space.Node       { return A(T("https://example.invalid/a.json"), h32(9)) }
func unitInterval() *space.Node { return Tag(30, A(U(1), U(2))) }
func rewardAccount() *space.Node {
	return B(append([]byte{0xe1}, hN(28, 5)...))
}
func govActionID() *space.Node { return A(h32(4), U(0)) }

type inst struct {
	tag  uint64
	root *space.Node
	path []int
	want string // "" = must be rejected
}

type site struct {
	name  string
	dec   func(b []byte) (string, error)
	insts []inst
}

func sites() []*site {
	var out []*site
	certNames := map[uint64]string{
		0: "StakeRegistrationCertificate", 1: "StakeDeregistrationCertificate", 2: "StakeDelegationCertificate",
		3: "PoolRegistrationCertificate", 4: "PoolRetirementCertificate", 5: "GenesisKeyDelegationCertificate",
		6: "MoveInstantaneousRewardsCertificate", 7: "RegistrationCertificate", 8: "DeregistrationCertificate",
		9: "VoteDelegationCertificate", 10: "StakeVoteDelegationCertificate", 11: "StakeRegistrationDelegationCertificate",
		12: "VoteRegistrationDelegationCertificate", 13: "StakeVoteRegistrationDelegationCertificate",
		14: "AuthCommitteeHotCertificate", 15: "ResignCommitteeColdCertificate", 16: "RegistrationDrepCertificate",
		17: "DeregistrationDrepCertificate", 18: "UpdateDrepCertificate",
	}
	drepKey := A(U(0), h28(7))
	relay0 := A(U(0), U(3001), B([]byte{127, 0, 0, 1}), Null())
	poolParams := []*space.Node{h28(1), h32(2), U(1000), U(340), unitInterval(), rewardAccount(),
		A(h28(3)), A(relay0), A(T("https://example.invalid/p.json"), h32(6))}
	certBodies := map[uint64][]*space.Node{
		0: {cred(1)}, 1: {cred(1)}, 2: {cred(1), h28(2)}, 3: poolParams, 4: {h28(1), U(300)}, 5: {h28(1), h28(2), h32(3)},
		6: {A(U(0), M(cred(1), U(5)))}, 7: {cred(1), U(2000000)}, 8: {cred(1), U(2000000)}, 9: {cred(1), drepKey},
		10: {cred(1), h28(2), drepKey}, 11: {cred(1), h28(2), U(2000000)}, 12: {cred(1), drepKey, U(2000000)},
		13: {cred(1), h28(2), drepKey, U(2000000)}, 14: {cred(1), cred(2)}, 15: {cred(1), anchor()},
		16: {cred(1), U(500000000), anchor()}, 17: {cred(1), U(500000000)}, 18: {cred(1), Null()},
	}
	cs := &site{name: "common.CertificateWrapper", dec: func(b []byte) (string, error) {
		var w common.CertificateWrapper
		if _, err := cbor.Decode(b, &w); err != nil {
			return "", err
		}
		return lab(strings.TrimPrefix(typ(w.Certificate), "*common."), w.Type), nil
	}}
	for t := uint64(0); t <= 18; t++ {
		cs.insts = append(cs.insts, inst{tag: t, root: A(append([]*space.Node{U(t)}, certBodies[t]...)...), want: lab(certNames[t], t)})
	}
	cs.insts = append(cs.insts, inst{tag: 19, root: A(U(19), cred(1))})
	out = append(out, cs)

	out = append(out, &site{name: "common.Drep", dec: func(b []byte) (string, error) {
		var d common.Drep
		if _, err := cbor.Decode(b, &d); err != nil {
			return "", err
		}
		return fmt.Sprintf("drep/%d/cred=%d", d.Type, len(d.Credential)), nil
	}, insts: []inst{
		{tag: 0, root: A(U(0), h28(1)), want: "drep/0/cred=28"}, {tag: 1, root: A(U(1), h28(1)), want: "drep/1/cred=28"},
		{tag: 2, root: A(U(2)), want: "drep/2/cred=0"}, {tag: 3, root: A(U(3)), want: "drep/3/cred=0"}, {tag: 4, root: A(U(4))},
	}})

	out = append(out, &site{name: "common.PoolRelay", dec: func(b []byte) (string, error) {
		var r common.PoolRelay
		if _, err := cbor.Decode(b, &r); err != nil {
			return "", err
		}
		return fmt.Sprintf("relay/%d/port=%v/ipv4=%v/ipv6=%v/host=%v", r.Type, r.Port != nil, r.Ipv4 != nil, r.Ipv6 != nil, r.Hostname != nil), nil
	}, insts: []inst{
		{tag: 0, root: A(U(0), U(3001), B([]byte{127, 0, 0, 1}), Null()), want: "relay/0/port=true/ipv4=true/ipv6=false/host=false"},
		{tag: 1, root: A(U(1), U(3001), T("relay.example.invalid")), want: "relay/1/port=true/ipv4=false/ipv6=false/host=true"},
		{tag: 2, root: A(U(2), T("relay.example.invalid")), want: "relay/2/port=false/ipv4=false/ipv6=false/host=true"},
		{tag: 3, root: A(U(3), T("relay.example.invalid"))},
	}})

	nsNames := map[uint64]string{0: "NativeScriptPubkey", 1: "NativeScriptAll", 2: "NativeScriptAny", 3: "NativeScriptNofK",
		4: "NativeScriptInvalidBefore", 5: "NativeScriptInvalidHereafter", 6: "NativeScriptRequireGuard"}
	pk := func(k byte) *space.Node { return A(U(0), h28(k)) }
	nsBodies := map[uint64][]*space.Node{0: {h28(1)}, 1: {A(pk(1), pk(2))}, 2: {A(pk(1), pk(2))}, 3: {U(1), A(pk(1), pk(2))}, 4: {U(1000)}, 5: {U(2000)}, 6: {cred(3)}}
	ns := &site{name: "common.NativeScript", dec: func(b []byte) (string, error) {
		var s common.NativeScript
		if _, err := cbor.Decode(b, &s); err != nil {
			return "", err
		}
		t := uint(999)
		switch x := s.Item().(type) {
		case *common.NativeScriptPubkey:
			t = x.Type
		case *common.NativeScriptAll:
			t = x.Type
		case *common.NativeScriptAny:
			t = x.Type
		case *common.NativeScriptNofK:
			t = x.Type
		case *common.NativeScriptInvalidBefore:
			t = x.Type
		case *common.NativeScriptInvalidHereafter:
			t = x.Type
		case *common.NativeScriptRequireGuard:
			t = x.Type
		}
		return lab(strings.TrimPrefix(typ(s.Item()), "*common."), t), nil
	}}
	for t := uint64(0); t <= 6; t++ {
		ns.insts = append(ns.insts, inst{tag: t, root: A(append([]*space.Node{U(t)}, nsBodies[t]...)...), want: lab(nsNames[t], t)})
	}
	ns.insts = append(ns.insts, inst{tag: 7, root: A(U(7), U(1))})
	out = append(out, ns)

	nvalue := hN(32, 8)
	out = append(out, &site{name: "common.Nonce", dec: func(b []byte) (string, error) {
		var n common.Nonce
		if _, err := cbor.Decode(b, &n); err != nil {
			return "", err
		}
		return fmt.Sprintf("nonce/%d/value=%v", n.Type, string(n.Value[:]) == string(nvalue)), nil
	}, insts: []inst{
		{tag: 0, root: A(U(0)), want: "nonce/0/value=false"}, {tag: 1, root: A(U(1), B(nvalue)), want: "nonce/1/value=true"}, {tag: 2, root: A(U(2), B(nvalue))},
	}})

	addr := append([]byte{0x61}, hN(28, 5)...)
	dhash := hN(32, 11)
	wrapOut := func(d *space.Node) *space.Node { return M(U(0), B(addr), U(1), U(1000000), U(2), d) }
	out = append(out, &site{name: "babbage.BabbageTransactionOutputDatumOption", dec: func(b []byte) (string, error) {
		var o babbage.BabbageTransactionOutput
		if _, err := cbor.Decode(b, &o); err != nil {
			return "", err
		}
		switch {
		case o.DatumOption == nil:
			return "no-datum-option", nil
		case o.Datum() != nil:
			return "datum_option/1/inline-data", nil
		case o.DatumHash() != nil:
			return fmt.Sprintf("datum_option/0/hash-matches=%v", string(o.DatumHash().Bytes()) == string(dhash)), nil
		}
		return "datum_option/empty", nil
	}, insts: []inst{
		{tag: 0, root: wrapOut(A(U(0), B(dhash))), path: []int{5}, want: "datum_option/0/hash-matches=true"},
		{tag: 1, root: wrapOut(A(U(1), Tag(24, B([]byte{0x01})))), path: []int{5}, want: "datum_option/1/inline-data"},
		{tag: 2, root: wrapOut(A(U(2), B(dhash))), path: []int{5}},
	}})

	gaNames := map[uint64]string{0: "ParameterChangeGovAction", 1: "HardForkInitiationGovAction", 2: "TreasuryWithdrawalGovAction",
		3: "NoConfidenceGovAction", 4: "UpdateCommitteeGovAction", 5: "NewConstitutionGovAction", 6: "InfoGovAction"}
	gaBodies := map[uint64][]*space.Node{
		0: {govActionID(), M(U(0), U(44)), Null()}, 1: {Null(), A(U(10), U(0))}, 2: {M(rewardAccount(), U(1000)), Null()},
		3: {govActionID()}, 4: {Null(), A(cred(1)), M(cred(2), U(500)), unitInterval()}, 5: {Null(), A(anchor(), Null())}, 6: {},
	}
	gaType := func(a common.GovAction) (string, uint) {
		switch x := a.(type) {
		case *conway.ConwayParameterChangeGovAction:
			return "ParameterChangeGovAction", x.Type
		case *common.HardForkInitiationGovAction:
			return "HardForkInitiationGovAction", x.Type
		case *common.TreasuryWithdrawalGovAction:
			return "TreasuryWithdrawalGovAction", x.Type
		case *common.NoConfidenceGovAction:
			return "NoConfidenceGovAction", x.Type
		case *common.UpdateCommitteeGovAction:
			return "UpdateCommitteeGovAction", x.Type
		case *common.NewConstitutionGovAction:
			return "NewConstitutionGovAction", x.Type
		case *common.InfoGovAction:
			return "InfoGovAction", x.Type
		}
		return typ(a), 999
	}
	gs := &site{name: "conway.GovAction", dec: func(b []byte) (string, error) {
		var g conway.ConwayGovAction
		if _, err := cbor.Decode(b, &g); err != nil {
			return "", err
		}
		n, it := gaType(g.Action)
		return fmt.Sprintf("%s/%d/%d", n, g.Type, it), nil
	}}
	for t := uint64(0); t <= 6; t++ {
		gs.insts = append(gs.insts, inst{tag: t, root: A(append([]*space.Node{U(t)}, gaBodies[t]...)...), want: fmt.Sprintf("%s/%d/%d", gaNames[t], t, t)})
	}
	gs.insts = append(gs.insts, inst{tag: 7, root: A(U(7))})
	out = append(out, gs)

	w := func(k uint64) *space.Node { return U(0x01020304 + k) }
	out = append(out, &site{name: "peersharing.PeerAddress", dec: func(b []byte) (string, error) {
		var p peersharing.PeerAddress
		if _, err := cbor.Decode(b, &p); err != nil {
			return "", err
		}
		return fmt.Sprintf("peer/iplen=%d/port=%d", len(p.IP), p.Port), nil
	}, insts: []inst{
		{tag: 0, root: A(U(0), w(0), U(3001)), want: "peer/iplen=4/port=3001"},
		{tag: 1, root: A(U(1), w(1), w(2), w(3), w(4), U(3001)), want: "peer/iplen=16/port=3001"},
		{tag: 2, root: A(U(2), w(0), U(3001))},
	}})
	return out
}

func TestRaceAudit(t *testing.T) {
	var cases []ra.Case
	for _, s := range sites() {
		s := s
		for ii, in := range s.insts {
			in := in
			for form := space.FormMin; form <= space.FormIndef; form++ {
				form := form
				cases = append(cases, ra.Case{Key: fmt.Sprintf("%s|tag=%d#%d|outer=%s", s.name, in.tag, ii, space.FormNames[form]), Fn: func(g int) string {
					root := in.root.Clone()
					l := root.At(in.path)
					l.Form = form
					enc := root.Encode()
					n, err := space.Parse(enc)
					if err != nil {
						return "audit: own reader rejects own bytes"
					}
					ln := n.At(in.path)
					list := enc[ln.Start:ln.End]
					idS := ""
					if id, err := cbor.DecodeIdFromList(list); err != nil {
						idS = "id-error"
					} else if uint64(id) != in.tag {
						return ra.OracleFail + fmt.Sprintf(" DecodeIdFromList=%d, first element is %d", id, in.tag)
					} else {
						idS = fmt.Sprint(id)
					}
					got, derr := s.dec(enc)
					if derr != nil {
						return ra.Sum(idS, "rejected", derr)
					}
					if got != in.want || in.want == "" {
						return ra.OracleFail + fmt.Sprintf(" decoded as %q, table says %q", got, in.want)
					}
					return ra.Sum(idS, got)
				}})
			}
		}
	}
	ra.Run(t, 4, 4, 6*time.Second, cases)
}
