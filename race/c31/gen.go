// Case builder and oracle of the C31 harness (harness/c31/main.go: own language-views
// encoder, cost tables, caseT, world.build, world.expected, world.observe, setCostModels),
// copied for the race audit. Changes: a stub construction failure panics instead of calling
// the check's Internal(); the builder's unexported hash helpers are called through
// race/txba's exported names.
package c31

import (
	"bytes"
	"errors"
	"fmt"
	"reflect"
	"runtime"
	"sort"
	"strings"

	"github.com/blinklabs-io/gouroboros/ledger/alonzo"
	"github.com/blinklabs-io/gouroboros/ledger/babbage"
	"github.com/blinklabs-io/gouroboros/ledger/common"
	"github.com/blinklabs-io/gouroboros/ledger/conway"
	"github.com/blinklabs-io/gouroboros/ledger/dijkstra"
	. "verif/race/txba"
	"verif/space"
)

// ---------- own language-views encoder ----------

// langViews returns the encoding for the language set (bit0 V1, bit1 V2, bit2 V3).
func langViews(langs int, tables map[int][]int64) []byte {
	type ent struct{ k, v []byte }
	var es []ent
	for l := 0; l < 3; l++ {
		if langs&(1<<l) == 0 {
			continue
		}
		ints := make([]*space.Node, len(tables[l]))
		for i, x := range tables[l] {
			ints[i] = space.NInt(x)
		}
		if l == 0 {
			// key = serialise(serialise(0)) ; value = serialise(bytes(indefinite list))
			es = append(es, ent{space.B(space.U(0).Encode()).Encode(), space.B(space.AIndef(ints...).Encode()).Encode()})
		} else {
			es = append(es, ent{space.U(uint64(l)).Encode(), space.A(ints...).Encode()})
		}
	}
	sort.Slice(es, func(i, j int) bool {
		if len(es[i].k) != len(es[j].k) {
			return len(es[i].k) < len(es[j].k)
		}
		return bytes.Compare(es[i].k, es[j].k) < 0
	})
	out := []byte{0xa0 | byte(len(es))}
	for _, e := range es {
		out = append(out, e.k...)
		out = append(out, e.v...)
	}
	return out
}

// cost model tables: 0 = realistic lengths with index-derived values, 1 = short with boundary integers
func costTables(t int) map[int][]int64 {
	m := map[int][]int64{}
	if t == 1 {
		b := []int64{0, -1, 23, 24, 255, 256, 65535, 65536, 1 << 32, -(1 << 31) - 1, 1<<63 - 1, -1 << 63}
		m[0], m[1], m[2] = b, b[:7], append([]int64{7}, b...)
		return m
	}
	for l, n := range []int{166, 175, 251} {
		v := make([]int64, n)
		for i := range v {
			x := int64(i)*7919*int64(l+1) + 13
			switch i % 5 {
			case 1:
				x = -x
			case 2:
				x = x * 1_000_003
			case 3:
				x = int64(i % 24)
			}
			v[i] = x
		}
		m[l] = v
	}
	return m
}

// ---------- cases ----------

const (
	rfList = iota
	rfMap
	rfAbsent
	rfEmptyList
	rfEmptyMap
	rfMapDupSame // map form whose first (tag, index) key occurs twice with EQUAL values (cardano-node accepts, last wins; gouroboros #1860)
	rfMapDupDiff // ... twice with DIFFERENT values
)

var rfNames = []string{"list", "map", "absent", "empty-list", "empty-map", "map-duplicate-key-equal-values", "map-duplicate-key-different-values"}

const (
	dAbsent = iota
	dOne
	dTwo
	dEmpty
)

var dNames = []string{"absent", "one", "two", "present-empty"}

const (
	declCorrect = iota
	declBitflip
	declAbsent
	declCanonical // hash over the canonical bytes of a re-encoded container
	declFedBack
)

var declNames = []string{"correct", "one-bit-off", "absent", "hash-of-canonical-bytes", "fed-back-computed"}

type caseT struct {
	era     int
	langs   int
	prov    int // 0 witness set, 1 reference inputs
	rform   int
	datums  int
	dtagged bool // datums as tag-258 set (Conway+)
	table   int
	extra   int // 0 none; 1+l = an additional reference input whose UTxO carries an UNRELATED reference script of language l (not needed by the transaction)
}

func langStr(l int) string {
	var p []string
	for i, n := range []string{"V1", "V2", "V3"} {
		if l&(1<<i) != 0 {
			p = append(p, n)
		}
	}
	if len(p) == 0 {
		return "{}"
	}
	return "{" + strings.Join(p, ",") + "}"
}

func (k caseT) String() string {
	pv := "witness"
	if k.prov == 1 {
		pv = "reference"
	}
	d := dNames[k.datums]
	if k.dtagged {
		d += "(tag258)"
	}
	ex := ""
	if k.extra > 0 {
		ex = fmt.Sprintf("/unneeded-ref-script=V%d", k.extra)
	}
	return fmt.Sprintf("%s/langs=%s/%s/redeemers=%s/datums=%s/table%d%s", EraNames[k.era], langStr(k.langs), pv, rfNames[k.rform], d, k.table, ex)
}

type world struct {
	keyA    *Key
	seed    int64
	scripts [3][]byte // flat script bytes per language (representatives)
}

func scriptHash(lang int, sc []byte) []byte { return B224(append([]byte{byte(lang + 1)}, sc...)) }

// built is everything needed to emit a transaction for a case with a chosen declared hash.
type built struct {
	spec      *TxSpec
	stub      *Stub
	redeemers *space.Node // nil = absent
	datums    *space.Node // nil = absent
	nRed      int
	nDat      int
}

func (w *world) build(k caseT) *built {
	b := &built{stub: NewStub()}
	s := &TxSpec{Era: k.era, Fee: 2_000_000}
	if k.era == EraDijkstra {
		s.ThreeElem = true
	}
	form := func(addr []byte, v *space.Node) *space.Node { return Out(k.era, addr, v) }
	// inputs: one key-locked, then one script-locked per language; sort by (txid, index)
	type inp struct {
		in   TxIn
		lang int // -1 = key
	}
	ins := []inp{{TxIn{FakeTxId("c31-fee", w.seed), 0}, -1}}
	for l := 0; l < 3; l++ {
		if k.langs&(1<<l) != 0 {
			ins = append(ins, inp{TxIn{FakeTxId(fmt.Sprintf("c31-script-%d", l), w.seed), uint64(l)}, l})
		}
	}
	sort.Slice(ins, func(i, j int) bool {
		if c := bytes.Compare(ins[i].in.Id, ins[j].in.Id); c != 0 {
			return c < 0
		}
		return ins[i].in.Idx < ins[j].in.Idx
	})
	var refs []*space.Node
	for _, x := range ins {
		s.Inputs = append(s.Inputs, x.in)
		if x.lang < 0 {
			if err := b.stub.AddUtxo(k.era, x.in, form(EnterpriseKeyAddr(0, w.keyA.Hash), ValueCoin(10_000_000))); err != nil {
				panic(fmt.Sprintf("stub: %v", err))
			}
			continue
		}
		sc := w.scripts[x.lang]
		if err := b.stub.AddUtxo(k.era, x.in, form(EnterpriseScriptAddr(0, scriptHash(x.lang, sc)), ValueCoin(5_000_000))); err != nil {
			panic(fmt.Sprintf("stub: %v", err))
		}
		if k.prov == 0 {
			switch x.lang {
			case 0:
				s.PlutusV1 = append(s.PlutusV1, sc)
			case 1:
				s.PlutusV2 = append(s.PlutusV2, sc)
			case 2:
				s.PlutusV3 = append(s.PlutusV3, sc)
			}
		} else {
			ri := TxIn{FakeTxId(fmt.Sprintf("c31-ref-%d", x.lang), w.seed), 0}
			inner := space.A(space.U(uint64(x.lang+1)), space.B(sc)).Encode()
			out := space.M(space.U(0), space.B(EnterpriseKeyAddr(0, w.keyA.Hash)), space.U(1), space.U(3_000_000), space.U(3), space.Tag(24, space.B(inner)))
			if err := b.stub.AddUtxo(k.era, ri, out); err != nil {
				panic(fmt.Sprintf("stub ref utxo: %v", err))
			}
			refs = append(refs, ri.Node())
		}
	}
	if k.extra > 0 {
		l := k.extra - 1
		other := append(append([]byte{}, w.scripts[l]...), 0xee) // a different script: its hash locks nothing in this transaction
		ri := TxIn{FakeTxId("c31-unrelated-ref", w.seed), 7}
		inner := space.A(space.U(uint64(l+1)), space.B(other)).Encode()
		out := space.M(space.U(0), space.B(EnterpriseKeyAddr(0, w.keyA.Hash)), space.U(1), space.U(3_000_000), space.U(3), space.Tag(24, space.B(inner)))
		if err := b.stub.AddUtxo(k.era, ri, out); err != nil {
			panic(fmt.Sprintf("stub ref utxo: %v", err))
		}
		refs = append(refs, ri.Node())
	}
	if len(refs) > 0 {
		s.ExtraBody = append(s.ExtraBody, space.U(18), space.A(refs...))
	}
	nOut := uint64(len(ins)-1)*5_000_000 + 10_000_000 - s.Fee
	s.Outputs = []*space.Node{form(EnterpriseKeyAddr(0, w.keyA.Hash), ValueCoin(nOut))}
	// redeemers: one spend redeemer per script input; data differs per entry
	datas := []*space.Node{space.U(42), space.Tag(121, space.A()), space.B([]byte{1})}
	ex := func(i int) *space.Node { return space.A(space.U(uint64(1000+i)), space.U(uint64(2000000+i))) }
	var lst, mp []*space.Node
	ri := 0
	for idx, x := range ins {
		if x.lang < 0 {
			continue
		}
		lst = append(lst, space.A(space.U(0), space.U(uint64(idx)), datas[ri%3], ex(ri)))
		mp = append(mp, space.A(space.U(0), space.U(uint64(idx))), space.A(datas[ri%3], ex(ri)))
		ri++
	}
	switch k.rform {
	case rfList:
		b.redeemers, b.nRed = space.A(lst...), len(lst)
	case rfMap:
		b.redeemers, b.nRed = space.M(mp...), len(lst)
	case rfMapDupSame:
		// the original bytes carry the first pair twice; any re-encoding of the decoded map drops one
		dup := append(append([]*space.Node{}, mp...), mp[0].Clone(), mp[1].Clone())
		b.redeemers, b.nRed = space.M(dup...), len(lst)
	case rfMapDupDiff:
		other := space.A(space.B([]byte("other redeemer data")), space.A(space.U(7), space.U(9)))
		dup := append(append([]*space.Node{}, mp...), mp[0].Clone(), other)
		b.redeemers, b.nRed = space.M(dup...), len(lst)
	case rfEmptyList:
		b.redeemers = space.A()
	case rfEmptyMap:
		b.redeemers = space.M()
	}
	// datums: original bytes deliberately not what a re-encoder would produce (indefinite list inside)
	d1 := space.Tag(121, space.AIndef(space.U(1), space.U(2)))
	d2 := space.B([]byte("datum-two"))
	var ds []*space.Node
	switch k.datums {
	case dOne:
		ds, b.nDat = []*space.Node{d1}, 1
	case dTwo:
		ds, b.nDat = []*space.Node{d1, d2}, 2
	case dEmpty:
		ds = []*space.Node{}
	}
	if k.datums != dAbsent {
		b.datums = space.A(ds...)
		if k.dtagged {
			b.datums = space.Tag(258, b.datums)
		}
	}
	s.Redeemers, s.Datums = b.redeemers, b.datums
	b.spec = s
	return b
}

// expected hash per the specification for the containers as they currently are in b.
func (w *world) expected(k caseT, b *built, tables map[int][]int64) (required bool, h []byte) {
	var red []byte
	if b.redeemers != nil {
		red = b.redeemers.Encode()
	} else if k.era >= EraConway {
		red = []byte{0xa0}
	} else {
		red = []byte{0x80}
	}
	var dat []byte
	if b.datums != nil && b.nDat > 0 {
		dat = b.datums.Encode()
	}
	in := append(append(append([]byte{}, red...), dat...), langViews(k.langs, tables)...)
	return b.nRed > 0 || b.nDat > 0, B256(in)
}

type verdict struct {
	decoded  bool
	decErr   string
	accepted bool
	sdhErrs  []string
	computed []byte // from a ScriptDataHashMismatchError
	ruleSeen bool
}

func ruleName(r common.UtxoValidationRuleFunc) string {
	return runtime.FuncForPC(reflect.ValueOf(r).Pointer()).Name()
}

func (w *world) observe(env *EraEnv, sdhIdx map[int]bool, b *built, declared []byte) (v verdict, txb []byte) {
	s := *b.spec
	s.ScriptDataHash = declared
	s.VKeys = nil
	s.SignWith(w.keyA)
	txb = s.Bytes()
	tx, err := DecodeTx(s.Era, txb)
	if err != nil {
		v.decErr = err.Error()
		return v, txb
	}
	v.decoded = true
	v.accepted = true
	for _, r := range env.RunAll(tx, 100, b.stub) {
		if sdhIdx[r.Index] {
			v.accepted = false
			if r.Panic != nil {
				v.sdhErrs = append(v.sdhErrs, fmt.Sprintf("panic: %v", r.Panic))
			} else {
				v.sdhErrs = append(v.sdhErrs, fmt.Sprintf("%T", r.Err))
			}
		}
		if r.Err == nil {
			continue
		}
		var e1 common.ScriptDataHashMismatchError
		var e2 common.MissingScriptDataHashError
		var e3 common.ExtraneousScriptDataHashError
		var e4 common.MissingRedeemersForScriptDataHashError
		switch {
		case errors.As(r.Err, &e1):
			v.accepted = false
			v.computed = append([]byte{}, e1.Computed[:]...)
			v.sdhErrs = append(v.sdhErrs, "ScriptDataHashMismatchError")
		case errors.As(r.Err, &e2), errors.As(r.Err, &e3), errors.As(r.Err, &e4):
			v.accepted = false
			v.sdhErrs = append(v.sdhErrs, fmt.Sprintf("%T", r.Err))
		}
	}
	return v, txb
}

func setCostModels(env *EraEnv, t map[int][]int64) {
	cm := map[uint][]int64{0: t[0], 1: t[1], 2: t[2]}
	switch p := env.PP.(type) {
	case *alonzo.AlonzoProtocolParameters:
		p.CostModels = map[uint][]int64{0: t[0]}
	case *babbage.BabbageProtocolParameters:
		p.CostModels = map[uint][]int64{0: t[0], 1: t[1]}
	case *conway.ConwayProtocolParameters:
		p.CostModels = cm
	case *dijkstra.DijkstraProtocolParameters:
		p.CostModels = cm
	}
}
