// Free-running race audit for C31 (not the deciding step; see DESIGN §10.6): the C31
// pipeline (transaction with Plutus scripts, redeemers, witness datums and a declared script
// data hash written with the harness's CBOR writer -> real era decoder -> every rule of the
// era list, reading the script-data-hash outcome) runs on several goroutines at once under
// the Go race detector for Alonzo..Dijkstra x language sets x script provision x redeemer
// form x datums x two cost-model tables x declared hash {correct, one bit off, absent}.
// Every goroutine owns its key, scripts, transaction, stub state, protocol parameters and
// cost-model tables (gen.go / race/txba are copies of the harness's builder and of its
// specification-derived language-views encoder). The spec-correct hash must be accepted
// when a hash is required, a wrong or missing one rejected, and every outcome must be a
// sequential caller's.
package c31

import (
	"encoding/hex"
	"fmt"
	"strings"
	"testing"
	"time"

	"verif/race/ra"
	. "verif/race/txba"
)

func newWorld(g int) *world {
	seed := int64(30 + g)
	w := &world{keyA: NewKey("a", seed), seed: seed}
	base, _ := hex.DecodeString("4d01000033222220051200120011")
	for l := 0; l < 3; l++ {
		w.scripts[l] = append(append([]byte{}, base...), byte(l), byte(seed))
	}
	return w
}

func TestRaceAudit(t *testing.T) {
	var ks []caseT
	for _, era := range []int{EraAlonzo, EraBabbage, EraConway, EraDijkstra} {
		nl := map[int]int{EraAlonzo: 1, EraBabbage: 2, EraConway: 3, EraDijkstra: 3}[era]
		for _, langs := range []int{0, 1, 3, 7} {
			if langs >= 1<<nl {
				continue
			}
			for tb := 0; tb < 2; tb++ {
				if tb == 1 && langs != 1<<nl-1 {
					continue // the second cost-model table only with every language of the era
				}
				if langs == 0 {
					ks = append(ks, caseT{era, 0, 0, rfAbsent, dOne, false, tb, 0}, caseT{era, 0, 0, rfAbsent, dAbsent, false, tb, 0})
					continue
				}
				ks = append(ks, caseT{era, langs, 0, rfList, dAbsent, false, tb, 0}, caseT{era, langs, 0, rfList, dTwo, false, tb, 0})
				if era >= EraBabbage {
					ks = append(ks, caseT{era, langs, 1, rfList, dOne, false, tb, 0})
				}
				if era >= EraConway {
					ks = append(ks, caseT{era, langs, 0, rfMap, dOne, true, tb, 0})
				}
			}
		}
	}
	var cases []ra.Case
	for _, k := range ks {
		k := k
		cases = append(cases, ra.Case{Key: "script-data-hash|" + k.String(), PerG: true, Fn: func(g int) string {
			w := newWorld(g)
			tables := costTables(k.table)
			env := NewEraEnv(k.era)
			setCostModels(env, tables)
			sdh := map[int]bool{}
			for i, r := range env.Rules {
				if strings.HasSuffix(ruleName(r), "UtxoValidateScriptDataHash") {
					sdh[i] = true
				}
			}
			b := w.build(k)
			required, want := w.expected(k, b, tables)
			flip := append([]byte{}, want...)
			flip[5] ^= 0x04
			var parts []any
			for di, declared := range [][]byte{want, flip, nil} {
				v, txb := w.observe(env, sdh, b, declared)
				if !v.decoded { // e.g. Dijkstra does not take the list form of redeemers: an outcome, compared sequentially
					parts = append(parts, txb, "decoder rejects: "+v.decErr)
					continue
				}
				wantAcc := (required && di == 0) || (!required && di == 2)
				if v.accepted != wantAcc {
					return ra.OracleFail + fmt.Sprintf(" declared=%s required=%v: accepted=%v (%v), specification says %v", []string{"correct", "one-bit-off", "absent"}[di], required, v.accepted, v.sdhErrs, wantAcc)
				}
				parts = append(parts, txb, v.accepted, fmt.Sprint(v.sdhErrs), v.computed)
			}
			return ra.Sum(parts...)
		}})
	}
	ra.Run(t, 4, 2, 6*time.Second, cases)
}
