// Free-running race audit for C06 (not the deciding step; see DESIGN §10.6): the
// multi-asset operations of the C06 harness (NewMultiAsset, Asset, Compare, Add,
// cbor.Encode, cbor.Decode) in the three instantiations *big.Int / int64 / uint64 run on
// several goroutines at once under the Go race detector over all ordered pairs of a small
// universe of values (2 policies x 2 asset names, boundary quantities). Every goroutine
// builds its own values (own maps, own big integers); nothing but the library's package
// state is shared. Required: per-asset sums as computed with exact integers (wrapped for the
// fixed-width instantiations), a+b Compare-equal to b+a, encode/decode round trip, and every
// outcome equal to a sequential caller's.
package c06

import (
	"fmt"
	"math/big"
	"testing"
	"time"

	"github.com/blinklabs-io/gouroboros/cbor"
	"github.com/blinklabs-io/gouroboros/ledger/common"
	"verif/race/ra"
)

const nSlots = 4

var names = [2][]byte{[]byte("b"), []byte("aa")}

func policy(i, g int) (p common.Blake2b224) {
	for k := range p {
		p[k] = byte(0x11*(i+1) + k + g)
	}
	return
}

type spec [nSlots]int8 // -1 absent, else index into the alphabet

type num interface{ int64 | uint64 | *big.Int }

type inst[T num] struct {
	name  string
	alpha []T
	big   func(T) *big.Int
	wrap  func(*big.Int) *big.Int // reference arithmetic of the instantiation
}

func pow2(n uint) *big.Int { return new(big.Int).Lsh(big.NewInt(1), n) }

func (in inst[T]) build(s spec, g int) *common.MultiAsset[T] {
	data := map[common.Blake2b224]map[cbor.ByteString]T{}
	for i := 0; i < nSlots; i++ {
		if s[i] < 0 {
			continue
		}
		p := policy(i/2, g)
		if data[p] == nil {
			data[p] = map[cbor.ByteString]T{}
		}
		v := in.alpha[s[i]]
		if bv, ok := any(v).(*big.Int); ok {
			v = any(new(big.Int).Set(bv)).(T)
		}
		data[p][cbor.NewByteString(append([]byte(nil), names[i%2]...))] = v
	}
	m := common.NewMultiAsset[T](data)
	return &m
}

func (in inst[T]) read(m *common.MultiAsset[T], g int) [nSlots]string {
	var r [nSlots]string
	for i := 0; i < nSlots; i++ {
		q := m.Asset(policy(i/2, g), names[i%2])
		if bv, ok := any(q).(*big.Int); ok && bv == nil {
			r[i] = "0"
			continue
		}
		r[i] = in.big(q).String()
	}
	return r
}

func (in inst[T]) want(a, b spec) [nSlots]string {
	var r [nSlots]string
	for i := 0; i < nSlots; i++ {
		s := new(big.Int)
		if a[i] >= 0 {
			s.Add(s, in.big(in.alpha[a[i]]))
		}
		if b[i] >= 0 {
			s.Add(s, in.big(in.alpha[b[i]]))
		}
		r[i] = in.wrap(s).String()
	}
	return r
}

func cases[T num](in inst[T], specs []spec) []ra.Case {
	var out []ra.Case
	for ai, sa := range specs {
		for bi, sb := range specs {
			sa, sb := sa, sb
			out = append(out, ra.Case{Key: fmt.Sprintf("MultiAsset[%s]|pair|a=%d|b=%d", in.name, ai, bi), PerG: true, Fn: func(g int) string {
				a, b := in.build(sa, g), in.build(sb, g)
				cmp, cmpR := a.Compare(b), b.Compare(a)
				if cmp != cmpR || !a.Compare(in.build(sa, g)) {
					return ra.OracleFail + " Compare asymmetric / not reflexive"
				}
				s1, s2 := in.build(sa, g), in.build(sb, g)
				s1.Add(b)
				s2.Add(a)
				got, want := in.read(s1, g), in.want(sa, sb)
				if got != want {
					return ra.OracleFail + fmt.Sprintf(" a.Add(b) holds %v, per-asset sums are %v", got, want)
				}
				if !s1.Compare(s2) || !s2.Compare(s1) {
					return ra.OracleFail + " a+b and b+a do not compare equal"
				}
				if in.read(a, g) != in.want(sa, spec{-1, -1, -1, -1}) || in.read(b, g) != in.want(sb, spec{-1, -1, -1, -1}) {
					return ra.OracleFail + " Add changed an operand"
				}
				enc, err := cbor.Encode(s1)
				if err != nil {
					return ra.Sum("encode", err)
				}
				enc2, _ := cbor.Encode(s2)
				var d common.MultiAsset[T]
				_, derr := cbor.Decode(enc, &d)
				parts := []any{cmp, fmt.Sprint(got), enc, enc2, ra.Err(derr)}
				if derr == nil {
					if !d.Compare(s1) || !s1.Compare(&d) {
						return ra.OracleFail + fmt.Sprintf(" decode(encode(a+b)) does not compare equal to a+b (%x)", enc)
					}
					parts = append(parts, fmt.Sprint(in.read(&d, g)))
				}
				return ra.Sum(parts...)
			}})
		}
	}
	return out
}

func TestRaceAudit(t *testing.T) {
	// values: empty, single entries, both names of one policy, both policies, a zero entry
	specs := []spec{
		{-1, -1, -1, -1}, {1, -1, -1, -1}, {-1, 2, -1, -1}, {1, 2, -1, -1}, {2, -1, 1, -1}, {0, -1, -1, 1}, {3, 1, 2, -1}, {-1, -1, 3, 3},
	}
	m64 := pow2(64)
	wrapU := func(x *big.Int) *big.Int { return new(big.Int).Mod(x, m64) }
	wrapI := func(x *big.Int) *big.Int {
		y := new(big.Int).Mod(x, m64)
		if y.Cmp(pow2(63)) >= 0 {
			y.Sub(y, m64)
		}
		return y
	}
	bigI := inst[*big.Int]{"bigint", []*big.Int{big.NewInt(0), big.NewInt(1), new(big.Int).Sub(pow2(64), big.NewInt(1)), pow2(63)},
		func(v *big.Int) *big.Int { return new(big.Int).Set(v) }, func(x *big.Int) *big.Int { return x }}
	i64 := inst[int64]{"int64", []int64{0, 1, -1, 1<<62 + 5}, func(v int64) *big.Int { return big.NewInt(v) }, wrapI}
	u64 := inst[uint64]{"uint64", []uint64{0, 1, 2, 1 << 62}, func(v uint64) *big.Int { return new(big.Int).SetUint64(v) }, wrapU}
	var cs []ra.Case
	cs = append(cs, cases(bigI, specs)...)
	cs = append(cs, cases(i64, specs)...)
	cs = append(cs, cases(u64, specs)...)
	ra.Run(t, 4, 3, 6*time.Second, cs)
}
