// Free-running race audit for C33 (not the deciding step; see DESIGN §10.6): the C33
// pipeline (transaction with reward withdrawals written with the harness's CBOR writer ->
// real era decoder -> conway.UtxoValidateWithdrawals called directly and every rule of the
// era list) runs on several goroutines at once under the Go race detector for the three
// parameter/era configurations x protocol major {9,10,11,12} x ledger state with / without
// the DRep-delegation capability x withdrawal sets (amount x delegated, one or two key-hash
// accounts). Every goroutine owns its keys, record, stub ledger state and protocol
// parameters (gen.go / race/txbb are copies of the harness's builder and oracle). The error
// class observed must be the one the property's table gives, and every outcome must be a
// sequential caller's.
package c33

import (
	"fmt"
	"testing"
	"time"

	"github.com/blinklabs-io/gouroboros/ledger/common"
	"github.com/blinklabs-io/gouroboros/ledger/conway"
	"verif/race/ra"
	. "verif/race/txbb"
)

func build(g gcase, seed int64) (*TxRec, common.LedgerState, common.ProtocolParameters) {
	payKey := NewKey(seed, 1)
	stake := []Key{NewKey(seed, 2), NewKey(seed, 3)}
	in := MkIn(int(seed)+1, 0)
	base := NewStub()
	dl := map[[28]byte]bool{}
	var total uint64
	valid := g.Valid
	r := &TxRec{Era: g.era(), Inputs: []In{in}, Fee: 1000, Signers: []Key{payKey}, IsValid: &valid}
	for i, w := range g.W {
		cred := stake[i].Hash
		r.Signers = append(r.Signers, stake[i])
		if w.Reg {
			base.RegStake[cred] = true
			base.Rewards[cred] = w.Amount
		}
		if w.Delegated {
			dl[cred] = true
		}
		r.Withdrawals = append(r.Withdrawals, Wdrl{RewardAddr(stake[i]), w.Amount})
		total += w.Amount
	}
	_ = base.AddUtxo(g.era(), in, Out{Addr: EnterpriseAddr(payKey), Coin: 2_000_000})
	r.Outputs = []Out{{Addr: EnterpriseAddr(payKey), Coin: 2_000_000 - 1000 + total}}
	p := NeutralPP()
	p.ProtocolMajor = uint64(g.PV)
	p.UseConwayType = g.Cfg == 2
	pp := MakePP(g.era(), p)
	var ls common.LedgerState = base
	if g.Cap {
		ls = &stubWithDRep{base, dl}
	}
	return r, ls, pp
}

func TestRaceAudit(t *testing.T) {
	sets := [][]wd{
		{{1, true, true, false}}, {{1, false, true, false}}, {{0, false, true, false}},
		{{1, true, true, false}, {1, false, true, false}}, {{1, true, true, false}, {1, true, true, false}},
	}
	var cases []ra.Case
	for cfg := 0; cfg < 3; cfg++ {
		for _, pv := range []uint{9, 10, 11, 12} {
			for _, cp := range []bool{true, false} {
				for si, ws := range sets {
					g := gcase{cfg, pv, true, cp, ws}
					cases = append(cases, ra.Case{Key: fmt.Sprintf("withdrawal-gate|%s|pv=%d|capability=%v|set=%d", cfgNames[cfg], pv, cp, si), PerG: true, Fn: func(gid int) string {
						rec, ls, pp := build(g, int64(80+gid))
						tx, raw, err := rec.Build()
						if err != nil {
							return ra.OracleFail + " well-formed transaction rejected by the decoder: " + err.Error()
						}
						derr := conway.UtxoValidateWithdrawals(tx, 100, ls, pp)
						direct := classify([]error{derr})
						list := RunList(Rules(g.era()), tx, 100, ls, pp)
						var es []error
						for _, x := range list {
							es = append(es, x.Err)
						}
						lc := classify(es)
						if w := want(g); w != wAny && (direct != w || lc != w) {
							return ra.OracleFail + fmt.Sprintf(" expected %s, direct rule %s, rule list %s (%s)", w, direct, lc, ErrStr(derr))
						}
						return ra.Sum(raw, ErrStr(derr), direct, lc, fmt.Sprint(Names(list)), ErrStr(Verify(g.era(), tx, 100, ls, pp)))
					}})
				}
			}
		}
	}
	ra.Run(t, 4, 2, 6*time.Second, cases)
}
