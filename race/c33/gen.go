// Stub with the optional capability, case types and the oracle of the C33 harness
// (harness/c33/main.go: stubWithDRep, wd, gcase, want, classify), copied unchanged for the
// race audit.
package c33

import (
	"errors"

	"github.com/blinklabs-io/gouroboros/ledger/common"
	"github.com/blinklabs-io/gouroboros/ledger/conway"
	. "verif/race/txbb"
)

// ledger state with the optional capability
type stubWithDRep struct {
	*StubState
	deleg map[[28]byte]bool
}

func (s *stubWithDRep) DRepDelegation(c common.Credential) (*common.Drep, error) {
	if s.deleg[[28]byte(c.Credential)] {
		return &common.Drep{Type: common.DrepTypeAbstain}, nil
	}
	return nil, nil
}

var _ common.DRepDelegationState = (*stubWithDRep)(nil)

// one withdrawal
type wd struct {
	Amount    uint64 `json:"amount"`
	Delegated bool   `json:"delegated"`
	Reg       bool   `json:"registered"`
	Script    bool   `json:"script_hash"`
}

type gcase struct {
	Cfg   int  `json:"cfg"` // 0 conway/conway-pp, 1 dijkstra/dijkstra-pp, 2 dijkstra/conway-pp
	PV    uint `json:"pv"`
	Valid bool `json:"is_valid"`
	Cap   bool `json:"state_has_capability"`
	W     []wd `json:"withdrawals"`
}

var cfgNames = []string{"conway-tx+conway-pp", "dijkstra-tx+dijkstra-pp", "dijkstra-tx+conway-pp"}

func (g gcase) era() int {
	if g.Cfg == 0 {
		return EraConway
	}
	return EraDijkstra
}

const (
	wNone     = "no-delegation-error"
	wNotDeleg = "not-delegated-error"
	wUnavail  = "state-unavailable-error"
	wAny      = "no-expectation"
)

// want is the oracle.
func want(g gcase) string {
	gatePV := g.PV == 10 || g.PV == 11
	if !gatePV {
		return wNone // "versions up to 9 and from 12 on impose no delegation requirement"
	}
	if !g.Valid {
		return wNone // ARCHITECTURE.md: validation of withdrawals is skipped for phase-2-invalid transactions
	}
	// PV10/11, phase-1/2 valid
	relevantUndeleg, relevantAny, outside := false, false, false
	for _, w := range g.W {
		if !w.Reg {
			// a withdrawal from an unregistered account is rejected by the registration check,
			// whatever the delegation state: no expectation about which error is reported
			return wAny
		}
		if w.Script {
			outside = true // script-hash accounts: the statement does not speak about them
			continue
		}
		if w.Amount == 0 {
			outside = true // the statement speaks about non-zero withdrawals only
			continue
		}
		relevantAny = true
		if !w.Delegated {
			relevantUndeleg = true
		}
	}
	switch {
	case g.Cap && relevantUndeleg:
		return wNotDeleg
	case !g.Cap && relevantAny:
		return wUnavail
	case outside:
		return wAny
	}
	return wNone
}

// classify looks for the two error types of the gate in an error chain.
func classify(errs []error) string {
	got := wNone
	for _, e := range errs {
		var nd conway.WithdrawalNotDelegatedToDRepError
		var un conway.DRepDelegationStateUnavailableError
		if errors.As(e, &un) {
			return wUnavail
		}
		if errors.As(e, &nd) {
			got = wNotDeleg
		}
	}
	return got
}
