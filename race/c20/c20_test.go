// Free-running race audit for C20 (not the deciding step; see DESIGN §10.6): the version
// table entry points of the C20 harness (the four version lists, GetProtocolVersion,
// the version-map generators, each version's own version-data decoder) run on several
// goroutines at once under the Go race detector over every table x three magics x all 8
// flag combinations. Every goroutine asks for its own maps and encodes/decodes its own
// version data; the tables themselves are the library's package state. Lists must be
// strictly ascending and stable, a generated entry must round-trip through its version's
// decoder with the same four accessor values, and everything must equal what a sequential
// caller sees.
package c20

import (
	"fmt"
	"testing"
	"time"

	"github.com/blinklabs-io/gouroboros/cbor"
	"github.com/blinklabs-io/gouroboros/protocol"
	"verif/race/ra"
)

type table struct {
	name string
	list func() []uint16
	gen  func(magic uint32, diff, ps, q bool) protocol.ProtocolVersionMap
}

func acc(vd protocol.VersionData) string {
	return fmt.Sprintf("magic=%d diff=%v ps=%v query=%v", vd.NetworkMagic(), vd.DiffusionMode(), vd.PeerSharing(), vd.Query())
}

func TestRaceAudit(t *testing.T) {
	tables := []table{
		{"NtC", protocol.GetProtocolVersionsNtC, func(m uint32, d, p, q bool) protocol.ProtocolVersionMap {
			return protocol.GetProtocolVersionMap(protocol.ProtocolModeNodeToClient, m, d, p, q)
		}},
		{"NtN", protocol.GetProtocolVersionsNtN, func(m uint32, d, p, q bool) protocol.ProtocolVersionMap {
			return protocol.GetProtocolVersionMap(protocol.ProtocolModeNodeToNode, m, d, p, q)
		}},
		{"DMQ-NtC", protocol.GetProtocolVersionsDMQNtC, func(m uint32, d, p, q bool) protocol.ProtocolVersionMap {
			return protocol.GetProtocolVersionMapDMQNtC(m, q)
		}},
		{"DMQ-NtN", protocol.GetProtocolVersionsDMQNtN, func(m uint32, d, p, q bool) protocol.ProtocolVersionMap {
			return protocol.GetProtocolVersionMapDMQNtN(m, d, p, q)
		}},
	}
	var cases []ra.Case
	for _, tb := range tables {
		tb := tb
		for _, magic := range []uint32{1, 764824073, 0xffffffff} {
			for combo := 0; combo < 8; combo++ {
				magic, combo := magic, combo
				cases = append(cases, ra.Case{Key: fmt.Sprintf("%s|magic=%d|flags=%d", tb.name, magic, combo), Fn: func(g int) string {
					vs := tb.list()
					for i := range vs {
						if i > 0 && vs[i-1] >= vs[i] {
							return ra.OracleFail + fmt.Sprintf(" %s list not strictly ascending: %v", tb.name, vs)
						}
					}
					m := tb.gen(magic, combo&1 != 0, combo&2 != 0, combo&4 != 0)
					parts := []any{fmt.Sprint(vs), len(m)}
					for _, v := range vs {
						vd, ok := m[v]
						if !ok || vd == nil {
							return ra.OracleFail + fmt.Sprintf(" no version data generated for listed version %d", v)
						}
						pv := protocol.GetProtocolVersion(v)
						if pv.NewVersionDataFromCborFunc == nil {
							return ra.OracleFail + fmt.Sprintf(" listed version %d has no decoder", v)
						}
						wire, err := cbor.Encode(vd)
						if err != nil {
							return ra.OracleFail + " encode: " + err.Error()
						}
						back, err := pv.NewVersionDataFromCborFunc(wire)
						if err != nil || back == nil {
							return ra.OracleFail + fmt.Sprintf(" v%d: own decoder rejects generated data %x: %v", v, wire, err)
						}
						if acc(back) != acc(vd) {
							return ra.OracleFail + fmt.Sprintf(" v%d: generated {%s} decodes to {%s}", v, acc(vd), acc(back))
						}
						if vd.NetworkMagic() != magic {
							return ra.OracleFail + fmt.Sprintf(" v%d: requested magic %d, entry reports %d", v, magic, vd.NetworkMagic())
						}
						parts = append(parts, v, wire, acc(back), pv.EnableShelleyEra, pv.EnableAllegraEra, pv.EnableMaryEra, pv.EnableAlonzoEra,
							pv.EnableBabbageEra, pv.EnableConwayEra, pv.EnableDijkstraEra)
					}
					return ra.Sum(parts...)
				}})
			}
		}
	}
	// unlisted version numbers have no entry (a slice of the 16-bit space per case)
	for lo := 0; lo < 65536; lo += 8192 {
		lo := lo
		cases = append(cases, ra.Case{Key: fmt.Sprintf("GetProtocolVersion|%d..%d", lo, lo+8191), Fn: func(g int) string {
			n := 0
			for v := lo; v < lo+8192; v++ {
				if protocol.GetProtocolVersion(uint16(v)).NewVersionDataFromCborFunc != nil {
					n++
				}
			}
			return fmt.Sprint("configured=", n)
		}})
	}
	ra.Run(t, 4, 8, 6*time.Second, cases)
}
