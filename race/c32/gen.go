// Case builder and oracle of the C32 harness (harness/c32/main.go: variants, ccase,
// directRules, build, baseline, judge, PPFor), copied unchanged for the race audit.
package c32

import (
	"fmt"
	"math/big"

	"github.com/blinklabs-io/gouroboros/ledger/alonzo"
	"github.com/blinklabs-io/gouroboros/ledger/babbage"
	"github.com/blinklabs-io/gouroboros/ledger/common"
	"github.com/blinklabs-io/gouroboros/ledger/conway"
	"github.com/blinklabs-io/gouroboros/ledger/dijkstra"
	. "verif/race/txbb"
)

const maxColl = 3

type variant struct {
	name     string
	ret      bool  // has a collateral return (Babbage+)
	r3       *bool // nil: outside the statement
	twoToken bool
}

func bp(b bool) *bool { return &b }

var variants = []variant{
	{"ada-only,no-return", false, bp(true), false},
	{"ada-only,ada-return", true, bp(true), false},
	{"tokens,no-return", false, bp(false), false},
	{"tokens,ada-only-return", true, bp(false), false},
	{"tokens,fully-returned", true, bp(true), false},
	{"tokens,partly-returned", true, bp(false), false},
	{"tokens,other-asset-returned", true, bp(false), false},
	{"tokens-in-two-inputs,sum-returned", true, bp(true), true},
	{"ada-only,return-adds-tokens", true, nil, false},
	{"tokens-in-two-inputs,no-return", false, bp(false), true},
}

type ccase struct {
	Era   int    `json:"era"`
	Valid bool   `json:"is_valid"`
	RMap  bool   `json:"redeemer_map"`
	Fee   uint64 `json:"fee"`
	Pct   uint64 `json:"pct"`
	Bal   int64  `json:"balance"`
	N     int    `json:"n_inputs"`
	Var   int    `json:"variant"`
}

// directRules returns the era's exported rule function per requirement (nil: the era has none).
func directRules(era int) map[string]common.UtxoValidationRuleFunc {
	switch era {
	case EraAlonzo:
		return map[string]common.UtxoValidationRuleFunc{"R2": alonzo.UtxoValidateInsufficientCollateral, "R3": alonzo.UtxoValidateCollateralContainsNonAda, "R1": alonzo.UtxoValidateNoCollateralInputs}
	case EraBabbage:
		return map[string]common.UtxoValidationRuleFunc{"R2": babbage.UtxoValidateInsufficientCollateral, "R3": babbage.UtxoValidateCollateralContainsNonAda, "R1": babbage.UtxoValidateNoCollateralInputs, "R4": babbage.UtxoValidateTooManyCollateralInputs}
	case EraConway:
		return map[string]common.UtxoValidationRuleFunc{"R2": conway.UtxoValidateInsufficientCollateral, "R3": conway.UtxoValidateCollateralContainsNonAda, "R1": conway.UtxoValidateNoCollateralInputs, "R4": conway.UtxoValidateTooManyCollateralInputs}
	default:
		return map[string]common.UtxoValidationRuleFunc{"R2": dijkstra.UtxoValidateInsufficientCollateral, "R3": dijkstra.UtxoValidateCollateralContainsNonAda, "R1": dijkstra.UtxoValidateNoCollateralInputs, "R4": dijkstra.UtxoValidateTooManyCollateralInputs}
	}
}

var (
	polX  = [28]byte{0xaa, 1}
	nameX = []byte("X")
	nameY = []byte("Y")
)

const retCoin = 5

// build makes the transaction record and ledger state of a case.
func build(tc ccase, key Key, seed int64) (*TxRec, *StubState, error) {
	v := variants[tc.Var]
	ls := NewStub()
	in := MkIn(int(seed)+1, 0)
	if err := ls.AddUtxo(tc.Era, in, Out{Addr: EnterpriseAddr(key), Coin: 1_000_000 + tc.Fee%1000}); err != nil {
		return nil, nil, err
	}
	valid := tc.Valid
	r := &TxRec{Era: tc.Era, Inputs: []In{in}, Outputs: []Out{{Addr: EnterpriseAddr(key), Coin: 1_000_000}}, Fee: tc.Fee,
		Signers: []Key{key}, Redeemers: 1, RedeemerMap: tc.RMap, IsValid: &valid}
	// sum of collateral input coin
	s := tc.Bal
	if v.ret {
		s += retCoin
	}
	if s < 0 {
		return nil, nil, fmt.Errorf("negative input sum")
	}
	for i := 0; i < tc.N; i++ {
		coin := uint64(s) / uint64(tc.N)
		if i == 0 {
			coin += uint64(s) % uint64(tc.N)
		}
		o := Out{Addr: EnterpriseAddr(key), Coin: coin}
		hasTok := tc.Var >= 2 && tc.Var <= 7 || tc.Var == 9
		if hasTok {
			switch {
			case v.twoToken && tc.N >= 2 && i == 0:
				o.Assets = []Asset{{polX, nameX, 2}}
			case v.twoToken && tc.N >= 2 && i == 1:
				o.Assets = []Asset{{polX, nameX, 3}}
			case !(v.twoToken && tc.N >= 2) && i == 0:
				o.Assets = []Asset{{polX, nameX, 5}}
			}
		}
		ci := MkIn(int(seed)+100+i, uint64(i))
		if err := ls.AddUtxo(tc.Era, ci, o); err != nil {
			return nil, nil, err
		}
		r.Collateral = append(r.Collateral, ci)
	}
	if v.ret {
		ro := Out{Addr: EnterpriseAddr(key), Coin: retCoin}
		switch tc.Var {
		case 4, 7:
			ro.Assets = []Asset{{polX, nameX, 5}}
		case 5:
			ro.Assets = []Asset{{polX, nameX, 4}}
		case 6:
			ro.Assets = []Asset{{polX, nameY, 5}}
		case 8:
			ro.Assets = []Asset{{polX, nameX, 1}}
		}
		r.CollReturn = &ro
	}
	return r, ls, nil
}

// baseline: the same transaction with one generous ada-only collateral input and no return.
func baseline(tc ccase, key Key, seed int64) (*TxRec, *StubState, error) {
	b := tc
	b.N, b.Var, b.Bal = 1, 0, 1<<62
	return build(b, key, seed)
}

type oracle struct {
	r1, r2, r4 bool
	r3         *bool
	floorReq   *big.Int
	sum        *big.Int
}

func judge(tc ccase) oracle {
	v := variants[tc.Var]
	var o oracle
	o.r1 = tc.N >= 1
	prod := new(big.Int).Mul(new(big.Int).SetUint64(tc.Fee), new(big.Int).SetUint64(tc.Pct))
	lhs := new(big.Int).Mul(big.NewInt(tc.Bal), big.NewInt(100))
	o.r2 = lhs.Cmp(prod) >= 0
	o.r3 = v.r3
	o.r4 = tc.N <= maxColl
	o.floorReq = new(big.Int).Div(prod, big.NewInt(100))
	o.sum = big.NewInt(tc.Bal)
	if v.ret {
		o.sum.Add(o.sum, big.NewInt(retCoin))
	}
	return o
}

func PPFor(tc ccase) common.ProtocolParameters {
	p := NeutralPP()
	p.CollateralPercentage = tc.Pct
	p.MaxCollateralInputs = maxColl
	return MakePP(tc.Era, p)
}
