// Free-running race audit for C32 (not the deciding step; see DESIGN §10.6): the C32
// pipeline (script-running transaction with collateral written with the harness's CBOR
// writer -> real era decoder -> the era's exported collateral rules and the whole rule
// list) runs on several goroutines at once under the Go race detector for
// Alonzo..Dijkstra x is_valid x fee x collateral percentage x balance around
// fee*pct/100 x number of collateral inputs x token/return variant. Every goroutine owns
// its key, record, stub ledger state and protocol parameters (gen.go / race/txbb are copies
// of the harness's builder and oracle). A failed requirement R1..R4 must make the era's
// rule for it reject, a case meeting all four must pass all of them, and every outcome must
// be a sequential caller's.
package c32

import (
	"fmt"
	"math/big"
	"sort"
	"testing"
	"time"

	"verif/race/ra"
	. "verif/race/txbb"
)

func TestRaceAudit(t *testing.T) {
	type cfg struct {
		era        int
		valid, rmp bool
	}
	cfgs := []cfg{{EraAlonzo, true, false}, {EraBabbage, false, false}, {EraConway, true, true}, {EraDijkstra, true, true}}
	var tcs []ccase
	for _, g := range cfgs {
		for _, fp := range [][2]uint64{{3, 150}, {101, 99}} {
			fee, pct := fp[0], fp[1]
			if fee == 101 && g.era != EraConway {
				continue
			}
			prod := new(big.Int).Mul(new(big.Int).SetUint64(fee), new(big.Int).SetUint64(pct))
			fl := new(big.Int).Div(prod, big.NewInt(100)).Int64()
			ce := new(big.Int).Div(new(big.Int).Add(prod, big.NewInt(99)), big.NewInt(100)).Int64()
			tcs = append(tcs, ccase{g.era, g.valid, g.rmp, fee, pct, 0, 0, 0})
			for _, n := range []int{1, maxColl, maxColl + 1} {
				for vi, v := range variants {
					if v.ret && g.era < EraBabbage {
						continue
					}
					if n != 1 && vi != 0 && vi != 7 {
						continue
					}
					for _, b := range []int64{fl, ce} {
						tcs = append(tcs, ccase{g.era, g.valid, g.rmp, fee, pct, b, n, vi})
					}
				}
			}
		}
	}
	var cases []ra.Case
	for _, tc := range tcs {
		tc := tc
		cases = append(cases, ra.Case{Key: fmt.Sprintf("collateral|%s|fee=%d,pct=%d|bal=%d|n=%d|%s", cfgName(tc), tc.Fee, tc.Pct, tc.Bal, tc.N, variants[tc.Var].name), PerG: true, Fn: func(g int) string {
			seed := int64(20 + g)
			key := NewKey(seed, 1)
			rec, ls, err := build(tc, key, seed)
			if err != nil {
				return "not-constructible: " + err.Error()
			}
			tx, raw, err := rec.Build()
			if err != nil {
				return ra.Sum("decode", err)
			}
			pp := PPFor(tc)
			o := judge(tc)
			dr := directRules(tc.Era)
			var names []string
			for n := range dr {
				names = append(names, n)
			}
			sort.Strings(names)
			rej := map[string]bool{}
			parts := []any{raw}
			for _, n := range names {
				e := dr[n](tx, 100, ls, pp)
				rej[n] = e != nil
				parts = append(parts, n, ErrStr(e))
			}
			holds := map[string]*bool{"R1": &o.r1, "R2": &o.r2, "R3": o.r3, "R4": &o.r4}
			all := true
			for _, n := range names {
				h := holds[n]
				if h == nil {
					all = false
					continue
				}
				if !*h {
					all = false
					if !rej[n] && tc.N > 0 {
						return ra.OracleFail + fmt.Sprintf(" requirement %s fails but the era's rule for it accepts (sum %s, floor %s)", n, o.sum, o.floorReq)
					}
				}
			}
			if all {
				for _, n := range names {
					if rej[n] {
						return ra.OracleFail + fmt.Sprintf(" all of R1..R4 hold but the rule for %s rejects", n)
					}
				}
			}
			list := RunList(Rules(tc.Era), tx, 100, ls, pp)
			parts = append(parts, fmt.Sprint(Names(list)), ls.Dump())
			return ra.Sum(parts...)
		}})
	}
	ra.Run(t, 4, 2, 6*time.Second, cases)
}

func cfgName(tc ccase) string {
	f := "list"
	if tc.RMap || tc.Era == EraDijkstra {
		f = "map"
	}
	return fmt.Sprintf("era=%s,is_valid=%v,redeemers=%s", EraNames[tc.Era], tc.Valid, f)
}
