// Keys, message record, reference encodings (verif/space), message builder, configurations,
// the reference authenticator written from the property statement and the wrappers around
// the real MessageAuthenticator of the C46 harness (harness/c46/main.go from the constants
// down to implState), copied unchanged for the race audit.
package c46

import (
	"bytes"
	"crypto/ed25519"
	"crypto/sha256"
	"encoding/binary"
	"encoding/hex"
	"fmt"
	"io"
	"log/slog"
	"reflect"
	"sort"
	"strings"

	"golang.org/x/crypto/blake2b"

	"github.com/blinklabs-io/gouroboros/kes"
	"github.com/blinklabs-io/gouroboros/ledger"
	pcommon "github.com/blinklabs-io/gouroboros/protocol/common"
	"verif/space"
)

const spkp = 129600 // the authenticator's default slots per KES period

// ------------------------------------------------------------------ keys

type pool struct {
	name     string
	coldPriv ed25519.PrivateKey
	coldPub  []byte
	kesPub   []byte
	seed     []byte
	id       string // reference pool id
}

func seedBytes(label string, seed int64) []byte {
	h := sha256.Sum256([]byte(fmt.Sprintf("verif-c46|%s|%d", label, seed)))
	return h[:]
}

func newPool(name string, seed int64) *pool {
	p := &pool{name: name}
	p.coldPriv = ed25519.NewKeyFromSeed(seedBytes("cold-"+name, seed))
	p.coldPub = []byte(p.coldPriv.Public().(ed25519.PublicKey))
	p.seed = seedBytes("kes-"+name, seed)
	_, pub, err := kes.KeyGen(kes.CardanoKesDepth, p.seed)
	if err != nil {
		panic(err)
	}
	p.kesPub = pub
	h := blake2b.Sum256(p.coldPub)
	p.id = hex.EncodeToString(h[:])
	return p
}

// kesSign signs msg at the given evolution with a fresh copy of the pool's KES key
// (the repository's KES prover is trusted; C39 checks it).
func (p *pool) kesSign(evolution uint64, msg []byte) []byte {
	sk, _, err := kes.KeyGen(kes.CardanoKesDepth, p.seed)
	if err != nil {
		panic(err)
	}
	for i := uint64(0); i < evolution; i++ {
		if sk, err = kes.Update(sk); err != nil {
			panic(err)
		}
	}
	sig, err := kes.Sign(sk, evolution, msg)
	if err != nil {
		panic(err)
	}
	return sig
}

// ------------------------------------------------------------------ messages (plain data)

type msgData struct {
	Nil       bool   `json:"nil,omitempty"`
	ID        []byte `json:"id"`
	IDAlias   []byte `json:"id_alias"` // Payload.MessageID (legacy alias)
	Body      []byte `json:"body"`
	KESPeriod uint64 `json:"kes_period"`
	ExpiresAt uint32 `json:"expires_at"`
	KESSig    []byte `json:"kes_sig"`
	OcVkey    []byte `json:"opcert_kes_vkey"`
	OcIssue   uint64 `json:"opcert_issue"`
	OcPeriod  uint64 `json:"opcert_kes_period"`
	OcSig     []byte `json:"opcert_cold_sig"`
	ColdKey   []byte `json:"cold_key"`
}

func cp(b []byte) []byte {
	if b == nil {
		return nil
	}
	return append([]byte{}, b...)
}

func (m msgData) clone() msgData {
	m.ID, m.IDAlias, m.Body, m.KESSig = cp(m.ID), cp(m.IDAlias), cp(m.Body), cp(m.KESSig)
	m.OcVkey, m.OcSig, m.ColdKey = cp(m.OcVkey), cp(m.OcSig), cp(m.ColdKey)
	return m
}

// real builds a fresh repository message object (the authenticator writes into it).
func (m msgData) real() *pcommon.DmqMessage {
	if m.Nil {
		return nil
	}
	return &pcommon.DmqMessage{
		MessageID: cp(m.ID),
		Payload: pcommon.DmqMessagePayload{
			MessageID:   cp(m.IDAlias),
			MessageBody: cp(m.Body),
			KESPeriod:   m.KESPeriod,
			ExpiresAt:   m.ExpiresAt,
		},
		KESSignature: cp(m.KESSig),
		OperationalCertificate: pcommon.OperationalCertificate{
			KESVerificationKey: cp(m.OcVkey),
			IssueNumber:        m.OcIssue,
			KESPeriod:          m.OcPeriod,
			ColdSignature:      cp(m.OcSig),
		},
		ColdVerificationKey: cp(m.ColdKey),
	}
}

// reference encodings (verif/space writer, minimal forms = RFC 8949 preferred serialisation)
func refPayloadCbor(m msgData) []byte {
	return space.A(space.B(m.Body), space.U(m.KESPeriod), space.U(uint64(m.ExpiresAt))).Encode()
}
func refID(m msgData) []byte { h := blake2b.Sum256(refPayloadCbor(m)); return h[:] }
func refWrapped(m msgData) []byte {
	return space.B(refPayloadCbor(m)).Encode()
}
func refCertSignable(m msgData) []byte {
	return space.A(space.B(m.OcVkey), space.U(m.OcIssue), space.U(m.OcPeriod)).Encode()
}
func cardanoCertSignable(m msgData) []byte {
	out := append([]byte{}, m.OcVkey...)
	out = binary.BigEndian.AppendUint64(out, m.OcIssue)
	return binary.BigEndian.AppendUint64(out, m.OcPeriod)
}

// build makes a fully authentic message of pool p: counter n, payload KES period kp, KES
// signature made at the given evolution.
func build(p *pool, n uint64, kp uint64, evolution uint64, body []byte) msgData {
	m := msgData{Body: body, KESPeriod: kp, ExpiresAt: 1_900_000_000, OcVkey: cp(p.kesPub), OcIssue: n, OcPeriod: kp, ColdKey: cp(p.coldPub)}
	m.ID = refID(m)
	m.OcSig = ed25519.Sign(p.coldPriv, refCertSignable(m))
	m.KESSig = p.kesSign(evolution, refWrapped(m))
	return m
}

// ------------------------------------------------------------------ configurations

type cfg struct {
	Verifier   bool     `json:"kes_verifier"` // ledger.VerifyKesComponents injected
	Insecure   bool     `json:"insecure"`
	Registered []string `json:"registered"` // pool names registered initially
	Slot       *uint64  `json:"slot"`       // nil = VerifyMessage, else VerifyMessageWithSlot
}

func (c cfg) class() string {
	e := "VerifyMessage"
	if c.Slot != nil {
		e = "VerifyMessageWithSlot"
	}
	return fmt.Sprintf("%s,verifier=%v,insecure=%v", e, c.Verifier, c.Insecure)
}

func (c cfg) mode() string { return fmt.Sprintf("verifier=%v,insecure=%v", c.Verifier, c.Insecure) }

// ------------------------------------------------------------------ reference authenticator

type refAuth struct {
	verifier, insecure bool
	registered         map[string]bool
	cache              map[string]uint64
}

func newRef(c cfg, pools map[string]*pool) *refAuth {
	r := &refAuth{verifier: c.Verifier, insecure: c.Insecure, registered: map[string]bool{}, cache: map[string]uint64{}}
	for _, n := range c.Registered {
		r.registered[pools[n].id] = true
	}
	return r
}

type verdict struct {
	accept    bool
	specified bool   // false: the statement does not fix the outcome
	failed    string // first condition that does not hold
}

func (r *refAuth) verify(m msgData, slot *uint64) verdict {
	if m.Nil {
		return verdict{false, true, "nil"}
	}
	fail := ""
	set := func(s string) {
		if fail == "" {
			fail = s
		}
	}
	specified := true
	id := m.ID
	if len(id) == 0 {
		id = m.IDAlias
	}
	if !bytes.Equal(id, refID(m)) {
		set("id")
	}
	if len(m.ColdKey) != ed25519.PublicKeySize || len(m.OcSig) != ed25519.SignatureSize ||
		!ed25519.Verify(ed25519.PublicKey(m.ColdKey), refCertSignable(m), m.OcSig) {
		set("opcert-cold-signature")
	}
	if r.verifier {
		cur := m.KESPeriod // current KES period: from the slot if one is given
		if slot != nil {
			cur = *slot / spkp
		}
		ok := false
		if cur >= m.KESPeriod && len(m.OcVkey) == 32 {
			ok = kes.VerifySignedKES(m.OcVkey, cur-m.KESPeriod, refWrapped(m), m.KESSig)
		}
		if !ok {
			set("kes-signature")
		}
	} else if !r.insecure {
		set("no-kes-verifier")
	} else if len(m.KESSig) != kes.CardanoKesSignatureSize || len(m.OcVkey) != 32 {
		// insecure mode waives the KES check; whether malformed lengths are still refused is
		// not fixed by the statement
		specified = false
	}
	ph := blake2b.Sum256(m.ColdKey)
	pid := hex.EncodeToString(ph[:])
	if !r.registered[pid] {
		set("unregistered-pool")
	}
	if last, seen := r.cache[pid]; seen && m.OcIssue < last {
		set("counter-went-backwards")
	}
	if fail != "" {
		return verdict{false, true, fail}
	}
	if !specified {
		return verdict{false, false, "unspecified"}
	}
	r.cache[pid] = m.OcIssue
	return verdict{true, true, ""}
}

func (r *refAuth) state() string {
	var reg, ca []string
	for k, v := range r.registered {
		if v {
			reg = append(reg, k[:6])
		}
	}
	for k, v := range r.cache {
		ca = append(ca, fmt.Sprintf("%s=%d", k[:6], v))
	}
	sort.Strings(reg)
	sort.Strings(ca)
	return "reg{" + strings.Join(reg, ",") + "} cache{" + strings.Join(ca, ",") + "}"
}

// ------------------------------------------------------------------ real authenticator

var quiet = slog.New(slog.NewTextHandler(io.Discard, nil))

func newImpl(c cfg, pools map[string]*pool) *pcommon.MessageAuthenticator {
	a := pcommon.NewMessageAuthenticator(quiet)
	if c.Verifier {
		a.SetKESVerifier(ledger.VerifyKesComponents)
	}
	if c.Insecure {
		a.SetAllowInsecureKES(true)
	}
	for _, n := range c.Registered {
		a.RegisterSPOPool(pools[n].id)
	}
	return a
}

func implVerify(a *pcommon.MessageAuthenticator, m msgData, slot *uint64) (accept bool, errStr string, panicked any) {
	defer func() {
		if r := recover(); r != nil {
			panicked = r
		}
	}()
	var err error
	if slot == nil {
		err = a.VerifyMessage(m.real())
	} else {
		err = a.VerifyMessageWithSlot(m.real(), *slot)
	}
	if err != nil {
		return false, err.Error(), nil
	}
	return true, "", nil
}

// implState reads the authenticator's private maps (read-only, via reflect) so that the
// state projection used for dedup is compared with the reference after every operation.
// ok=false when the fields cannot be found (renamed): the caller then relies on behaviour only.
func implState(a *pcommon.MessageAuthenticator) (s string, ok bool) {
	defer func() {
		if recover() != nil {
			s, ok = "", false
		}
	}()
	v := reflect.ValueOf(a).Elem()
	regF, cacheF := v.FieldByName("spoPoolIDs"), v.FieldByName("kesOpCertCache")
	if !regF.IsValid() || !cacheF.IsValid() || regF.Kind() != reflect.Map || cacheF.Kind() != reflect.Map {
		return "", false
	}
	var reg, ca []string
	for it := regF.MapRange(); it.Next(); {
		if it.Value().Bool() {
			reg = append(reg, it.Key().String()[:6])
		}
	}
	for it := cacheF.MapRange(); it.Next(); {
		ca = append(ca, fmt.Sprintf("%s=%d", it.Key().String()[:6], it.Value().Uint()))
	}
	sort.Strings(reg)
	sort.Strings(ca)
	return "reg{" + strings.Join(reg, ",") + "} cache{" + strings.Join(ca, ",") + "}", true
}
