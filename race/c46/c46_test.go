// Free-running race audit for C46, E2 part (not the deciding step; see DESIGN §10.6): the
// DMQ message authenticator entry points of the C46 harness (NewMessageAuthenticator,
// SetKESVerifier, SetAllowInsecureKES, RegisterSPOPool, VerifyMessage, VerifyMessageWithSlot,
// ComputeDmqMessageID through the id check) run on several goroutines at once under the Go
// race detector. Every goroutine owns its authenticator objects, its pools (cold and KES
// keys) and its messages; sharing one authenticator between goroutines is a different
// matter (the E1 scenario of this property). Per configuration (KES verifier present /
// absent x insecure flag) a short history is replayed on a fresh authenticator: an authentic
// message, single-field corruptions of it (id, cold key of another pool, one bit of the cold
// signature, one bit of the KES signature, unregistered pool), then counters 2, 1, 2. Every
// verdict must be the reference authenticator's (written from the property statement,
// gen.go) and a sequential caller's.
package c46

import (
	"fmt"
	"testing"
	"time"

	"verif/race/ra"
)

func flipBit(b []byte, i int) []byte {
	o := append([]byte(nil), b...)
	o[i/8] ^= 1 << (i % 8)
	return o
}

func TestRaceAudit(t *testing.T) {
	slot := uint64(7*spkp + 5)
	var cases []ra.Case
	for _, verifier := range []bool{true, false} {
		for _, insecure := range []bool{false, true} {
			for _, withSlot := range []bool{false, true} {
				verifier, insecure, withSlot := verifier, insecure, withSlot
				c := cfg{Verifier: verifier, Insecure: insecure, Registered: []string{"A", "B"}}
				if withSlot {
					c.Slot = &slot
				}
				cases = append(cases, ra.Case{Key: "MessageAuthenticator|" + c.class(), Fn: func(g int) string {
					seed := int64(700) // same key seeds for every goroutine (a case costs ~0.17 s of KES key generation under -race); the objects are each goroutine's own
					pools := map[string]*pool{"A": newPool("A", seed), "B": newPool("B", seed), "C": newPool("C", seed)}
					A, B, C := pools["A"], pools["B"], pools["C"]
					ok := build(A, 1, 7, 0, []byte("payload-1"))
					badID := ok.clone()
					badID.ID = flipBit(badID.ID, 3)
					foreign := ok.clone()
					foreign.ColdKey = cp(B.coldPub)
					coldBit := ok.clone()
					coldBit.OcSig = flipBit(coldBit.OcSig, 100)
					kesBit := ok.clone()
					kesBit.KESSig = flipBit(kesBit.KESSig, 77)
					unreg := build(C, 1, 7, 0, []byte("payload-c"))
					history := []struct {
						name string
						m    msgData
					}{
						{"wrong-id", badID}, {"foreign-cold-key", foreign}, {"cold-sig-bit", coldBit}, {"kes-sig-bit", kesBit}, {"unregistered", unreg},
						{"authentic#1", ok}, {"B#2", build(B, 2, 7, 0, []byte("payload-b2"))}, {"B#1", build(B, 1, 7, 0, []byte("payload-b1"))},
						{"B#2-again", build(B, 2, 7, 0, []byte("payload-b2x"))}, {"authentic#1-again", ok},
					}
					impl, ref := newImpl(c, pools), newRef(c, pools)
					var parts []any
					for _, h := range history {
						want := ref.verify(h.m.clone(), c.Slot)
						acc, es, pn := implVerify(impl, h.m.clone(), c.Slot)
						if pn != nil {
							return ra.OracleFail + fmt.Sprintf(" %s: panic %v", h.name, pn)
						}
						if want.specified && acc != want.accept {
							return ra.OracleFail + fmt.Sprintf(" %s: accepted=%v (%s), reference says %v (%s)", h.name, acc, es, want.accept, want.failed)
						}
						parts = append(parts, h.name, acc, es)
					}
					if st, sok := implState(impl); sok {
						if st != ref.state() {
							return ra.OracleFail + fmt.Sprintf(" final state %s, reference %s", st, ref.state())
						}
						parts = append(parts, st)
					}
					return ra.Sum(parts...)
				}})
			}
		}
	}
	ra.Run(t, 4, 2, 6*time.Second, cases)
}
