// Free-running race audit for C05 (not the deciding step; see DESIGN §10.6): the address
// entry points of the C05 harness (NewAddressFromBytes, NewAddress, Bytes, String, the
// type/network/credential accessors, CBOR round trip) run on several goroutines at once
// under the Go race detector over every Shelley address type x both networks x a few
// pointer values, Byron addresses written with the harness's own CBOR writer, and damaged
// forms (wrong length, undefined type, changed bech32/base58 character). Every goroutine
// builds its own bytes and strings. A canonical address must come back byte-identical from
// Bytes() and from parsing its own String(); every outcome must be a sequential caller's.
package c05

import (
	"bytes"
	"fmt"
	"hash/crc32"
	"testing"
	"time"

	"github.com/blinklabs-io/gouroboros/cbor"
	"github.com/blinklabs-io/gouroboros/ledger/common"
	"verif/race/ra"
	"verif/space"
)

func varint(v uint64) []byte {
	var g []byte
	g = append(g, byte(v&0x7f))
	for v >>= 7; v > 0; v >>= 7 {
		g = append([]byte{byte(v&0x7f) | 0x80}, g...)
	}
	return g
}

func hashes(g int) (a, b []byte) {
	a, b = make([]byte, 28), make([]byte, 28)
	for i := range a {
		a[i] = byte(0x10 + 3*i + g)
		b[i] = byte(0x80 | (5*i + 1 + g))
	}
	b[27] = 0x2d
	return
}

func shelley(t, n uint8, pay, stake []byte, ptr *[3]uint64) []byte {
	out := []byte{t<<4 | n}
	if t <= 7 {
		out = append(out, pay...)
	}
	switch {
	case t <= 3 || t >= 14:
		out = append(out, stake...)
	case t == 4 || t == 5:
		for _, v := range ptr {
			out = append(out, varint(v)...)
		}
	}
	return out
}

func byron(hash []byte, deriv []byte, magic *uint64, crcXor uint32) []byte {
	var attrs []*space.Node
	if deriv != nil {
		attrs = append(attrs, space.U(1), space.B(deriv))
	}
	if magic != nil {
		attrs = append(attrs, space.U(2), space.B(space.U(*magic).Encode()))
	}
	p := space.A(space.B(hash), space.M(attrs...), space.U(0)).Encode()
	return space.A(space.Tag(24, space.B(p)), space.U(uint64(crc32.ChecksumIEEE(p)^crcXor))).Encode()
}

// observe runs every entry point on one byte string. canonical: the reference accepts it
// and Bytes()/String() must reproduce it.
func observe(raw []byte, canonical bool) string {
	a, err := common.NewAddressFromBytes(append([]byte(nil), raw...))
	if err != nil {
		if canonical {
			return ra.OracleFail + " canonical address rejected: " + err.Error()
		}
		return ra.Err(err)
	}
	back, berr := a.Bytes()
	s := a.String()
	pk, sk := a.PaymentKeyHash(), a.StakeKeyHash()
	parts := []any{back, ra.Err(berr), s, a.Type(), a.NetworkId(), pk.Bytes(), sk.Bytes()}
	if canonical && (berr != nil || !bytes.Equal(back, raw)) {
		return ra.OracleFail + fmt.Sprintf(" Bytes() = %x (%v), decoded from %x", back, berr, raw)
	}
	// text round trip
	a2, err := common.NewAddress(s)
	if err != nil {
		if canonical {
			return ra.OracleFail + " own String() not parsed: " + err.Error()
		}
		parts = append(parts, "text:", err)
	} else {
		b2, _ := a2.Bytes()
		if canonical && !bytes.Equal(b2, raw) {
			return ra.OracleFail + fmt.Sprintf(" NewAddress(String()).Bytes() = %x, want %x", b2, raw)
		}
		parts = append(parts, b2, a2.String())
	}
	// one changed character in the text form
	if len(s) > 12 {
		m := []byte(s)
		if m[len(m)-3] == 'q' {
			m[len(m)-3] = 'p'
		} else {
			m[len(m)-3] = 'q'
		}
		_, merr := common.NewAddress(string(m))
		parts = append(parts, ra.Err(merr))
	}
	// CBOR round trip
	if enc, err := cbor.Encode(&a); err == nil {
		var a3 common.Address
		_, derr := cbor.Decode(enc, &a3)
		b3, _ := a3.Bytes()
		parts = append(parts, enc, ra.Err(derr), b3)
	} else {
		parts = append(parts, "enc:", err)
	}
	return ra.Sum(parts...)
}

func TestRaceAudit(t *testing.T) {
	var cases []ra.Case
	ptrs := [][3]uint64{{0, 0, 0}, {127, 128, 16384}, {1<<32 - 1, 1, 1<<16 - 1}}
	for _, typ := range []uint8{0, 1, 2, 3, 4, 5, 6, 7, 14, 15} {
		for _, net := range []uint8{0, 1} {
			typ, net := typ, net
			np := 1
			if typ == 4 || typ == 5 {
				np = len(ptrs)
			}
			for pi := 0; pi < np; pi++ {
				pi := pi
				cases = append(cases, ra.Case{Key: fmt.Sprintf("address|type=%d|net=%d|ptr=%d", typ, net, pi), PerG: true, Fn: func(g int) string {
					pay, stake := hashes(g)
					p := ptrs[pi]
					raw := shelley(typ, net, pay, stake, &p)
					return observe(raw, true)
				}})
			}
			// one byte short / one byte long (pointer types: truncated varint area)
			cases = append(cases, ra.Case{Key: fmt.Sprintf("address|type=%d|net=%d|short", typ, net), PerG: true, Fn: func(g int) string {
				pay, stake := hashes(g)
				raw := shelley(typ, net, pay, stake, &ptrs[1])
				return observe(raw[:len(raw)-1], false)
			}})
		}
	}
	for _, typ := range []uint8{8, 9, 13} {
		typ := typ
		cases = append(cases, ra.Case{Key: fmt.Sprintf("address|type=%d|undefined", typ), PerG: true, Fn: func(g int) string {
			pay, stake := hashes(g)
			raw := append([]byte{typ<<4 | 1}, append(pay, stake...)...)
			return observe(raw, false)
		}})
	}
	magic := uint64(1097911063)
	for i, bs := range []struct {
		name   string
		deriv  []byte
		magic  *uint64
		crcXor uint32
		canon  bool
	}{
		{"plain", nil, nil, 0, true},
		{"deriv+magic", space.B(bytes.Repeat([]byte{3}, 28)).Encode(), &magic, 0, true},
		{"bad-crc", nil, nil, 1, false},
	} {
		i, bs := i, bs
		cases = append(cases, ra.Case{Key: fmt.Sprintf("address|byron|%s#%d", bs.name, i), PerG: true, Fn: func(g int) string {
			h, _ := hashes(g)
			return observe(byron(h, bs.deriv, bs.magic, bs.crcXor), bs.canon)
		}})
	}
	ra.Run(t, 4, 12, 6*time.Second, cases)
}
