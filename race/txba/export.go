package txba

// exported names for the unexported helpers of the copied builder (race audits import this package)
func B224(b []byte) []byte { return b224(b) }
func B256(b []byte) []byte { return b256(b) }
