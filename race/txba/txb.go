// Copied from harness/c08/txb.go (the rule harnesses C08/C28/C31 share this builder by copy); package name changed only.
// Small transaction builder + stub ledger state shared (by copy) between the ledger-rule
// harnesses. Everything that goes INTO the code under test is built as bytes with
// verif/space (own CBOR writer) from the era CDDL; the real era decoder turns the bytes
// into the repository's transaction objects. Nothing here calls the repository's encoder.
package txba

import (
	"crypto/ed25519"
	"crypto/sha256"
	"errors"
	"fmt"
	"math/big"
	"time"

	"golang.org/x/crypto/blake2b"

	"github.com/blinklabs-io/gouroboros/cbor"
	"github.com/blinklabs-io/gouroboros/ledger"
	"github.com/blinklabs-io/gouroboros/ledger/allegra"
	"github.com/blinklabs-io/gouroboros/ledger/alonzo"
	"github.com/blinklabs-io/gouroboros/ledger/babbage"
	"github.com/blinklabs-io/gouroboros/ledger/common"
	"github.com/blinklabs-io/gouroboros/ledger/conway"
	"github.com/blinklabs-io/gouroboros/ledger/dijkstra"
	"github.com/blinklabs-io/gouroboros/ledger/mary"
	"github.com/blinklabs-io/gouroboros/ledger/shelley"
	"verif/space"
)

// Era identifiers = the repository's TxType ids (checked in init below).
const (
	EraShelley  = 1
	EraAllegra  = 2
	EraMary     = 3
	EraAlonzo   = 4
	EraBabbage  = 5
	EraConway   = 6
	EraDijkstra = 7
)

var EraNames = map[int]string{1: "shelley", 2: "allegra", 3: "mary", 4: "alonzo", 5: "babbage", 6: "conway", 7: "dijkstra"}

func init() {
	if ledger.TxTypeShelley != EraShelley || ledger.TxTypeAllegra != EraAllegra || ledger.TxTypeMary != EraMary ||
		ledger.TxTypeAlonzo != EraAlonzo || ledger.TxTypeBabbage != EraBabbage || ledger.TxTypeConway != EraConway ||
		ledger.TxTypeDijkstra != EraDijkstra {
		panic("era ids changed")
	}
}

func b224(b []byte) []byte { h, _ := blake2b.New(28, nil); h.Write(b); return h.Sum(nil) }
func b256(b []byte) []byte { s := blake2b.Sum256(b); return s[:] }

// Key is one ed25519 key pair of the small universe.
type Key struct {
	Name string
	Priv ed25519.PrivateKey
	Pub  []byte
	Hash []byte // blake2b-224 of the verification key
}

// NewKey derives a key pair from a name and the representative-data seed.
func NewKey(name string, seed int64) *Key {
	s := sha256.Sum256([]byte(fmt.Sprintf("verif-key/%s/%d", name, seed)))
	priv := ed25519.NewKeyFromSeed(s[:])
	pub := []byte(priv.Public().(ed25519.PublicKey))
	return &Key{Name: name, Priv: priv, Pub: pub, Hash: b224(pub)}
}

// TxIn is a transaction input reference.
type TxIn struct {
	Id  []byte // 32 bytes
	Idx uint64
}

func (i TxIn) Node() *space.Node { return space.A(space.B(i.Id), space.U(i.Idx)) }
func (i TxIn) key() string       { return fmt.Sprintf("%x#%d", i.Id, i.Idx) }

// FakeTxId returns a representative 32-byte id.
func FakeTxId(tag string, seed int64) []byte {
	return b256([]byte(fmt.Sprintf("verif-txid/%s/%d", tag, seed)))
}

// Addresses (Shelley format, network id 0 = testnet): header byte ‖ payment hash [‖ stake hash].
func EnterpriseKeyAddr(net byte, keyHash []byte) []byte {
	return append([]byte{0x60 | net}, keyHash...)
}
func EnterpriseScriptAddr(net byte, scriptHash []byte) []byte {
	return append([]byte{0x70 | net}, scriptHash...)
}

// VKeyWit is one vkey witness as it will be encoded.
type VKeyWit struct{ VKey, Sig []byte }

// BootWit is one bootstrap witness as it will be encoded.
type BootWit struct{ Pub, Sig, ChainCode, Attrs []byte }

// TxSpec is the small record a transaction is built from. Nil / empty = field absent.
type TxSpec struct {
	Era             int
	Inputs          []TxIn
	Outputs         []*space.Node // already era-correct output items
	Fee             uint64
	TTL             *uint64 // body key 3
	Start           *uint64 // body key 8
	Mint            *space.Node
	ScriptDataHash  []byte
	Collateral      []TxIn
	RequiredSigners [][]byte
	NetworkId       *uint64
	ExtraBody       []*space.Node // k,v pairs appended in the given order (caller keeps key order)
	OutputsForm     int           // header form of the outputs array (space.FormMin = canonical)

	VKeys     []VKeyWit
	Native    []*space.Node
	Boot      []BootWit
	PlutusV1  [][]byte
	PlutusV2  [][]byte
	PlutusV3  [][]byte
	Datums    *space.Node // complete witness-set item under key 4
	Redeemers *space.Node // complete witness-set item under key 5
	// TagSets: encode witness-set / body sets with tag 258 (Conway+ only).
	TagSets bool
	// ThreeElem forces the 3-element envelope (Dijkstra); eras before Alonzo always use it.
	ThreeElem bool
}

func U64(v uint64) *uint64 { return &v }

func (s *TxSpec) set(items ...*space.Node) *space.Node {
	a := space.A(items...)
	if s.TagSets && s.Era >= EraConway {
		return space.Tag(258, a)
	}
	return a
}

// Body returns the transaction body map (keys ascending).
func (s *TxSpec) Body() *space.Node {
	var kv []*space.Node
	ins := make([]*space.Node, len(s.Inputs))
	for i, in := range s.Inputs {
		ins[i] = in.Node()
	}
	kv = append(kv, space.U(0), s.set(ins...))
	outs := space.A(s.Outputs...)
	outs.Form = s.OutputsForm
	kv = append(kv, space.U(1), outs)
	kv = append(kv, space.U(2), space.U(s.Fee))
	if s.TTL != nil {
		kv = append(kv, space.U(3), space.U(*s.TTL))
	}
	if s.Start != nil {
		kv = append(kv, space.U(8), space.U(*s.Start))
	}
	if s.Mint != nil {
		kv = append(kv, space.U(9), s.Mint)
	}
	if s.ScriptDataHash != nil {
		kv = append(kv, space.U(11), space.B(s.ScriptDataHash))
	}
	if len(s.Collateral) > 0 {
		c := make([]*space.Node, len(s.Collateral))
		for i, in := range s.Collateral {
			c[i] = in.Node()
		}
		kv = append(kv, space.U(13), s.set(c...))
	}
	if len(s.RequiredSigners) > 0 {
		r := make([]*space.Node, len(s.RequiredSigners))
		for i, h := range s.RequiredSigners {
			r[i] = space.B(h)
		}
		if s.Era == EraDijkstra {
			// Dijkstra key 14 = guards: a set of key hashes is the legacy-compatible form
			kv = append(kv, space.U(14), s.set(r...))
		} else {
			kv = append(kv, space.U(14), s.set(r...))
		}
	}
	if s.NetworkId != nil {
		kv = append(kv, space.U(15), space.U(*s.NetworkId))
	}
	kv = append(kv, s.ExtraBody...)
	return space.M(kv...)
}

// BodyBytes / TxId: the id is blake2b-256 of the body bytes exactly as embedded.
func (s *TxSpec) BodyBytes() []byte { return s.Body().Encode() }
func (s *TxSpec) TxId() []byte      { return b256(s.BodyBytes()) }

// SignWith appends a valid vkey witness by k over this spec's body.
func (s *TxSpec) SignWith(k *Key) {
	s.VKeys = append(s.VKeys, VKeyWit{VKey: k.Pub, Sig: ed25519.Sign(k.Priv, s.TxId())})
}

// Witnesses returns the witness-set map.
func (s *TxSpec) Witnesses() *space.Node {
	var kv []*space.Node
	if len(s.VKeys) > 0 {
		it := make([]*space.Node, len(s.VKeys))
		for i, w := range s.VKeys {
			it[i] = space.A(space.B(w.VKey), space.B(w.Sig))
		}
		kv = append(kv, space.U(0), s.set(it...))
	}
	if len(s.Native) > 0 {
		kv = append(kv, space.U(1), s.set(s.Native...))
	}
	if len(s.Boot) > 0 {
		it := make([]*space.Node, len(s.Boot))
		for i, w := range s.Boot {
			it[i] = space.A(space.B(w.Pub), space.B(w.Sig), space.B(w.ChainCode), space.B(w.Attrs))
		}
		kv = append(kv, space.U(2), s.set(it...))
	}
	bl := func(key uint64, scripts [][]byte) {
		if len(scripts) == 0 {
			return
		}
		it := make([]*space.Node, len(scripts))
		for i, sc := range scripts {
			it[i] = space.B(sc)
		}
		kv = append(kv, space.U(key), s.set(it...))
	}
	bl(3, s.PlutusV1)
	if s.Datums != nil {
		kv = append(kv, space.U(4), s.Datums)
	}
	if s.Redeemers != nil {
		kv = append(kv, space.U(5), s.Redeemers)
	}
	bl(6, s.PlutusV2)
	bl(7, s.PlutusV3)
	return space.M(kv...)
}

// Tx returns the full transaction item for the era's envelope.
func (s *TxSpec) Tx() *space.Node {
	if s.Era <= EraMary || (s.Era == EraDijkstra && s.ThreeElem) {
		return space.A(s.Body(), s.Witnesses(), space.Null())
	}
	return space.A(s.Body(), s.Witnesses(), space.Bool(true), space.Null())
}

func (s *TxSpec) Bytes() []byte { return s.Tx().Encode() }

// Decode runs the REAL era decoder on bytes.
func DecodeTx(era int, b []byte) (tx common.Transaction, err error) {
	defer func() {
		if r := recover(); r != nil {
			tx, err = nil, fmt.Errorf("decoder panic: %v", r)
		}
	}()
	return ledger.NewTransactionFromCbor(uint(era), b)
}

// ---- outputs --------------------------------------------------------------------------

// Value: coin alone, or [coin, {policy: {name: qtyNode}}].
func ValueCoin(c uint64) *space.Node { return space.U(c) }
func ValueMA(c uint64, policy []byte, name []byte, qty *space.Node) *space.Node {
	return space.A(space.U(c), space.M(space.B(policy), space.M(space.B(name), qty)))
}

// OutLegacy is the array form [addr, value] valid in Shelley..Conway (and Dijkstra if still accepted).
func OutLegacy(addr []byte, value *space.Node) *space.Node { return space.A(space.B(addr), value) }

// OutMap is the Babbage+ map form {0: addr, 1: value}.
func OutMap(addr []byte, value *space.Node) *space.Node {
	return space.M(space.U(0), space.B(addr), space.U(1), value)
}

// Out picks the customary form for the era.
func Out(era int, addr []byte, value *space.Node) *space.Node {
	if era >= EraBabbage {
		return OutMap(addr, value)
	}
	return OutLegacy(addr, value)
}

// DecodeOutput decodes an output item with the real era decoder (for the stub UTxO set).
func DecodeOutput(era int, n *space.Node) (common.TransactionOutput, error) {
	b := n.Encode()
	switch era {
	case EraShelley, EraAllegra:
		return ledger.NewShelleyTransactionOutputFromCbor(b)
	case EraMary:
		return ledger.NewMaryTransactionOutputFromCbor(b)
	case EraAlonzo:
		return ledger.NewAlonzoTransactionOutputFromCbor(b)
	case EraBabbage, EraConway:
		return ledger.NewBabbageTransactionOutputFromCbor(b)
	case EraDijkstra:
		var o dijkstra.DijkstraTransactionOutput
		if _, err := cbor.Decode(b, &o); err != nil {
			return nil, err
		}
		return &o, nil
	}
	return nil, errors.New("no era")
}

// ---- stub ledger state ----------------------------------------------------------------

// Stub answers every LedgerState query from small tables; everything not in a table is
// "absent / unregistered / zero".
type Stub struct {
	Utxos      map[string]common.Utxo
	Net        uint
	CostMdls   map[common.PlutusLanguage]common.CostModel
	StakeRegs  map[string]bool
	Pools      map[string]bool
	RewardBal  map[string]uint64
	DRepDelegs map[string]*common.Drep
}

func NewStub() *Stub {
	return &Stub{Utxos: map[string]common.Utxo{}, StakeRegs: map[string]bool{}, Pools: map[string]bool{}, RewardBal: map[string]uint64{}}
}

// AddUtxo registers in -> output (decoded by the real output decoder of the era).
func (s *Stub) AddUtxo(era int, in TxIn, out *space.Node) error {
	o, err := DecodeOutput(era, out)
	if err != nil {
		return err
	}
	var id common.Blake2b256
	copy(id[:], in.Id)
	s.Utxos[in.key()] = common.Utxo{Id: shelley.NewShelleyTransactionInput(fmt.Sprintf("%x", in.Id), int(in.Idx)), Output: o}
	return nil
}

var errNoUtxo = errors.New("stub: utxo not found")

func (s *Stub) UtxoById(in common.TransactionInput) (common.Utxo, error) {
	id := in.Id()
	u, ok := s.Utxos[fmt.Sprintf("%x#%d", id[:], in.Index())]
	if !ok {
		return common.Utxo{}, errNoUtxo
	}
	return u, nil
}
func (s *Stub) StakeRegistration([]byte) ([]common.StakeRegistrationCertificate, error) {
	return nil, nil
}
func (s *Stub) IsStakeCredentialRegistered(c common.Credential) bool {
	return s.StakeRegs[fmt.Sprintf("%x", c.Credential[:])]
}
func (s *Stub) SlotToTime(slot uint64) (time.Time, error) {
	return time.Unix(1_600_000_000+int64(slot%(1<<40)), 0), nil
}
func (s *Stub) TimeToSlot(t time.Time) (uint64, error) { return uint64(t.Unix() - 1_600_000_000), nil }
func (s *Stub) PoolCurrentState(common.PoolKeyHash) (*common.PoolRegistrationCertificate, *uint64, error) {
	return nil, nil, nil
}
func (s *Stub) IsPoolRegistered(p common.PoolKeyHash) bool { return s.Pools[fmt.Sprintf("%x", p[:])] }
func (s *Stub) IsVrfKeyInUse(common.Blake2b256) (bool, common.PoolKeyHash, error) {
	return false, common.PoolKeyHash{}, nil
}
func (s *Stub) CalculateRewards(common.AdaPots, common.RewardSnapshot, common.RewardParameters) (*common.RewardCalculationResult, error) {
	return nil, errors.New("stub")
}
func (s *Stub) GetAdaPots() common.AdaPots         { return common.AdaPots{} }
func (s *Stub) UpdateAdaPots(common.AdaPots) error { return nil }
func (s *Stub) GetRewardSnapshot(uint64) (common.RewardSnapshot, error) {
	return common.RewardSnapshot{}, errors.New("stub")
}
func (s *Stub) IsRewardAccountRegistered(c common.Credential) bool {
	return s.StakeRegs[fmt.Sprintf("%x", c.Credential[:])]
}
func (s *Stub) RewardAccountBalance(c common.Credential) (*uint64, error) {
	k := fmt.Sprintf("%x", c.Credential[:])
	if !s.StakeRegs[k] {
		return nil, nil
	}
	v := s.RewardBal[k]
	return &v, nil
}
func (s *Stub) CommitteeMember(common.Blake2b224) (*common.CommitteeMember, error) { return nil, nil }
func (s *Stub) CommitteeMembers() ([]common.CommitteeMember, error)                { return nil, nil }
func (s *Stub) DRepRegistration(common.Blake2b224) (*common.DRepRegistration, error) {
	return nil, nil
}
func (s *Stub) DRepRegistrations() ([]common.DRepRegistration, error) { return nil, nil }
func (s *Stub) Constitution() (*common.Constitution, error)           { return nil, nil }
func (s *Stub) TreasuryValue() (uint64, error)                        { return 0, nil }
func (s *Stub) GovActionById(common.GovActionId) (*common.GovActionState, error) {
	return nil, nil
}
func (s *Stub) GovActionExists(common.GovActionId) bool { return false }
func (s *Stub) NetworkId() uint                         { return s.Net }
func (s *Stub) CostModels() map[common.PlutusLanguage]common.CostModel {
	return s.CostMdls
}
func (s *Stub) DRepDelegation(c common.Credential) (*common.Drep, error) {
	return s.DRepDelegs[fmt.Sprintf("%x", c.Credential[:])], nil
}

var _ common.LedgerState = (*Stub)(nil)

// ---- era environments -----------------------------------------------------------------

// EraEnv = the era's full rule list + permissive-but-realistic protocol parameters.
type EraEnv struct {
	Era   int
	Rules []common.UtxoValidationRuleFunc
	PP    common.ProtocolParameters
}

func rat(n, d int64) *cbor.Rat { return &cbor.Rat{Rat: big.NewRat(n, d)} }

// NewEraEnv builds the environment. minFeeA/minFeeB = 0 so the fee rule never depends on
// the byte length of a test transaction unless a harness sets them.
func NewEraEnv(era int) *EraEnv {
	e := &EraEnv{Era: era}
	sp := shelley.ShelleyProtocolParameters{
		MinFeeA: 0, MinFeeB: 0, MaxBlockBodySize: 65536, MaxTxSize: 16384, MaxBlockHeaderSize: 1100,
		KeyDeposit: 2000000, PoolDeposit: 500000000, MaxEpoch: 18, NOpt: 150,
		A0: rat(3, 10), Rho: rat(3, 1000), Tau: rat(2, 10), Decentralization: rat(0, 1),
		ProtocolMajor: 2, ProtocolMinor: 0, MinUtxoValue: 0,
	}
	exu := common.ExUnits{Memory: 14000000, Steps: 10000000000}
	switch era {
	case EraShelley:
		p := sp
		e.Rules, e.PP = shelley.UtxoValidationRules, &p
	case EraAllegra:
		p := allegra.AllegraProtocolParameters(sp)
		p.ProtocolMajor = 3
		e.Rules, e.PP = allegra.UtxoValidationRules, &p
	case EraMary:
		e.Rules = mary.UtxoValidationRules
		e.PP = &mary.MaryProtocolParameters{MinFeeA: 0, MinFeeB: 0, MaxBlockBodySize: 65536, MaxTxSize: 16384, MaxBlockHeaderSize: 1100,
			KeyDeposit: 2000000, PoolDeposit: 500000000, MaxEpoch: 18, NOpt: 150, A0: rat(3, 10), Rho: rat(3, 1000), Tau: rat(2, 10),
			Decentralization: rat(0, 1), ProtocolMajor: 4, MinUtxoValue: 0, MinPoolCost: 340000000}
	case EraAlonzo:
		e.Rules = alonzo.UtxoValidationRules
		e.PP = &alonzo.AlonzoProtocolParameters{MinFeeA: 0, MinFeeB: 0, MaxBlockBodySize: 65536, MaxTxSize: 16384, MaxBlockHeaderSize: 1100,
			KeyDeposit: 2000000, PoolDeposit: 500000000, MaxEpoch: 18, NOpt: 150, A0: rat(3, 10), Rho: rat(3, 1000), Tau: rat(2, 10),
			Decentralization: rat(0, 1), ProtocolMajor: 6, MinUtxoValue: 0, MinPoolCost: 340000000, AdaPerUtxoByte: 0,
			CostModels: map[uint][]int64{}, MaxTxExUnits: exu, MaxBlockExUnits: exu, MaxValueSize: 5000, CollateralPercentage: 150, MaxCollateralInputs: 3}
	case EraBabbage:
		e.Rules = babbage.UtxoValidationRules
		e.PP = &babbage.BabbageProtocolParameters{MinFeeA: 0, MinFeeB: 0, MaxBlockBodySize: 65536, MaxTxSize: 16384, MaxBlockHeaderSize: 1100,
			KeyDeposit: 2000000, PoolDeposit: 500000000, MaxEpoch: 18, NOpt: 150, A0: rat(3, 10), Rho: rat(3, 1000), Tau: rat(2, 10),
			ProtocolMajor: 8, MinPoolCost: 340000000, AdaPerUtxoByte: 0,
			CostModels: map[uint][]int64{}, MaxTxExUnits: exu, MaxBlockExUnits: exu, MaxValueSize: 5000, CollateralPercentage: 150, MaxCollateralInputs: 3}
	case EraConway, EraDijkstra:
		cp := conway.ConwayProtocolParameters{MinFeeA: 0, MinFeeB: 0, MaxBlockBodySize: 65536, MaxTxSize: 16384, MaxBlockHeaderSize: 1100,
			KeyDeposit: 2000000, PoolDeposit: 500000000, MaxEpoch: 18, NOpt: 150, A0: rat(3, 10), Rho: rat(3, 1000), Tau: rat(2, 10),
			ProtocolVersion: common.ProtocolParametersProtocolVersion{Major: 10, Minor: 0},
			MinPoolCost:     340000000, AdaPerUtxoByte: 0,
			CostModels: map[uint][]int64{}, MaxTxExUnits: exu, MaxBlockExUnits: exu, MaxValueSize: 5000, CollateralPercentage: 150, MaxCollateralInputs: 3,
			MinCommitteeSize: 0, CommitteeTermLimit: 146, GovActionValidityPeriod: 6, GovActionDeposit: 100000000000, DRepDeposit: 500000000, DRepInactivityPeriod: 20,
			MinFeeRefScriptCostPerByte: rat(15, 1)}
		if era == EraConway {
			e.Rules, e.PP = conway.UtxoValidationRules, &cp
		} else {
			cp.ProtocolVersion.Major = 12
			e.Rules = dijkstra.UtxoValidationRules
			e.PP = &dijkstra.DijkstraProtocolParameters{ConwayProtocolParameters: cp,
				MaxRefScriptSizePerBlock: 1 << 20, MaxRefScriptSizePerTx: 200 << 10, RefScriptCostStride: 25600, RefScriptCostMultiplier: rat(12, 10)}
		}
	}
	return e
}

// RuleResult is what one rule of the list returned.
type RuleResult struct {
	Index int
	Err   error
	Panic any
}

// RunAll calls EVERY rule of the era's list (not stopping at the first error, which is what
// VerifyTransaction does) so that a harness can look at the errors of the rule under test
// independently of unrelated failures of a minimal transaction. Panics are captured.
func (e *EraEnv) RunAll(tx common.Transaction, slot uint64, ls common.LedgerState) []RuleResult {
	var out []RuleResult
	for i, r := range e.Rules {
		func() {
			defer func() {
				if p := recover(); p != nil {
					out = append(out, RuleResult{Index: i, Panic: p})
				}
			}()
			if err := r(tx, slot, ls, e.PP); err != nil {
				out = append(out, RuleResult{Index: i, Err: err})
			}
		}()
	}
	return out
}
