// Free-running race audit for C27 (not the deciding step; see DESIGN §10.6): the C27
// pipeline (transaction record -> bytes written with the harness's CBOR writer -> real era
// decoder -> the era's value-conservation rule called directly and the whole rule list)
// runs on several goroutines at once under the Go race detector over a slice of the
// harness's structures (eras, one/two inputs, withdrawal, certificate kinds that move
// deposits, proposal/donation, mint/burn) x coin imbalance {0, +1, -1, +-term}. Every
// goroutine builds its own universe of keys, record, stub ledger state and protocol
// parameters (gen.go / race/txbb are copies of the harness's builder and oracle). A
// balanced transaction must pass the conservation rule, a coin-unbalanced one must not, and
// every outcome must be a sequential caller's.
package c27

import (
	"fmt"
	"testing"
	"time"

	"verif/race/ra"
	. "verif/race/txbb"
)

func TestRaceAudit(t *testing.T) {
	var structs []scase
	for _, era := range AllEras {
		sets := [][]int{{}, {kindIdx("stake_reg(0)")}, {kindIdx("stake_dereg(1)")}}
		if era >= EraConway {
			sets = [][]int{{}, {kindIdx("pool_reg_new(3)")}, {kindIdx("reg_drep(16)")}, {kindIdx("reg(7)"), kindIdx("unreg_drep(17)")}}
		}
		for i, cs := range sets {
			structs = append(structs, scase{era, i == 0, i == 0, false, 1, 11, cs, false, false, 0})
		}
		if era >= EraMary {
			structs = append(structs, scase{era, true, true, true, 1, -1, nil, false, false, 1}, scase{era, true, false, true, 1, -1, nil, false, false, 2})
		}
		if era >= EraConway {
			structs = append(structs, scase{era, false, false, false, 1, -1, nil, true, true, 0})
		}
	}
	var cases []ra.Case
	for si, s := range structs {
		deltas := []struct {
			name string
			d    int64
		}{{"0", 0}, {"+one", 1}, {"-one", -1}}
		for _, tm := range s.terms() {
			if tm.name != "one" {
				deltas = append(deltas, struct {
					name string
					d    int64
				}{"-" + tm.name, -tm.v})
			}
		}
		for _, d := range deltas {
			v := vcase{s, d.name, d.d, 0}
			cases = append(cases, ra.Case{Key: fmt.Sprintf("conservation|era=%s|struct=%d|coin%s", EraNames[s.Era], si, d.name), PerG: true, Fn: func(g int) string {
				seed := int64(40 + g)
				b := build(v, newUniverse(seed), seed, false)
				if !b.ok {
					return "not-constructible"
				}
				coinOK, assetsOK, detail := ref(b)
				tx, raw, err := b.rec.Build()
				if err != nil {
					return ra.Sum("decode", err)
				}
				dir := directRule(v.S.Era)(tx, 100, b.ls, b.pp)
				list := RunList(Rules(v.S.Era), tx, 100, b.ls, b.pp)
				if coinOK && assetsOK && dir != nil {
					return ra.OracleFail + " balanced transaction rejected by the conservation rule: " + ErrStr(dir) + " | " + detail
				}
				if !coinOK && dir == nil {
					return ra.OracleFail + " coin-unbalanced transaction passes the conservation rule | " + detail
				}
				return ra.Sum(raw, ErrStr(dir), fmt.Sprint(Names(list)), b.ls.Dump())
			}})
		}
	}
	ra.Run(t, 4, 2, 6*time.Second, cases)
}
