// Case builder and reference oracle of the C27 harness (harness/c27/main.go: parameters,
// certificate kinds, mint variants, scase/vcase, build, ref), copied for the race audit;
// the only change: the builder's unexported hash helpers are called through race/txbb's
// exported names.
package c27

import (
	"fmt"
	"math/big"
	"sort"

	"github.com/blinklabs-io/gouroboros/ledger/allegra"
	"github.com/blinklabs-io/gouroboros/ledger/alonzo"
	"github.com/blinklabs-io/gouroboros/ledger/babbage"
	"github.com/blinklabs-io/gouroboros/ledger/common"
	"github.com/blinklabs-io/gouroboros/ledger/conway"
	"github.com/blinklabs-io/gouroboros/ledger/dijkstra"
	"github.com/blinklabs-io/gouroboros/ledger/mary"
	"github.com/blinklabs-io/gouroboros/ledger/shelley"
	. "verif/race/txbb"
	"verif/space"
)

// protocol parameters: pairwise different so that every term of the formula is identifiable
const (
	keyDep  = 2_000_000
	poolDep = 500_000_000
	drepDep = 3_000_000
	govDep  = 7_000_000
	donAmt  = 13
	u1Coin  = 1_000_000_000
	u2Coin  = 4_000_000
	out2Amt = 1_500_000
)

func directRule(era int) common.UtxoValidationRuleFunc {
	switch era {
	case EraShelley:
		return shelley.UtxoValidateValueNotConservedUtxo
	case EraAllegra:
		return allegra.UtxoValidateValueNotConservedUtxo
	case EraMary:
		return mary.UtxoValidateValueNotConservedUtxo
	case EraAlonzo:
		return alonzo.UtxoValidateValueNotConservedUtxo
	case EraBabbage:
		return babbage.UtxoValidateValueNotConservedUtxo
	case EraConway:
		return conway.UtxoValidateValueNotConservedUtxo
	}
	return dijkstra.UtxoValidateValueNotConservedUtxo
}

// ---- certificates ----

type certKind struct {
	name    string
	minEra  int
	deposit uint64 // produced
	refund  uint64 // consumed
	mk      func(u *universe) *space.Node
}

type universe struct {
	pay, stakeR, stakeN Key // R: registered stake key, N: new one
	poolOld, poolNew    [28]byte
	drepOld, drepNew    [28]byte
	cold, hot           [28]byte
}

func cred(h [28]byte) *space.Node { return space.A(space.U(0), space.B(h[:])) }
func drepAbstain() *space.Node    { return space.A(space.U(2)) }

func poolReg(u *universe, op [28]byte) *space.Node {
	vrf := H256([]byte("verif-vrf"))
	return space.A(space.U(3), space.B(op[:]), space.B(vrf[:]), space.U(1000), space.U(340_000_000),
		space.Tag(30, space.A(space.U(1), space.U(100))), space.B(RewardAddr(u.stakeR)),
		space.A(space.B(u.stakeR.Hash[:])), space.A(), space.Null())
}

var certKinds = []certKind{
	{"stake_reg(0)", EraShelley, keyDep, 0, func(u *universe) *space.Node { return space.A(space.U(0), cred(u.stakeN.Hash)) }},
	{"stake_dereg(1)", EraShelley, 0, keyDep, func(u *universe) *space.Node { return space.A(space.U(1), cred(u.stakeR.Hash)) }},
	{"stake_deleg(2)", EraShelley, 0, 0, func(u *universe) *space.Node {
		return space.A(space.U(2), cred(u.stakeR.Hash), space.B(u.poolOld[:]))
	}},
	{"pool_reg_new(3)", EraShelley, poolDep, 0, func(u *universe) *space.Node { return poolReg(u, u.poolNew) }},
	{"pool_rereg(3)", EraShelley, 0, 0, func(u *universe) *space.Node { return poolReg(u, u.poolOld) }},
	{"pool_retire(4)", EraShelley, 0, 0, func(u *universe) *space.Node { return space.A(space.U(4), space.B(u.poolOld[:]), space.U(500)) }},
	{"reg(7)", EraConway, keyDep, 0, func(u *universe) *space.Node { return space.A(space.U(7), cred(u.stakeN.Hash), space.U(keyDep)) }},
	{"unreg(8)", EraConway, 0, keyDep, func(u *universe) *space.Node { return space.A(space.U(8), cred(u.stakeR.Hash), space.U(keyDep)) }},
	{"vote_deleg(9)", EraConway, 0, 0, func(u *universe) *space.Node { return space.A(space.U(9), cred(u.stakeR.Hash), drepAbstain()) }},
	{"stake_vote_deleg(10)", EraConway, 0, 0, func(u *universe) *space.Node {
		return space.A(space.U(10), cred(u.stakeR.Hash), space.B(u.poolOld[:]), drepAbstain())
	}},
	{"stake_reg_deleg(11)", EraConway, keyDep, 0, func(u *universe) *space.Node {
		return space.A(space.U(11), cred(u.stakeN.Hash), space.B(u.poolOld[:]), space.U(keyDep))
	}},
	{"vote_reg_deleg(12)", EraConway, keyDep, 0, func(u *universe) *space.Node {
		return space.A(space.U(12), cred(u.stakeN.Hash), drepAbstain(), space.U(keyDep))
	}},
	{"stake_vote_reg_deleg(13)", EraConway, keyDep, 0, func(u *universe) *space.Node {
		return space.A(space.U(13), cred(u.stakeN.Hash), space.B(u.poolOld[:]), drepAbstain(), space.U(keyDep))
	}},
	{"auth_hot(14)", EraConway, 0, 0, func(u *universe) *space.Node { return space.A(space.U(14), cred(u.cold), cred(u.hot)) }},
	{"resign_cold(15)", EraConway, 0, 0, func(u *universe) *space.Node { return space.A(space.U(15), cred(u.cold), space.Null()) }},
	{"reg_drep(16)", EraConway, drepDep, 0, func(u *universe) *space.Node {
		return space.A(space.U(16), cred(u.drepNew), space.U(drepDep), space.Null())
	}},
	{"unreg_drep(17)", EraConway, 0, drepDep, func(u *universe) *space.Node { return space.A(space.U(17), cred(u.drepOld), space.U(drepDep)) }},
	{"update_drep(18)", EraConway, 0, 0, func(u *universe) *space.Node { return space.A(space.U(18), cred(u.drepOld), space.Null()) }},
}

func kindIdx(name string) int {
	for i, k := range certKinds {
		if k.name == name {
			return i
		}
	}
	panic(name)
}

// certificate sets: none, every single kind, and a few pairs
func certSets(era int, thorough bool) [][]int {
	sets := [][]int{{}}
	for i, k := range certKinds {
		if era >= k.minEra {
			sets = append(sets, []int{i})
		}
	}
	pairs := [][2]string{{"stake_reg(0)", "stake_dereg(1)"}, {"stake_reg(0)", "pool_reg_new(3)"}}
	if era >= EraConway {
		pairs = append(pairs, [2]string{"reg(7)", "unreg_drep(17)"}, [2]string{"reg_drep(16)", "unreg(8)"}, [2]string{"stake_reg(0)", "reg_drep(16)"})
	}
	if thorough && era >= EraConway {
		pairs = append(pairs, [2]string{"stake_vote_reg_deleg(13)", "pool_reg_new(3)"}, [2]string{"stake_dereg(1)", "unreg_drep(17)"}, [2]string{"vote_reg_deleg(12)", "pool_rereg(3)"})
	}
	for _, p := range pairs {
		sets = append(sets, []int{kindIdx(p[0]), kindIdx(p[1])})
	}
	return sets
}

// ---- assets ----

var (
	polP1   = [28]byte{0xa1, 0xb2, 0xc3, 1}
	polZero = [28]byte{}
)

type aid struct {
	pol  [28]byte
	name string
}

func (a aid) String() string {
	p := "P1"
	if a.pol == polZero {
		p = "ZERO"
	}
	return fmt.Sprintf("(%s,%q)", p, a.name)
}

type mintVariant struct {
	name  string
	asset aid
	qty   int64
}

var mints = []mintVariant{
	{"none", aid{}, 0},
	{"mint+5(P1,A)", aid{polP1, "A"}, 5},
	{"burn-3(P1,A)", aid{polP1, "A"}, -3},
	{"mint+5(P1,empty-name)", aid{polP1, ""}, 5},
	{"mint+5(ZERO,empty-name)", aid{polZero, ""}, 5},
	{"mint+5(ZERO,A)", aid{polZero, "A"}, 5},
}

var assetDeltas = []string{"balanced", "out+1", "out-1", "missing", "renamed", "phantom"}

// ---- case ----

type scase struct {
	Era    int    `json:"era"`
	TwoIn  bool   `json:"two_inputs"`
	TwoOut bool   `json:"two_outputs"`
	Tok1   bool   `json:"u1_carries_token"` // u1 carries 2 of (P1,A): with two inputs the same asset is consumed twice
	Fee    uint64 `json:"fee"`
	Wd     int64  `json:"withdrawal"` // -1 absent
	Certs  []int  `json:"cert_kinds"`
	Prop   bool   `json:"proposal"`
	Don    bool   `json:"donation"`
	Mint   int    `json:"mint_variant"`
}

type vcase struct {
	S      scase  `json:"structure"`
	Term   string `json:"coin_delta_term"` // "" = 0
	Delta  int64  `json:"coin_delta"`
	ADelta int    `json:"asset_delta"`
}

type term struct {
	name string
	v    int64
}

// terms lists the value-moving terms of a structure (for the coin imbalance alphabet).
func (s scase) terms() []term {
	ts := []term{{"one", 1}}
	if s.Fee > 1 {
		ts = append(ts, term{"fee", int64(s.Fee)})
	}
	if s.Wd > 1 {
		ts = append(ts, term{"withdrawal", s.Wd})
	}
	for _, ci := range s.Certs {
		k := certKinds[ci]
		if k.deposit > 0 {
			ts = append(ts, term{"deposit:" + k.name, int64(k.deposit)})
		}
		if k.refund > 0 {
			ts = append(ts, term{"refund:" + k.name, int64(k.refund)})
		}
		// amounts a wrong formula could attach to a certificate that moves nothing
		switch k.name {
		case "pool_rereg(3)", "pool_retire(4)":
			ts = append(ts, term{"pool-deposit-that-does-not-apply:" + k.name, poolDep})
		case "stake_deleg(2)", "vote_deleg(9)", "stake_vote_deleg(10)":
			ts = append(ts, term{"key-deposit-that-does-not-apply:" + k.name, keyDep})
		case "update_drep(18)":
			ts = append(ts, term{"drep-deposit-that-does-not-apply:" + k.name, drepDep})
		}
	}
	if s.Prop {
		ts = append(ts, term{"proposal-deposit", govDep})
	}
	if s.Don {
		ts = append(ts, term{"donation", donAmt})
	}
	if m := mints[s.Mint]; m.qty != 0 {
		q := m.qty
		if q < 0 {
			q = -q
		}
		ts = append(ts, term{"mint-qty", q})
	}
	if s.TwoOut {
		ts = append(ts, term{"second-output", out2Amt})
	}
	return ts
}

// built is a generated transaction with everything the oracle needs.
type built struct {
	rec *TxRec
	ls  *StubState
	pp  common.ProtocolParameters
	ok  bool // false: the variant is not constructible (negative amount, nothing to vary)
	// what the oracle sums up
	inCoins   []uint64
	inAssets  map[aid]int64
	deposits  uint64
	refunds   uint64
	wd        uint64
	donation  uint64
	mint      map[aid]int64
	focus     aid
	hasTokens bool
}

func newUniverse(seed int64) *universe {
	return &universe{
		pay: NewKey(seed, 1), stakeR: NewKey(seed, 2), stakeN: NewKey(seed, 3),
		poolOld: H224([]byte("verif-pool-old")), poolNew: H224([]byte("verif-pool-new")),
		drepOld: H224([]byte("verif-drep-old")), drepNew: H224([]byte("verif-drep-new")),
		cold: H224([]byte("verif-cold")), hot: H224([]byte("verif-hot")),
	}
}

func build(v vcase, u *universe, seed int64, signed bool) built {
	s := v.S
	var b built
	b.inAssets, b.mint = map[aid]int64{}, map[aid]int64{}
	ls := NewStub()
	ls.RegStake[u.stakeR.Hash] = true
	ls.Rewards[u.stakeR.Hash] = 1 << 40
	ls.Pools[u.poolOld] = true
	ls.DReps[u.drepOld] = drepDep
	in1, in2 := MkIn(int(seed)+1, 0), MkIn(int(seed)+2, 1)
	rec := &TxRec{Era: s.Era, Inputs: []In{in1}, Fee: s.Fee}
	if signed {
		rec.Signers = []Key{u.pay, u.stakeR}
	}
	if s.Era == EraShelley {
		rec.TTL = U64(1 << 40)
	}
	uo1 := Out{Addr: EnterpriseAddr(u.pay), Coin: u1Coin}
	if s.Tok1 && s.Era >= EraMary {
		uo1.Assets = []Asset{{polP1, []byte("A"), 2}}
		b.inAssets[aid{polP1, "A"}] += 2
	}
	if err := ls.AddUtxo(s.Era, in1, uo1); err != nil {
		panic(err)
	}
	b.inCoins = append(b.inCoins, u1Coin)
	if s.TwoIn {
		o2 := Out{Addr: EnterpriseAddr(u.pay), Coin: u2Coin}
		if s.Era >= EraMary {
			o2.Assets = []Asset{{polP1, []byte("A"), 7}}
			b.inAssets[aid{polP1, "A"}] += 7
		}
		if err := ls.AddUtxo(s.Era, in2, o2); err != nil {
			panic(err)
		}
		rec.Inputs = append(rec.Inputs, in2)
		b.inCoins = append(b.inCoins, u2Coin)
	}
	if s.Wd >= 0 {
		rec.Withdrawals = []Wdrl{{RewardAddr(u.stakeR), uint64(s.Wd)}}
		b.wd = uint64(s.Wd)
	}
	for _, ci := range s.Certs {
		k := certKinds[ci]
		rec.Certs = append(rec.Certs, k.mk(u))
		b.deposits += k.deposit
		b.refunds += k.refund
	}
	if s.Prop {
		ah := H256([]byte("verif-anchor"))
		rec.Proposals = []*space.Node{space.A(space.U(govDep), space.B(RewardAddr(u.stakeR)), space.A(space.U(6)),
			space.A(space.T("https://example.invalid/p"), space.B(ah[:])))}
		b.deposits += govDep
	}
	if s.Don {
		rec.Donation = U64(donAmt)
		b.donation = donAmt
	}
	m := mints[s.Mint]
	if m.qty != 0 {
		if m.qty < 0 && b.inAssets[m.asset] < -m.qty {
			return b // cannot burn what is not there
		}
		rec.Mint = []Asset{{m.asset.pol, []byte(m.asset.name), m.qty}}
		b.mint[m.asset] = m.qty
	}
	// tokens available to the outputs when balanced
	avail := map[aid]int64{}
	for a, q := range b.inAssets {
		avail[a] += q
	}
	for a, q := range b.mint {
		avail[a] += q
	}
	var ids []aid
	for a, q := range avail {
		if q != 0 {
			ids = append(ids, a)
		}
	}
	sort.Slice(ids, func(i, j int) bool { return ids[i].String() < ids[j].String() })
	b.hasTokens = len(ids) > 0
	if m.qty != 0 {
		b.focus = m.asset
	} else if b.hasTokens {
		b.focus = ids[0]
	}
	outAssets := map[aid]int64{}
	for _, a := range ids {
		outAssets[a] = avail[a]
	}
	switch assetDeltas[v.ADelta] {
	case "balanced":
	case "out+1":
		if !b.hasTokens {
			return b
		}
		outAssets[b.focus]++
	case "out-1":
		if !b.hasTokens || outAssets[b.focus] < 1 {
			return b
		}
		outAssets[b.focus]--
	case "missing":
		if !b.hasTokens || outAssets[b.focus] == 0 {
			return b
		}
		delete(outAssets, b.focus)
	case "renamed":
		if !b.hasTokens || outAssets[b.focus] == 0 {
			return b
		}
		q := outAssets[b.focus]
		delete(outAssets, b.focus)
		outAssets[aid{b.focus.pol, b.focus.name + "x"}] += q
	case "phantom":
		if b.hasTokens || s.Era < EraMary {
			return b
		}
		outAssets[aid{polP1, "A"}] = 1
	}
	// balanced coin of the first output
	cons := new(big.Int)
	for _, c := range b.inCoins {
		cons.Add(cons, bu(c))
	}
	cons.Add(cons, bu(b.wd))
	cons.Add(cons, bu(b.refunds))
	prod := new(big.Int).Add(bu(s.Fee), bu(b.deposits))
	prod.Add(prod, bu(b.donation))
	if s.TwoOut {
		prod.Add(prod, bu(out2Amt))
	}
	o1 := new(big.Int).Sub(cons, prod)
	o1.Add(o1, big.NewInt(v.Delta))
	if o1.Sign() < 0 || !o1.IsUint64() {
		return b
	}
	out1 := Out{Addr: EnterpriseAddr(u.pay), Coin: o1.Uint64()}
	var oa []aid
	for a := range outAssets {
		oa = append(oa, a)
	}
	sort.Slice(oa, func(i, j int) bool { return oa[i].String() < oa[j].String() })
	for _, a := range oa {
		if outAssets[a] != 0 {
			out1.Assets = append(out1.Assets, Asset{a.pol, []byte(a.name), outAssets[a]})
		}
	}
	rec.Outputs = []Out{out1}
	if s.TwoOut {
		rec.Outputs = append(rec.Outputs, Out{Addr: EnterpriseAddr(u.pay), Coin: out2Amt})
	}
	p := NeutralPP()
	p.KeyDeposit, p.PoolDeposit, p.DRepDeposit, p.GovActionDeposit = keyDep, poolDep, drepDep, govDep
	b.rec, b.ls, b.pp, b.ok = rec, ls, MakePP(s.Era, p), true
	return b
}

func bu(v uint64) *big.Int { return new(big.Int).SetUint64(v) }

// ref is the oracle: consumed and produced per the ledger formula, from the record only.
func ref(b built) (coinOK bool, assetsOK bool, detail string) {
	cons, prod := new(big.Int), new(big.Int)
	for _, c := range b.inCoins {
		cons.Add(cons, bu(c))
	}
	cons.Add(cons, bu(b.wd))
	cons.Add(cons, bu(b.refunds))
	for _, o := range b.rec.Outputs {
		prod.Add(prod, bu(o.Coin))
	}
	prod.Add(prod, bu(b.rec.Fee))
	prod.Add(prod, bu(b.deposits))
	prod.Add(prod, bu(b.donation))
	ca, pa := map[aid]int64{}, map[aid]int64{}
	for a, q := range b.inAssets {
		ca[a] += q
	}
	for a, q := range b.mint { // mint is multi-asset only: it never adds coin
		ca[a] += q
	}
	for _, o := range b.rec.Outputs {
		for _, as := range o.Assets {
			pa[aid{as.Policy, string(as.Name)}] += as.Qty
		}
	}
	assetsOK = true
	for a, q := range ca {
		if pa[a] != q {
			assetsOK = false
		}
	}
	for a, q := range pa {
		if ca[a] != q {
			assetsOK = false
		}
	}
	return cons.Cmp(prod) == 0, assetsOK, fmt.Sprintf("consumed coin %s produced coin %s; consumed assets %v produced assets %v", cons, prod, ca, pa)
}
