// Free-running race audit for C41 (not the deciding step; see DESIGN §10.6): the chain
// selection entry points of the C41 harness (PraosChainSelector.Compare, CompareWithDensity,
// IsDeepFork, Preferred, PreferredWithDensity) run on several goroutines at once under the
// Go race detector over a universe of windowed tips (block numbers x VRF outputs x window
// slot lists) and a grid of (k, window, fork point, current tip) with shallow, exactly-k and
// deeper-than-k rollbacks. Every goroutine owns its selector and its tip objects. Reference,
// from the property statement: deep <=> tipBlock-forkBlock > k; order = (window density if
// deep) then block number then lower VRF output; antisymmetry; the preferred candidate is a
// member no other member beats, whatever the order; and every outcome must be a sequential
// caller's.
package c41

import (
	"bytes"
	"fmt"
	"testing"
	"time"

	"github.com/blinklabs-io/gouroboros/consensus"
	"verif/race/ra"
)

type tipDesc struct {
	bn    uint64
	vrf   []byte
	slots []uint64
}

type config struct {
	k, window, forkBN, forkSl, tipBN uint64
}

func density(d tipDesc, c config) int {
	n := 0
	for _, s := range d.slots {
		if s > c.forkSl && s <= c.forkSl+c.window {
			n++
		}
	}
	return n
}

func refCmp(a, b tipDesc, c config, deep bool) int {
	if deep {
		if da, db := density(a, c), density(b, c); da != db {
			if da > db {
				return 1
			}
			return -1
		}
	}
	if a.bn != b.bn {
		if a.bn > b.bn {
			return 1
		}
		return -1
	}
	return -bytes.Compare(a.vrf, b.vrf)
}

func sgn(x int) int {
	switch {
	case x > 0:
		return 1
	case x < 0:
		return -1
	}
	return 0
}

func TestRaceAudit(t *testing.T) {
	var descs []tipDesc
	for _, bn := range []uint64{10, 11} {
		for _, v := range []byte{0x00, 0x7f, 0xff} {
			for _, p := range [][]uint64{{101, 102, 103}, {101, 150}, {300, 301, 302, 303}} {
				descs = append(descs, tipDesc{bn, bytes.Repeat([]byte{v}, 32), p})
			}
		}
	}
	cfgs := []config{{2, 50, 8, 100, 9}, {2, 50, 8, 100, 10}, {2, 50, 8, 100, 11}, {2, 1000, 8, 100, 12}, {0, 50, 11, 100, 11}, {^uint64(0), 50, 0, 100, 11}}
	var cases []ra.Case
	for ci, c := range cfgs {
		ci, c := ci, c
		cases = append(cases, ra.Case{Key: fmt.Sprintf("selector|cfg=%d|k=%d,window=%d,fork=%d,tip=%d", ci, c.k, c.window, c.forkBN, c.tipBN), Fn: func(g int) string {
			sel := consensus.NewPraosChainSelectorWithWindow(c.k, c.window)
			fork := consensus.ForkPoint{Slot: c.forkSl, BlockNumber: c.forkBN}
			tips := make([]consensus.ChainTip, len(descs))
			for i, d := range descs {
				ts := uint64(0)
				for _, s := range d.slots {
					if s > ts {
						ts = s
					}
				}
				tips[i] = consensus.NewWindowedChainTip(ts, d.bn, append([]byte(nil), d.vrf...), append([]uint64(nil), d.slots...))
			}
			deep := c.tipBN > c.forkBN && c.tipBN-c.forkBN > c.k
			if got := sel.IsDeepFork(fork, c.tipBN); got != deep {
				return ra.OracleFail + fmt.Sprintf(" IsDeepFork=%v, statement says %v", got, deep)
			}
			res := make([]byte, 0, 2*len(tips)*len(tips))
			for i := range tips {
				for j := range tips {
					x, y := sel.Compare(tips[i], tips[j]), sel.CompareWithDensity(tips[i], tips[j], fork, c.tipBN)
					if sgn(x) != refCmp(descs[i], descs[j], c, false) {
						return ra.OracleFail + fmt.Sprintf(" Compare(%d,%d)=%d, reference %d", i, j, x, refCmp(descs[i], descs[j], c, false))
					}
					if sgn(y) != refCmp(descs[i], descs[j], c, deep) {
						return ra.OracleFail + fmt.Sprintf(" CompareWithDensity(%d,%d)=%d, reference %d (deep=%v)", i, j, y, refCmp(descs[i], descs[j], c, deep), deep)
					}
					if sgn(y) != -sgn(sel.CompareWithDensity(tips[j], tips[i], fork, c.tipBN)) {
						return ra.OracleFail + fmt.Sprintf(" CompareWithDensity not antisymmetric on (%d,%d)", i, j)
					}
					res = append(res, byte(sgn(x)+1), byte(sgn(y)+1))
				}
			}
			// preferred candidate over every rotation of a few 4-subsets
			for s := 0; s+3 < len(tips); s += 3 {
				for rot := 0; rot < 4; rot++ {
					cand := make([]consensus.ChainTip, 4)
					idx := make([]int, 4)
					for q := 0; q < 4; q++ {
						idx[q] = s + (q+rot)%4
						cand[q] = tips[idx[q]]
					}
					for pass, best := range []consensus.ChainTip{sel.Preferred(cand), sel.PreferredWithDensity(cand, fork, c.tipBN)} {
						bi := -1
						for q := range cand {
							if cand[q] == best {
								bi = idx[q]
							}
						}
						if bi < 0 {
							return ra.OracleFail + " preferred candidate is not a member of the candidate set"
						}
						for _, o := range idx {
							if refCmp(descs[o], descs[bi], c, pass == 1 && deep) > 0 {
								return ra.OracleFail + fmt.Sprintf(" preferred candidate %d is beaten by member %d (with density=%v)", bi, o, pass == 1)
							}
						}
						res = append(res, byte(bi))
					}
				}
			}
			return ra.Sum(res)
		}})
	}
	ra.Run(t, 4, 20, 5*time.Second, cases)
}
