// Free-running race audit for C35 (not the deciding step; see DESIGN §10.6): the bodies of
// the C35 harness run on several goroutines at once under the Go race detector. MerkleRoot
// is documented as a pure function of its argument; any DATA RACE report inside it, or any
// root that differs from the reference construction while other goroutines are hashing
// their own lists, is a defect no single-goroutine enumeration can see.
package c35

import (
	"bytes"
	"fmt"
	"sync"
	"testing"

	"golang.org/x/crypto/blake2b"

	"github.com/blinklabs-io/gouroboros/ledger/byron"
)

func h(b []byte) [32]byte { return blake2b.Sum256(b) }

func ref(items [][]byte) [32]byte {
	n := len(items)
	if n == 0 {
		return h(nil)
	}
	if n == 1 {
		return h(append([]byte{0}, items[0]...))
	}
	s := 1
	for m := (n - 1) >> 1; m > 0; m >>= 1 {
		s <<= 1
	}
	l, r := ref(items[:s]), ref(items[s:])
	buf := append([]byte{1}, l[:]...)
	buf = append(buf, r[:]...)
	return h(buf)
}

func TestRaceAudit(t *testing.T) {
	const G = 4
	var wg sync.WaitGroup
	var mu sync.Mutex
	bad := map[string]bool{}
	for g := 0; g < G; g++ {
		wg.Add(1)
		go func(g int) {
			defer wg.Done()
			for round := 0; round < 40; round++ {
				for n := 0; n <= 17; n++ {
					items := make([][]byte, n)
					for i := range items {
						items[i] = []byte(fmt.Sprintf("g%d-r%d-i%d", g, round, i))
					}
					got, want := byron.MerkleRoot(items), ref(items)
					if !bytes.Equal(got[:], want[:]) {
						mu.Lock()
						bad[fmt.Sprintf("len=%d", n)] = true
						mu.Unlock()
					}
				}
			}
		}(g)
	}
	wg.Wait()
	for k := range bad {
		fmt.Printf("RACEAUDIT-MISMATCH key=concurrent-callers|wrong-root what=%s\n", k)
		break
	}
	if len(bad) > 0 {
		t.Fail()
	}
	fmt.Printf("RACEAUDIT-STATS goroutines=%d calls=%d\n", G, G*40*18)
}
