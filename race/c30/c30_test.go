// Free-running race audit for C30 (not the deciding step; see DESIGN §10.6): the fee and
// size entry points of the C30 harness (the era's UtxoValidateFeeTooSmallUtxo,
// UtxoValidateMaxTxSizeUtxo and MinFeeTx on a transaction decoded by the real era decoder)
// run on several goroutines at once under the Go race detector for the 8 configurations
// (7 eras, Dijkstra with both envelopes) x (a,b) x original encoding (canonical, indefinite
// envelope, non-minimal body map header) x fee in {min-1, min, min+1} resp. maxTxSize in
// {L-2, L, L+1}. Every goroutine owns its key, transaction tree, bytes, stub state and
// protocol parameters (race/txbb is a copy of the harness's builder). Oracle: min = a*size+b
// in big integers with size = original length (-1 for the 4-element envelope); fee < min is
// rejected, an overflowing minimum is an error, the size rule accepts iff L <= maxTxSize;
// and every outcome must be a sequential caller's.
package c30

import (
	"crypto/ed25519"
	"fmt"
	"math/big"
	"testing"
	"time"

	"github.com/blinklabs-io/gouroboros/ledger"
	"github.com/blinklabs-io/gouroboros/ledger/allegra"
	"github.com/blinklabs-io/gouroboros/ledger/alonzo"
	"github.com/blinklabs-io/gouroboros/ledger/babbage"
	"github.com/blinklabs-io/gouroboros/ledger/common"
	"github.com/blinklabs-io/gouroboros/ledger/conway"
	"github.com/blinklabs-io/gouroboros/ledger/dijkstra"
	"github.com/blinklabs-io/gouroboros/ledger/mary"
	"github.com/blinklabs-io/gouroboros/ledger/shelley"
	"verif/race/ra"
	. "verif/race/txbb"
	"verif/space"
)

type cfg struct {
	Era  int
	Env3 bool
}

func (g cfg) four() bool { return g.Era >= EraAlonzo && !g.Env3 }

type fns struct {
	fee, max common.UtxoValidationRuleFunc
	minFee   func(common.Transaction, common.ProtocolParameters) (uint64, error)
}

func eraFns(era int) fns {
	switch era {
	case EraShelley:
		return fns{shelley.UtxoValidateFeeTooSmallUtxo, shelley.UtxoValidateMaxTxSizeUtxo, shelley.MinFeeTx}
	case EraAllegra:
		return fns{allegra.UtxoValidateFeeTooSmallUtxo, allegra.UtxoValidateMaxTxSizeUtxo, shelley.MinFeeTx}
	case EraMary:
		return fns{mary.UtxoValidateFeeTooSmallUtxo, mary.UtxoValidateMaxTxSizeUtxo, mary.MinFeeTx}
	case EraAlonzo:
		return fns{alonzo.UtxoValidateFeeTooSmallUtxo, alonzo.UtxoValidateMaxTxSizeUtxo, alonzo.MinFeeTx}
	case EraBabbage:
		return fns{babbage.UtxoValidateFeeTooSmallUtxo, babbage.UtxoValidateMaxTxSizeUtxo, babbage.MinFeeTx}
	case EraConway:
		return fns{conway.UtxoValidateFeeTooSmallUtxo, conway.UtxoValidateMaxTxSizeUtxo, conway.MinFeeTx}
	}
	return fns{dijkstra.UtxoValidateFeeTooSmallUtxo, dijkstra.UtxoValidateMaxTxSizeUtxo, dijkstra.MinFeeTx}
}

func bu(v uint64) *big.Int { return new(big.Int).SetUint64(v) }

func TestRaceAudit(t *testing.T) {
	two64 := new(big.Int).Lsh(big.NewInt(1), 64)
	cfgs := []cfg{{EraShelley, false}, {EraAllegra, false}, {EraMary, false}, {EraAlonzo, false}, {EraBabbage, false}, {EraConway, false}, {EraDijkstra, false}, {EraDijkstra, true}}
	abs := [][2]uint64{{0, 0}, {44, 155381}, {1 << 32, 1 << 32}, {^uint64(0), ^uint64(0)}}
	reencs := []string{"canonical", "envelope=indef", "body-map=1B"}
	var cases []ra.Case
	for _, g := range cfgs {
		for _, ab := range abs {
			for _, re := range reencs {
				g, ab, re := g, ab, re
				env := 4
				if !g.four() {
					env = 3
				}
				cases = append(cases, ra.Case{Key: fmt.Sprintf("fee+size|era=%s,envelope=%d|a=%d,b=%d|%s", EraNames[g.Era], env, ab[0], ab[1], re), PerG: true, Fn: func(gid int) string {
					seed := int64(60 + gid)
					key := NewKey(seed, 1)
					in := MkIn(int(seed)+1, 0)
					r := &TxRec{Era: g.Era, Inputs: []In{in}, Outputs: []Out{{Addr: EnterpriseAddr(key), Coin: 0}, {Addr: EnterpriseAddr(key), Coin: 0}},
						Fee: 0, TTL: U64(1 << 40), Signers: []Key{key}, Envelope3: g.Env3}
					tx := r.TxNode()
					feeNode := tx.Items[0].MapGetUint(2)
					feeNode.Form = space.Form8
					switch re {
					case "envelope=indef":
						tx.Form = space.FormIndef
					case "body-map=1B":
						tx.Items[0].Form = space.Form1
					}
					fn := eraFns(g.Era)
					var parts []any
					eval := func(fee uint64, a, b, maxSize uint64, sizeRule bool) (acc bool, L int, mfv uint64, mfe error, oops string) {
						feeNode.Arg = fee
						bh := H256(tx.Items[0].Encode())
						for _, wn := range tx.Items[1].MapGetUint(0).Items {
							wn.Items[1].Bytes = ed25519.Sign(key.Priv, bh[:])
						}
						raw := tx.Encode()
						dtx, err := ledger.NewTransactionFromCbor(TxType(g.Era), raw)
						if err != nil {
							return false, len(raw), 0, nil, "decode: " + err.Error()
						}
						ls := NewStub()
						if err := ls.AddUtxo(g.Era, in, Out{Addr: EnterpriseAddr(key), Coin: fee}); err != nil {
							return false, len(raw), 0, nil, "utxo: " + err.Error()
						}
						p := NeutralPP()
						p.MinFeeA, p.MinFeeB = a, b
						if maxSize != 0 {
							p.MaxTxSize = maxSize
						}
						pp := MakePP(g.Era, p)
						rule := fn.fee
						if sizeRule {
							rule = fn.max
						}
						rerr := rule(dtx, 100, ls, pp)
						mfv, mfe = fn.minFee(dtx, pp)
						full := Verify(g.Era, dtx, 100, ls, pp)
						parts = append(parts, raw, ErrStr(rerr), mfv, ErrStr(mfe), ErrStr(full))
						return rerr == nil, len(raw), mfv, mfe, ""
					}
					// original length (fee is always in the 8-byte form here)
					feeNode.Arg = 0
					L := len(tx.Encode())
					size := L
					if g.four() {
						size--
					}
					min := new(big.Int).Mul(bu(ab[0]), big.NewInt(int64(size)))
					min.Add(min, bu(ab[1]))
					if min.Cmp(two64) >= 0 {
						_, _, _, mfe, oops := eval(^uint64(0), ab[0], ab[1], 0, false)
						if oops != "" {
							return ra.Sum(parts...) + oops
						}
						if mfe == nil {
							return ra.OracleFail + " a*size+b does not fit 64 bits but MinFeeTx returns no error"
						}
					} else {
						m := min.Uint64()
						for _, fee := range []uint64{m - 1, m, m + 1} {
							if (fee == m-1 && m == 0) || (fee == m+1 && m == ^uint64(0)) {
								continue
							}
							acc, _, mfv, mfe, oops := eval(fee, ab[0], ab[1], 0, false)
							if oops != "" {
								return ra.Sum(parts...) + oops
							}
							if mfe != nil || mfv < m {
								return ra.OracleFail + fmt.Sprintf(" MinFeeTx = %d (%v), exact minimum %d", mfv, mfe, m)
							}
							if acc && fee < m {
								return ra.OracleFail + fmt.Sprintf(" fee %d accepted, minimum is %d (size %d)", fee, m, size)
							}
						}
					}
					if ab[0] == 0 {
						for _, ms := range []int{L - 2, L, L + 1} {
							acc, l2, _, _, oops := eval(0, 0, 0, uint64(ms), true)
							if oops != "" {
								return ra.Sum(parts...) + oops
							}
							if l2 != L {
								return "audit: length changed"
							}
							if acc != (L <= ms) {
								return ra.OracleFail + fmt.Sprintf(" size rule accepts=%v for L=%d maxTxSize=%d", acc, L, ms)
							}
						}
					}
					return ra.Sum(parts...)
				}})
			}
		}
	}
	ra.Run(t, 4, 2, 6*time.Second, cases)
}
