// Free-running race audit for C04 (not the deciding step; see DESIGN §10.6): a
// representative slice of the C04 constructor table (every mini-protocol, messages with
// points, tips, version maps, wrapped blocks/headers, tx ids, peer addresses, DMQ messages)
// runs on several goroutines at once under the Go race detector. Every goroutine builds its
// own message through the library constructor, encodes it, decodes the bytes with the
// protocol's NewMsgFromCbor, re-encodes the result, and decodes an arity+1 mutant written
// with the harness's own CBOR writer. The decoded message must have the same Go type and
// Type() and re-encode to the same bytes, and every outcome must be the one a sequential
// caller gets.
package c04

import (
	"bytes"
	"fmt"
	"math"
	"net"
	"strings"
	"testing"
	"time"

	"github.com/blinklabs-io/gouroboros/cbor"
	"github.com/blinklabs-io/gouroboros/protocol"
	"github.com/blinklabs-io/gouroboros/protocol/blockfetch"
	"github.com/blinklabs-io/gouroboros/protocol/chainsync"
	pcommon "github.com/blinklabs-io/gouroboros/protocol/common"
	"github.com/blinklabs-io/gouroboros/protocol/handshake"
	"github.com/blinklabs-io/gouroboros/protocol/keepalive"
	lmn "github.com/blinklabs-io/gouroboros/protocol/localmessagenotification"
	lsq "github.com/blinklabs-io/gouroboros/protocol/localstatequery"
	ltm "github.com/blinklabs-io/gouroboros/protocol/localtxmonitor"
	lts "github.com/blinklabs-io/gouroboros/protocol/localtxsubmission"
	"github.com/blinklabs-io/gouroboros/protocol/messagesubmission"
	"github.com/blinklabs-io/gouroboros/protocol/peersharing"
	"github.com/blinklabs-io/gouroboros/protocol/txsubmission"
	"verif/race/ra"
	"verif/space"
)

type msg = protocol.Message
type decFn = func(uint, []byte) (protocol.Message, error)

func bytesN(n int, k byte) []byte {
	b := make([]byte, n)
	for i := range b {
		b[i] = byte(i*5+int(k)*17) ^ k
	}
	return b
}

type entry struct {
	name string
	dec  decFn
	mk   func() (msg, error) // builds a fresh message (fresh arguments) on every call
}

func table() []entry {
	var out []entry
	add := func(name string, dec decFn, mk func() (msg, error)) { out = append(out, entry{name, dec, mk}) }
	ok := func(m msg) (msg, error) { return m, nil }
	h32 := func() []byte { return bytesN(32, 1) }
	pts := map[string]func() pcommon.Point{
		"origin": func() pcommon.Point { return pcommon.NewPointOrigin() },
		"(0,h)":  func() pcommon.Point { return pcommon.NewPoint(0, h32()) },
		"(max,h)": func() pcommon.Point {
			return pcommon.NewPoint(math.MaxUint64, bytesN(32, 2))
		},
	}
	tip := func(p func() pcommon.Point, n uint64) pcommon.Tip { return pcommon.Tip{Point: p(), BlockNumber: n} }

	// handshake
	for _, v := range []struct {
		d string
		m func() protocol.ProtocolVersionMap
	}{
		{"ntc-all", func() protocol.ProtocolVersionMap {
			return protocol.GetProtocolVersionMap(protocol.ProtocolModeNodeToClient, 764824073, false, false, false)
		}},
		{"ntn-all", func() protocol.ProtocolVersionMap {
			return protocol.GetProtocolVersionMap(protocol.ProtocolModeNodeToNode, 2, true, true, true)
		}},
		{"empty", func() protocol.ProtocolVersionMap { return protocol.ProtocolVersionMap{} }},
	} {
		v := v
		add("handshake.NewMsgProposeVersions("+v.d+")", handshake.NewMsgFromCbor, func() (msg, error) { return ok(handshake.NewMsgProposeVersions(v.m())) })
		add("handshake.NewMsgQueryReply("+v.d+")", handshake.NewMsgFromCbor, func() (msg, error) { return ok(handshake.NewMsgQueryReply(v.m())) })
	}
	add("handshake.NewMsgAcceptVersion(ntn13)", handshake.NewMsgFromCbor, func() (msg, error) {
		return ok(handshake.NewMsgAcceptVersion(13, protocol.VersionDataNtN13andUp{VersionDataNtN11to12: protocol.VersionDataNtN11to12{CborNetworkMagic: math.MaxUint32, CborInitiatorAndResponderDiffusionMode: true, CborPeerSharing: 1, CborQuery: true}}))
	})
	add("handshake.NewMsgAcceptVersion(ntc9)", handshake.NewMsgFromCbor, func() (msg, error) {
		return ok(handshake.NewMsgAcceptVersion(32777, protocol.VersionDataNtC9to14(764824073)))
	})
	add("handshake.NewMsgRefuse(mismatch)", handshake.NewMsgFromCbor, func() (msg, error) {
		return ok(handshake.NewMsgRefuse([]any{uint64(0), []any{uint64(13), uint64(14)}}))
	})

	// chain-sync
	csN, csC := decFn(chainsync.NewMsgFromCborNtN), decFn(chainsync.NewMsgFromCborNtC)
	for dn, dec := range map[string]decFn{"NtN": csN, "NtC": csC} {
		dn, dec := dn, dec
		add("chainsync.NewMsgRequestNext/"+dn, dec, func() (msg, error) { return ok(chainsync.NewMsgRequestNext()) })
		add("chainsync.NewMsgAwaitReply/"+dn, dec, func() (msg, error) { return ok(chainsync.NewMsgAwaitReply()) })
		for pn, p := range pts {
			pn, p := pn, p
			add("chainsync.NewMsgRollBackward("+pn+")/"+dn, dec, func() (msg, error) { return ok(chainsync.NewMsgRollBackward(p(), tip(p, 1))) })
			add("chainsync.NewMsgIntersectFound("+pn+")/"+dn, dec, func() (msg, error) {
				return ok(chainsync.NewMsgIntersectFound(p(), tip(p, math.MaxUint64)))
			})
			add("chainsync.NewMsgIntersectNotFound("+pn+")/"+dn, dec, func() (msg, error) { return ok(chainsync.NewMsgIntersectNotFound(tip(p, 0))) })
			add("chainsync.NewMsgFindIntersect("+pn+",origin)/"+dn, dec, func() (msg, error) {
				return ok(chainsync.NewMsgFindIntersect([]pcommon.Point{p(), pcommon.NewPointOrigin()}))
			})
		}
	}
	payload := func() []byte { return space.A(space.U(1), space.B([]byte{1, 2, 3})).Encode() }
	for _, bt := range []uint{0, 1, 7} {
		bt := bt
		add(fmt.Sprintf("chainsync.NewMsgRollForwardNtC(blockType=%d)", bt), csC, func() (msg, error) {
			return chainsync.NewMsgRollForwardNtC(bt, payload(), tip(pts["(0,h)"], 5))
		})
	}
	for _, e := range [][2]uint{{0, 0}, {0, 1}, {1, 0}, {6, 0}} {
		e := e
		add(fmt.Sprintf("chainsync.NewMsgRollForwardNtN(era=%d,byronType=%d)", e[0], e[1]), csN, func() (msg, error) {
			blk := space.A(space.A(space.U(1), space.B(h32())), space.A()).Encode()
			return chainsync.NewMsgRollForwardNtN(e[0], e[1], blk, tip(pts["(max,h)"], 5))
		})
	}

	// block-fetch
	add("blockfetch.NewMsgRequestRange", blockfetch.NewMsgFromCbor, func() (msg, error) {
		return ok(blockfetch.NewMsgRequestRange(pts["(0,h)"](), pts["(max,h)"]()))
	})
	add("blockfetch.NewMsgBlock", blockfetch.NewMsgFromCbor, func() (msg, error) {
		return ok(blockfetch.NewMsgBlock(space.A(space.U(6), space.Tag(24, space.B(payload()))).Encode()))
	})
	add("blockfetch.NewMsgStartBatch", blockfetch.NewMsgFromCbor, func() (msg, error) { return ok(blockfetch.NewMsgStartBatch()) })
	add("blockfetch.NewMsgNoBlocks", blockfetch.NewMsgFromCbor, func() (msg, error) { return ok(blockfetch.NewMsgNoBlocks()) })

	// tx-submission
	mkTxId := func(era uint16, k byte) txsubmission.TxId {
		var t txsubmission.TxId
		t.EraId = era
		copy(t.TxId[:], bytesN(32, k))
		return t
	}
	add("txsubmission.NewMsgInit", txsubmission.NewMsgFromCbor, func() (msg, error) { return ok(txsubmission.NewMsgInit()) })
	add("txsubmission.NewMsgRequestTxIds", txsubmission.NewMsgFromCbor, func() (msg, error) {
		return ok(txsubmission.NewMsgRequestTxIds(true, 1, math.MaxUint16))
	})
	add("txsubmission.NewMsgReplyTxIds(two)", txsubmission.NewMsgFromCbor, func() (msg, error) {
		return ok(txsubmission.NewMsgReplyTxIds([]txsubmission.TxIdAndSize{{TxId: mkTxId(6, 1), Size: 100}, {TxId: mkTxId(math.MaxUint16, 2), Size: math.MaxUint32}}))
	})
	add("txsubmission.NewMsgReplyTxIds(none)", txsubmission.NewMsgFromCbor, func() (msg, error) {
		return ok(txsubmission.NewMsgReplyTxIds([]txsubmission.TxIdAndSize{}))
	})
	add("txsubmission.NewMsgRequestTxs", txsubmission.NewMsgFromCbor, func() (msg, error) {
		return ok(txsubmission.NewMsgRequestTxs([]txsubmission.TxId{mkTxId(6, 1), mkTxId(0, 2)}))
	})
	add("txsubmission.NewMsgReplyTxs", txsubmission.NewMsgFromCbor, func() (msg, error) {
		return ok(txsubmission.NewMsgReplyTxs([]txsubmission.TxBody{{EraId: 6, TxBody: payload()}, {EraId: 1, TxBody: space.U(7).Encode()}}))
	})

	// keep-alive, peer-sharing
	add("keepalive.NewMsgKeepAlive", keepalive.NewMsgFromCbor, func() (msg, error) { return ok(keepalive.NewMsgKeepAlive(math.MaxUint16)) })
	add("keepalive.NewMsgKeepAliveResponse", keepalive.NewMsgFromCbor, func() (msg, error) { return ok(keepalive.NewMsgKeepAliveResponse(1)) })
	add("peersharing.NewMsgShareRequest", peersharing.NewMsgFromCbor, func() (msg, error) { return ok(peersharing.NewMsgShareRequest(255)) })
	add("peersharing.NewMsgSharePeers(v4,v6,v4)", peersharing.NewMsgFromCbor, func() (msg, error) {
		return ok(peersharing.NewMsgSharePeers([]peersharing.PeerAddress{{IP: net.IP{1, 2, 3, 4}, Port: 3001}, {IP: net.ParseIP("2001:db8::1"), Port: 0}, {IP: net.IP{255, 0, 0, 255}, Port: math.MaxUint16}}))
	})

	// local tx submission / monitor / state query
	add("localtxsubmission.NewMsgSubmitTx", lts.NewMsgFromCbor, func() (msg, error) { return ok(lts.NewMsgSubmitTx(6, payload())) })
	add("localtxsubmission.NewMsgRejectTx", lts.NewMsgFromCbor, func() (msg, error) { return ok(lts.NewMsgRejectTx(payload())) })
	add("localtxsubmission.NewMsgAcceptTx", lts.NewMsgFromCbor, func() (msg, error) { return ok(lts.NewMsgAcceptTx()) })
	add("localtxmonitor.NewMsgAcquired", ltm.NewMsgFromCbor, func() (msg, error) { return ok(ltm.NewMsgAcquired(math.MaxUint64)) })
	add("localtxmonitor.NewMsgReplyNextTx", ltm.NewMsgFromCbor, func() (msg, error) { return ok(ltm.NewMsgReplyNextTx(6, payload())) })
	add("localtxmonitor.NewMsgHasTx", ltm.NewMsgFromCbor, func() (msg, error) { return ok(ltm.NewMsgHasTx(h32())) })
	add("localtxmonitor.NewMsgReplyHasTx", ltm.NewMsgFromCbor, func() (msg, error) { return ok(ltm.NewMsgReplyHasTx(true)) })
	add("localtxmonitor.NewMsgReplyGetSizes", ltm.NewMsgFromCbor, func() (msg, error) { return ok(ltm.NewMsgReplyGetSizes(1, math.MaxUint32, 0)) })
	add("localstatequery.NewMsgAcquire", lsq.NewMsgFromCbor, func() (msg, error) { return ok(lsq.NewMsgAcquire(pts["(0,h)"]())) })
	add("localstatequery.NewMsgAcquireVolatileTip", lsq.NewMsgFromCbor, func() (msg, error) { return ok(lsq.NewMsgAcquireVolatileTip()) })
	add("localstatequery.NewMsgFailure", lsq.NewMsgFromCbor, func() (msg, error) { return ok(lsq.NewMsgFailure(1)) })
	add("localstatequery.NewMsgResult", lsq.NewMsgFromCbor, func() (msg, error) { return ok(lsq.NewMsgResult(payload())) })
	add("localstatequery.NewMsgReAcquire", lsq.NewMsgFromCbor, func() (msg, error) { return ok(lsq.NewMsgReAcquire(pts["(max,h)"]())) })

	// DMQ
	mkDmq := func(body []byte, kes uint64) pcommon.DmqMessage {
		m := pcommon.DmqMessage{
			Payload:      pcommon.DmqMessagePayload{MessageBody: body, KESPeriod: kes, ExpiresAt: 1},
			KESSignature: bytesN(448, 3),
			OperationalCertificate: pcommon.OperationalCertificate{
				KESVerificationKey: bytesN(32, 4), IssueNumber: kes, KESPeriod: kes, ColdSignature: bytesN(64, 5),
			},
			ColdVerificationKey: bytesN(32, 6),
		}
		if err := m.SetComputedMessageID(); err != nil {
			panic(err)
		}
		return m
	}
	add("messagesubmission.NewMsgReplyMessages(two)", messagesubmission.NewMsgFromCbor, func() (msg, error) {
		return ok(messagesubmission.NewMsgReplyMessages([]pcommon.DmqMessage{mkDmq([]byte{}, 0), mkDmq([]byte("hello"), 1)}))
	})
	add("messagesubmission.NewMsgRequestMessageIds", messagesubmission.NewMsgFromCbor, func() (msg, error) {
		return ok(messagesubmission.NewMsgRequestMessageIds(true, 0, 3))
	})
	add("messagesubmission.NewMsgRequestMessages", messagesubmission.NewMsgFromCbor, func() (msg, error) {
		return ok(messagesubmission.NewMsgRequestMessages([][]byte{h32(), bytesN(32, 9)}))
	})
	add("localmessagenotification.NewMsgReplyMessagesNonBlocking", lmn.NewMsgFromCbor, func() (msg, error) {
		return ok(lmn.NewMsgReplyMessagesNonBlocking([]pcommon.DmqMessage{mkDmq([]byte("x"), 2)}, true))
	})
	add("localmessagenotification.NewMsgRequestMessages", lmn.NewMsgFromCbor, func() (msg, error) { return ok(lmn.NewMsgRequestMessages(false)) })
	return out
}

func TestRaceAudit(t *testing.T) {
	var cases []ra.Case
	for _, e := range table() {
		e := e
		cases = append(cases, ra.Case{Key: strings.Replace(e.name, ".", "|", 1), Fn: func(g int) string {
			m, err := e.mk()
			if err != nil {
				return ra.Sum("constructor", err)
			}
			enc, err := cbor.Encode(m)
			if err != nil {
				return ra.Sum("encode", err)
			}
			got, err := e.dec(uint(m.Type()), append([]byte(nil), enc...))
			if err != nil {
				return ra.OracleFail + " library-built message rejected by its own decoder: " + err.Error()
			}
			if fmt.Sprintf("%T", got) != fmt.Sprintf("%T", m) || got.Type() != m.Type() {
				return ra.OracleFail + fmt.Sprintf(" decoded as %T/%d, built %T/%d", got, got.Type(), m, m.Type())
			}
			re, err := cbor.Encode(got)
			if err != nil {
				return ra.Sum(enc, "re-encode", err)
			}
			if !bytes.Equal(re, enc) {
				return ra.OracleFail + fmt.Sprintf(" re-encoding of the decoded message differs: %x vs %x", re, enc)
			}
			// arity+1 mutant (own reader/writer); sequential comparison only
			mut := "n/a"
			if n, perr := space.Parse(enc); perr == nil && n.Major == 4 {
				n.Items = append(n.Items, space.U(0))
				n.Arg = uint64(len(n.Items))
				_, merr := e.dec(uint(m.Type()), n.Encode())
				mut = ra.Err(merr)
			}
			return ra.Sum(enc, got.Cbor(), mut)
		}})
	}
	ra.Run(t, 4, 8, 6*time.Second, cases)
}
