// Package ra is the small driver shared by the free-running race audits (race/cNN).
//
// An audit is a list of cases. A case builds ALL the objects it passes to the library from
// scratch (nothing is shared between goroutines except the library's own package state),
// calls the same real entry points as the E2 harness of the property and returns a
// deterministic digest of everything it observed. Run executes the cases
//
//  1. sequentially in a pristine child process (the same test binary re-executed), so the
//     expectations exist BEFORE the concurrent phase without this process having touched
//     any lazily initialised package state,
//  2. on G goroutines at once (released together, no synchronisation between them while
//     they run, so that the race detector sees unordered accesses and the first calls of
//     lazily built tables happen concurrently), and
//  3. sequentially once more in this process after the goroutines finished (state that the
//     concurrent phase left corrupted).
//
// Every digest of phase 2 and 3 must equal the digest of phase 1 for the same (g, case).
// A case may also return a digest that starts with OracleFail when a known answer is
// violated. Differences are printed as `RACEAUDIT-MISMATCH key=<entry point>|<kind> what=<details>`
// (one line per distinct key; entry point = first segment of the case key, kind = known-answer /
// concurrent≠sequential / state-left-behind); `RACEAUDIT-STATS goroutines=<G> calls=<n>` is always printed.
// DATA RACE reports come from the race detector itself.
package ra

import (
	"bufio"
	"bytes"
	"crypto/sha256"
	"encoding/hex"
	"fmt"
	"os"
	"os/exec"
	"sort"
	"strconv"
	"strings"
	"sync"
	"testing"
	"time"
)

// OracleFail prefixes a digest whose case saw a result that contradicts its known answer.
const OracleFail = "ORACLE-FAIL:"

// Case is one audited call sequence.
type Case struct {
	Key  string             // stable short key: <entry point>|<input class>
	Fn   func(g int) string // g = goroutine id (0..G-1); must be deterministic in (g)
	PerG bool               // the digest depends on g (inputs differ per goroutine); otherwise one sequential run serves all g
}

// Sum digests observations: []byte as hex, errors by their text, everything else with %v.
func Sum(parts ...any) string {
	h := sha256.New()
	for _, p := range parts {
		switch x := p.(type) {
		case nil:
			h.Write([]byte("<nil>"))
		case []byte:
			h.Write([]byte(hex.EncodeToString(x)))
		case error:
			h.Write([]byte("err:" + x.Error()))
		case string:
			h.Write([]byte(x))
		default:
			fmt.Fprintf(h, "%v", x)
		}
		h.Write([]byte{0})
	}
	return hex.EncodeToString(h.Sum(nil))[:20]
}

// Err renders an error for a digest ("" for nil).
func Err(err error) string {
	if err == nil {
		return "ok"
	}
	return "err:" + err.Error()
}

// Safe runs f and turns a panic into a digest (panics are results too: a panic that only
// happens under concurrency is a mismatch).
func Safe(f func() string) (out string) {
	defer func() {
		if r := recover(); r != nil {
			out = fmt.Sprintf("panic: %v", r)
		}
	}()
	return f()
}

const childEnv = "VERIF_RACEAUDIT_CHILD"

func runSequential(G int, cases []Case) [][]string {
	out := make([][]string, G)
	for g := 0; g < G; g++ {
		out[g] = make([]string, len(cases))
		for i := range cases {
			fn := cases[i].Fn
			if g > 0 && !cases[i].PerG {
				out[g][i] = out[0][i]
				continue
			}
			t0 := time.Now()
			out[g][i] = Safe(func() string { return fn(g) })
			if g == 0 && os.Getenv("VERIF_RA_TIMING") != "" { // tuning aid
				fmt.Fprintf(os.Stderr, "RA-TIMING %-60s %8.2fms %s\n", cases[i].Key, float64(time.Since(t0).Microseconds())/1000, clip(out[g][i]))
			}
		}
	}
	return out
}

// child: print the sequential digests and leave.
func childMain(G int, cases []Case) {
	res := runSequential(G, cases)
	w := bufio.NewWriter(os.Stdout)
	for g := range res {
		for i, d := range res[g] {
			fmt.Fprintf(w, "RA-EXP %d %d %s %s\n", g, i, strconv.Quote(d), strconv.Quote(cases[i].Key))
		}
	}
	fmt.Fprintln(w, "RA-EXP-END")
	w.Flush()
}

func pristine(G int, cases []Case) ([][]string, error) {
	cmd := exec.Command(os.Args[0], "-test.run=^TestRaceAudit$", "-test.count=1")
	cmd.Env = append(os.Environ(), childEnv+"=1")
	var so bytes.Buffer
	cmd.Stdout = &so
	cmd.Stderr = os.Stderr // race reports of a sequential pass (library-internal goroutines) stay visible
	if err := cmd.Run(); err != nil {
		// a race report in the child makes it exit non-zero although the digests are complete
		if !strings.Contains(so.String(), "RA-EXP-END") {
			return nil, fmt.Errorf("child: %v", err)
		}
	}
	exp := make([][]string, G)
	for g := range exp {
		exp[g] = make([]string, len(cases))
	}
	n, done := 0, false
	for _, ln := range strings.Split(so.String(), "\n") {
		if ln == "RA-EXP-END" {
			done = true
			continue
		}
		if !strings.HasPrefix(ln, "RA-EXP ") {
			continue
		}
		f := strings.SplitN(ln, " ", 4)
		if len(f) != 4 {
			continue
		}
		g, e1 := strconv.Atoi(f[1])
		i, e2 := strconv.Atoi(f[2])
		dq, e3 := strconv.QuotedPrefix(f[3])
		if e1 != nil || e2 != nil || e3 != nil || g < 0 || g >= G || i < 0 || i >= len(cases) {
			continue
		}
		d, _ := strconv.Unquote(dq)
		if k, err := strconv.Unquote(strings.TrimSpace(f[3][len(dq):])); err != nil || k != cases[i].Key {
			return nil, fmt.Errorf("child: case list differs between processes at %d (%q)", i, k)
		}
		exp[g][i] = d
		n++
	}
	if !done || n != G*len(cases) {
		return nil, fmt.Errorf("child: incomplete expectations (%d of %d)", n, G*len(cases))
	}
	return exp, nil
}

func clip(s string) string {
	s = strings.ReplaceAll(s, "\n", " ")
	if len(s) > 90 {
		return s[:90] + "…"
	}
	return s
}

// Run executes the audit. rounds = how often every goroutine walks the case list; maxDur
// bounds the concurrent phase on an overloaded machine (goroutines stop after a complete
// walk once it has elapsed; it never influences a verdict, only the number of calls).
func Run(t *testing.T, G, rounds int, maxDur time.Duration, cases []Case) {
	// one canonical order in every process (case lists are often built from maps)
	cases = append([]Case(nil), cases...)
	sort.SliceStable(cases, func(i, j int) bool { return cases[i].Key < cases[j].Key })
	seen := map[string]bool{}
	for _, c := range cases {
		if seen[c.Key] {
			t.Fatalf("audit bug: duplicate case key %q", c.Key)
		}
		seen[c.Key] = true
	}
	if os.Getenv(childEnv) != "" {
		childMain(G, cases)
		return
	}
	tp := time.Now()
	exp, err := pristine(G, cases)
	phase := func(name string) {
		if os.Getenv("VERIF_RA_TIMING") != "" {
			fmt.Fprintf(os.Stderr, "RA-PHASE %s %.2fs\n", name, time.Since(tp).Seconds())
		}
		tp = time.Now()
	}
	phase("pristine-child")
	if err != nil {
		fmt.Printf("RACEAUDIT-NOTE no pristine-process expectations (%v); comparing with the sequential pass after the concurrent phase only\n", err)
	}
	// phase 2
	type obs struct {
		round, i int
		d        string
	}
	got := make([][]obs, G)
	start := make(chan struct{})
	var wg sync.WaitGroup
	t0 := time.Now()
	for g := 0; g < G; g++ {
		wg.Add(1)
		go func(g int) {
			defer wg.Done()
			mine := make([]obs, 0, rounds*len(cases))
			<-start
			for r := 0; r < rounds; r++ {
				for k := range cases {
					// goroutines walk the list from different starting points after the first
					// round, so different entry points overlap too
					i := k
					if r > 0 {
						i = (k + g*len(cases)/G) % len(cases)
					}
					fn := cases[i].Fn
					mine = append(mine, obs{r, i, Safe(func() string { return fn(g) })})
				}
				if time.Since(t0) > maxDur {
					break
				}
			}
			got[g] = mine
		}(g)
	}
	close(start)
	wg.Wait()
	phase("concurrent")
	// phase 3
	after := runSequential(G, cases)
	phase("after")
	if exp == nil {
		exp = after
	}
	// one mismatch key per (entry point = first segment of the case key, kind): one root cause
	// gives one stable key, the failing case is named in the details
	group := func(k string) string {
		if i := strings.Index(k, "|"); i > 0 {
			return k[:i]
		}
		return k
	}
	bad := map[string]string{}
	calls := 0
	for g := range got {
		for _, o := range got[g] {
			calls++
			want := exp[g][o.i]
			switch {
			case strings.HasPrefix(o.d, OracleFail):
				if _, ok := bad[group(cases[o.i].Key)+"|known-answer"]; !ok {
					bad[group(cases[o.i].Key)+"|known-answer"] = fmt.Sprintf("case=%s goroutine=%d round=%d %s", cases[o.i].Key, g, o.round, clip(o.d))
				}
			case o.d != want:
				if _, ok := bad[group(cases[o.i].Key)+"|concurrent≠sequential"]; !ok {
					bad[group(cases[o.i].Key)+"|concurrent≠sequential"] = fmt.Sprintf("case=%s goroutine=%d round=%d concurrent=%s sequential=%s", cases[o.i].Key, g, o.round, clip(o.d), clip(want))
				}
			}
		}
	}
	for g := range after {
		for i, d := range after[g] {
			if d != exp[g][i] {
				if _, ok := bad[group(cases[i].Key)+"|state-left-behind"]; !ok {
					bad[group(cases[i].Key)+"|state-left-behind"] = fmt.Sprintf("case=%s goroutine-id=%d sequential-after-concurrent-phase=%s pristine=%s", cases[i].Key, g, clip(d), clip(exp[g][i]))
				}
			}
		}
	}
	keys := make([]string, 0, len(bad))
	for k := range bad {
		keys = append(keys, k)
	}
	sort.Strings(keys)
	for _, k := range keys {
		fmt.Printf("RACEAUDIT-MISMATCH key=%s what=%s\n", strings.ReplaceAll(k, " ", "_"), bad[k])
	}
	if len(bad) > 0 {
		t.Fail()
	}
	fmt.Printf("RACEAUDIT-STATS goroutines=%d calls=%d cases=%d\n", G, calls, len(cases))
}
