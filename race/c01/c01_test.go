// Free-running race audit for C01 (not the deciding step; see DESIGN §10.6): the block,
// header and transaction decoders and the observations of the C01 harness (Cbor(), Hash(),
// Id(), cbor.Encode of the decoded object and of its components) run on several goroutines
// at once under the Go race detector. Every goroutine decodes its OWN copy of the bytes of a
// real fixture (or of a re-encoding of it with a non-canonical top-level header) and only
// looks at objects it decoded itself; what is shared is the library's package state (cbor
// mode/type caches, per-era tables). A stored encoding that differs from the wire bytes or
// from what a sequential caller sees is a defect.
package c01

import (
	"bytes"
	"fmt"
	"testing"
	"time"

	rcbor "github.com/blinklabs-io/gouroboros/cbor"
	"github.com/blinklabs-io/gouroboros/ledger"
	"github.com/blinklabs-io/gouroboros/ledger/common"
	"verif/race/ra"
	"verif/space"
)

var skipCfg = common.VerifyConfig{SkipBodyHashValidation: true}

func enc(x any) []byte {
	b, err := rcbor.Encode(x)
	if err != nil {
		return []byte("encode error: " + err.Error())
	}
	return b
}

func own(b []byte) []byte { return append([]byte(nil), b...) }

func observeTx(parts []any, tx common.Transaction) []any {
	h := tx.Hash()
	id := tx.Id()
	parts = append(parts, h.Bytes(), id.Bytes(), tx.Cbor(), enc(tx))
	if aux := tx.AuxiliaryData(); aux != nil {
		parts = append(parts, aux.Cbor())
	}
	if tx.IsValid() {
		for _, o := range tx.Outputs() {
			parts = append(parts, o.Cbor())
		}
	}
	if ws := tx.Witnesses(); ws != nil {
		for _, d := range ws.PlutusData() {
			parts = append(parts, d.Cbor())
		}
		for _, n := range ws.NativeScripts() {
			parts = append(parts, n.Cbor())
		}
	}
	return parts
}

func blockCase(name string, typ uint, wire []byte) ra.Case {
	return ra.Case{Key: "NewBlockFromCbor|" + name, Fn: func(g int) string {
		b := own(wire)
		blk, err := ledger.NewBlockFromCbor(typ, b, skipCfg)
		if err != nil {
			return ra.Err(err)
		}
		if !bytes.Equal(blk.Cbor(), wire) {
			return ra.OracleFail + " Block.Cbor() is not the wire bytes"
		}
		bh := blk.Hash()
		hdr := blk.Header()
		hh := hdr.Hash()
		parts := []any{blk.Cbor(), enc(blk), bh.Bytes(), hdr.Cbor(), enc(hdr), hh.Bytes()}
		txs := blk.Transactions()
		for i, tx := range txs {
			if i >= 3 && i < len(txs)-1 {
				continue
			}
			parts = observeTx(parts, tx)
		}
		return ra.Sum(parts...)
	}}
}

func TestRaceAudit(t *testing.T) {
	var cases []ra.Case
	for _, fx := range space.Blocks(false) {
		fx := fx
		big := len(fx.Cbor) > 9000 // the 18 kB Babbage block: header and first transaction only (the 648 kB EBB is left out entirely: 5 s per decode under -race)
		if !big || fx.Name == "alonzo" || fx.Name == "conway" {
			cases = append(cases, blockCase(fx.Name, fx.Type, fx.Cbor))
		}
		root, err := space.Parse(fx.Cbor)
		if err != nil || root.Major != 4 || len(root.Items) < 2 {
			continue
		}
		if !big {
			// the same block with a non-minimal top-level array header (2-byte length)
			v := root.Clone()
			v.Form = space.Form2
			cases = append(cases, blockCase(fx.Name+"/outer=2B", fx.Type, v.Encode()))
		}
		// stand-alone header
		hb := own(fx.Cbor[root.Items[0].Start:root.Items[0].End])
		cases = append(cases, ra.Case{Key: "NewBlockHeaderFromCbor|" + fx.Name, Fn: func(g int) string {
			hdr, err := ledger.NewBlockHeaderFromCbor(fx.Type, own(hb))
			if err != nil {
				return ra.Err(err)
			}
			if !bytes.Equal(hdr.Cbor(), hb) {
				return ra.OracleFail + " BlockHeader.Cbor() is not the wire bytes"
			}
			h := hdr.Hash()
			return ra.Sum(hdr.Cbor(), enc(hdr), h.Bytes(), hdr.SlotNumber(), hdr.BlockNumber())
		}})
		// stand-alone first transaction (Shelley..Conway: [body, wits, (is_valid,) aux/null])
		if fx.Type >= 2 && fx.Type <= 7 && len(root.Items) >= 4 && len(root.Items[1].Items) > 0 && len(root.Items[2].Items) > 0 {
			aux := space.Null()
			if m := root.Items[3].MapGetUint(0); m != nil {
				aux = m
			}
			var txn *space.Node
			if fx.Type >= 5 {
				txn = space.A(root.Items[1].Items[0], root.Items[2].Items[0], space.Bool(true), aux)
			} else {
				txn = space.A(root.Items[1].Items[0], root.Items[2].Items[0], aux)
			}
			tb := txn.Encode()
			cases = append(cases, ra.Case{Key: "NewTransactionFromCbor|" + fx.Name + "#0", Fn: func(g int) string {
				tx, err := ledger.NewTransactionFromCbor(fx.Type-1, own(tb))
				if err != nil {
					return ra.Err(err)
				}
				if !bytes.Equal(tx.Cbor(), tb) {
					return ra.OracleFail + " Transaction.Cbor() is not the wire bytes"
				}
				return ra.Sum(observeTx(nil, tx)...)
			}})
		}
	}
	if len(cases) == 0 {
		fmt.Println("RACEAUDIT-NOTE no fixtures")
	}
	ra.Run(t, 4, 3, 6*time.Second, cases)
}
