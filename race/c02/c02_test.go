// Free-running race audit for C02 (not the deciding step; see DESIGN §10.6): a
// representative slice of the C02 decoder table (ledger block/header/transaction/body/
// output constructors, offset extraction, era detection, auxiliary data, addresses, generic
// CBOR values, the stream decoder and the diagnostics) runs on several goroutines at once
// under the Go race detector, on a valid encoding and on a few damaged ones (truncated,
// inflated length claim, changed leading byte). Each goroutine decodes its own copy of the
// bytes. A decoder is total and deterministic: the outcome (accepted / error text / panic)
// must be the one a sequential caller gets.
package c02

import (
	"fmt"
	"testing"
	"time"

	"github.com/blinklabs-io/gouroboros/cbor"
	"github.com/blinklabs-io/gouroboros/ledger"
	lcommon "github.com/blinklabs-io/gouroboros/ledger/common"
	"github.com/blinklabs-io/gouroboros/protocol"
	"github.com/blinklabs-io/gouroboros/protocol/blockfetch"
	"github.com/blinklabs-io/gouroboros/protocol/chainsync"
	pcommon "github.com/blinklabs-io/gouroboros/protocol/common"
	"github.com/blinklabs-io/gouroboros/protocol/handshake"
	"github.com/blinklabs-io/gouroboros/protocol/localstatequery"
	"github.com/blinklabs-io/gouroboros/protocol/txsubmission"
	"verif/race/ra"
	"verif/space"
)

var (
	A, U, B, T, M, Tag = space.A, space.U, space.B, space.T, space.M, space.Tag
)

func own(b []byte) []byte { return append([]byte(nil), b...) }

func pat(n int, start byte) []byte {
	o := make([]byte, n)
	for i := range o {
		o[i] = start + byte(i)
	}
	return o
}

type dec struct {
	name  string
	fn    func([]byte) (any, error)
	seeds [][]byte
}

func d[Tp any](name string, seeds ...[]byte) dec {
	return dec{name: name, seeds: seeds, fn: func(b []byte) (any, error) {
		var v Tp
		_, err := cbor.Decode(b, &v)
		return nil, err
	}}
}

// damaged forms of one seed (the structure-aware families of the harness, one
// representative each)
func variants(s []byte) map[string][]byte {
	out := map[string][]byte{"valid": s}
	if len(s) >= 2 {
		out["trunc-half"] = s[:len(s)/2]
		out["trunc-1"] = s[:len(s)-1]
		f := own(s)
		f[0] ^= 0x20 // another major type with the same argument
		out["lead-major"] = f
		g := own(s)
		g[len(g)/2] ^= 0x01
		out["flip-mid"] = g
	}
	if len(s) >= 1 && s[0]&0x1f < 24 && s[0]>>5 >= 2 && s[0]>>5 <= 5 {
		// the leading container/string claims 2^32-1 elements
		out["claim-huge"] = append([]byte{s[0]&0xe0 | 26, 0xff, 0xff, 0xff, 0xff}, s[1:]...)
	}
	return out
}

var diagOpts = cbor.DiagnosticOptions{ShowOffsets: true, ShowHex: true, CardanoAware: true}

func TestRaceAudit(t *testing.T) {
	hash28, hash32 := pat(28, 0x10), pat(32, 0x20)
	point := func() *space.Node { return A(U(1234567), B(hash32)) }
	tip := func() *space.Node { return A(point(), U(4242)) }
	var ds []dec
	var smallBlocks, txs, outs, auxs [][]byte
	for _, fx := range space.Blocks(false) {
		fx := fx
		if len(fx.Cbor) > 9000 { // the 18 kB Babbage block is left out (cost under -race)
			continue
		}
		root, err := space.Parse(fx.Cbor)
		if err != nil || root.Major != 4 || len(root.Items) < 2 {
			continue
		}
		blk := fx.Cbor
		if len(blk) <= 1100 {
			smallBlocks = append(smallBlocks, blk)
		}
		ds = append(ds, dec{"ledger.NewBlockFromCbor:" + fx.Name, func(b []byte) (any, error) { return ledger.NewBlockFromCbor(fx.Type, b) }, [][]byte{blk}})
		ds = append(ds, dec{"ledger.NewBlockFromCborWithOffsets:" + fx.Name, func(b []byte) (any, error) {
			r, err := ledger.NewBlockFromCborWithOffsets(fx.Type, b, lcommon.VerifyConfig{SkipBodyHashValidation: true})
			if err != nil || r == nil {
				return nil, err
			}
			return nil, nil
		}, [][]byte{blk}})
		hb := own(blk[root.Items[0].Start:root.Items[0].End])
		ds = append(ds, dec{"ledger.NewBlockHeaderFromCbor:" + fx.Name, func(b []byte) (any, error) { return ledger.NewBlockHeaderFromCbor(fx.Type, b) }, [][]byte{hb}})
		if fx.Type >= 2 {
			ds = append(ds, dec{"ledger.DetermineBlockType:" + fx.Name, func(b []byte) (any, error) { bt, err := ledger.DetermineBlockType(b); return fmt.Sprint(bt), err }, [][]byte{hb}})
		}
		if fx.Type >= 2 && fx.Type <= 7 && len(root.Items) >= 4 && len(root.Items[1].Items) > 0 && len(root.Items[2].Items) > 0 {
			aux := space.Null()
			if m := root.Items[3].MapGetUint(0); m != nil {
				aux = m
				auxs = append(auxs, own(blk[m.Start:m.End]))
			}
			body := root.Items[1].Items[0]
			var txn *space.Node
			if fx.Type >= 5 {
				txn = A(body, root.Items[2].Items[0], space.Bool(true), aux)
			} else {
				txn = A(body, root.Items[2].Items[0], aux)
			}
			tb, bb := txn.Encode(), own(blk[body.Start:body.End])
			txs = append(txs, tb)
			ds = append(ds, dec{"ledger.NewTransactionFromCbor:" + fx.Name, func(b []byte) (any, error) { return ledger.NewTransactionFromCbor(fx.Type-1, b) }, [][]byte{tb}})
			ds = append(ds, dec{"ledger.NewTransactionBodyFromCbor:" + fx.Name, func(b []byte) (any, error) { return ledger.NewTransactionBodyFromCbor(fx.Type-1, b) }, [][]byte{bb}})
			if o := body.MapGetUint(1); o != nil && len(o.Items) > 0 {
				outs = append(outs, own(blk[o.Items[0].Start:o.Items[0].End]))
			}
		}
	}
	ds = append(ds,
		dec{"ledger.NewTransactionOutputFromCbor", func(b []byte) (any, error) { return ledger.NewTransactionOutputFromCbor(b) }, outs},
		dec{"ledger.ExtractTransactionOffsets", func(b []byte) (any, error) { _, err := ledger.ExtractTransactionOffsets(b); return nil, err }, smallBlocks},
		dec{"ledger.DetermineTransactionType", func(b []byte) (any, error) { tt, err := ledger.DetermineTransactionType(b); return fmt.Sprint(tt), err }, txs[:min(3, len(txs))]},
		dec{"lcommon.BlockBodySizeFromCbor", func(b []byte) (any, error) { n, err := lcommon.BlockBodySizeFromCbor(b); return fmt.Sprint(n), err }, smallBlocks},
	)
	meta := M(U(674), M(T("msg"), A(T("hello"), T("world")), T("n"), space.NInt(-5), T("b"), B([]byte{1, 2})), U(1), A(U(1), M(T("k"), T("v")))).Encode()
	auxSeeds := append([][]byte{M(U(1), T("x")).Encode(), Tag(259, M(U(0), M(U(1), T("x")), U(1), A())).Encode()}, auxs...)
	ds = append(ds,
		dec{"lcommon.DecodeMetadatumRaw", func(b []byte) (any, error) { _, err := lcommon.DecodeMetadatumRaw(b); return nil, err }, [][]byte{meta}},
		dec{"lcommon.DecodeAuxiliaryData", func(b []byte) (any, error) { _, err := lcommon.DecodeAuxiliaryData(b); return nil, err }, auxSeeds},
		dec{"lcommon.DecodeAuxiliaryDataToMetadata", func(b []byte) (any, error) {
			_, err := lcommon.DecodeAuxiliaryDataToMetadata(b)
			return nil, err
		}, auxSeeds},
	)
	errSeeds := [][]byte{
		A(A(U(1), T("Shelley")), A(U(6), T("Conway"))).Encode(),
		A(A(U(6), A(A(U(0), A(U(0), A(U(6), A(U(0), A(A(B(hash32), U(1)))))))))).Encode(),
		A(U(2), A(T("anything"), M(U(1), U(2)))).Encode(),
	}
	ds = append(ds,
		dec{"ledger.NewGenericErrorFromCbor", func(b []byte) (any, error) { e, err := ledger.NewGenericErrorFromCbor(b); return fmt.Sprint(e), err }, errSeeds},
		dec{"ledger.NewTxSubmitErrorFromCbor", func(b []byte) (any, error) { e, err := ledger.NewTxSubmitErrorFromCbor(b); return fmt.Sprint(e), err }, errSeeds},
	)
	addrB := [][]byte{
		append([]byte{0x01}, append(own(hash28), pat(28, 0x40)...)...),
		append([]byte{0x41}, append(own(hash28), 0x81, 0x80, 0x01, 0x02, 0x03)...),
		append([]byte{0x61}, hash28...),
		append([]byte{0xe1}, hash28...),
	}
	var addrC [][]byte
	for _, a := range addrB {
		addrC = append(addrC, B(a).Encode())
	}
	ds = append(ds,
		dec{"lcommon.NewAddressFromBytes", func(b []byte) (any, error) {
			a, err := lcommon.NewAddressFromBytes(b)
			if err != nil {
				return nil, err
			}
			return a.String(), nil
		}, addrB},
		d[lcommon.Address]("cbor.Decode(*lcommon.Address)", addrC...),
	)
	// protocol messages (the C04 audit covers the codecs in depth; here: totality on damage)
	ntnVD := A(U(764824073), space.Bool(true), U(1), space.Bool(false))
	for _, p := range []struct {
		name string
		fn   func(uint, []byte) (protocol.Message, error)
		msgs map[uint]*space.Node
	}{
		{"chainsync", func(t uint, b []byte) (protocol.Message, error) {
			return chainsync.NewMsgFromCbor(protocol.ProtocolModeNodeToNode, t, b)
		}, map[uint]*space.Node{0: A(U(0)), 3: A(U(3), point(), tip()), 4: A(U(4), A(point(), A(), point())), 5: A(U(5), point(), tip())}},
		{"blockfetch", blockfetch.NewMsgFromCbor, map[uint]*space.Node{0: A(U(0), point(), point()), 2: A(U(2))}},
		{"handshake", handshake.NewMsgFromCbor, map[uint]*space.Node{0: A(U(0), M(U(13), ntnVD, U(14), ntnVD)), 1: A(U(1), U(13), ntnVD), 2: A(U(2), A(U(0), A(U(13), U(14))))}},
		{"txsubmission", txsubmission.NewMsgFromCbor, map[uint]*space.Node{0: A(U(0), space.Bool(true), U(2), U(3)), 1: A(U(1), space.AIndef(A(A(U(6), B(hash32)), U(100)))), 6: A(U(6))}},
		{"localstatequery", localstatequery.NewMsgFromCbor, map[uint]*space.Node{0: A(U(0), point()), 8: A(U(8)), 3: A(U(3), A(U(0), A(U(0), A(U(6), A(U(1))))))}},
	} {
		p := p
		for typ, n := range p.msgs {
			typ := typ
			ds = append(ds, dec{fmt.Sprintf("%s.NewMsgFromCbor:%d", p.name, typ), func(b []byte) (any, error) {
				m, err := p.fn(typ, b)
				if err != nil || m == nil {
					return nil, err
				}
				return fmt.Sprint(m.Type()), nil
			}, [][]byte{n.Encode()}})
		}
	}
	ds = append(ds,
		d[pcommon.Point]("cbor.Decode(*pcommon.Point)", point().Encode(), A().Encode()),
		d[pcommon.Tip]("cbor.Decode(*pcommon.Tip)", tip().Encode()),
		d[chainsync.WrappedHeader]("cbor.Decode(*chainsync.WrappedHeader)", A(U(1), Tag(24, B([]byte{0x82, 0x01, 0x02}))).Encode()),
		dec{"protocol.NewVersionDataNtN13andUpFromCbor", func(b []byte) (any, error) {
			v, err := protocol.NewVersionDataNtN13andUpFromCbor(b)
			return fmt.Sprint(v), err
		}, [][]byte{ntnVD.Encode()}},
	)
	// generic cbor + diagnostics
	rich := A(U(1), space.NInt(-70000), B([]byte{1, 2, 3}), T("text"), M(U(1), A(U(2)), T("k"), Tag(121, space.AIndef(U(1), B([]byte{9})))),
		Tag(2, B(pat(9, 1))), Tag(30, A(U(1), U(3))), Tag(258, A(U(1), U(2))), space.Bool(true), space.Null(), space.F64(1.5)).Encode()
	generic := [][]byte{rich}
	if len(txs) > 0 {
		generic = append(generic, txs[len(txs)-1])
	}
	ds = append(ds,
		d[cbor.Value]("cbor.Decode(*cbor.Value)", generic...),
		d[any]("cbor.Decode(*any)", generic...),
		d[cbor.RawMessage]("cbor.Decode(*cbor.RawMessage)", rich),
		d[cbor.ConstructorDecoder]("cbor.Decode(*cbor.ConstructorDecoder)", Tag(121, A(U(1), B([]byte{7}))).Encode(), Tag(101, A(U(200), A(U(1)))).Encode()),
		d[cbor.Rat]("cbor.Decode(*cbor.Rat)", Tag(30, A(U(1), U(3))).Encode()),
		d[cbor.Set]("cbor.Decode(*cbor.Set)", Tag(258, A(U(1), U(2))).Encode()),
		d[cbor.Map]("cbor.Decode(*cbor.Map)", Tag(259, M(U(1), U(2), T("a"), A(U(3)))).Encode()),
		dec{"cbor.Decode(*cbor.LazyValue)+Decode", func(b []byte) (any, error) {
			var v cbor.LazyValue
			if _, err := cbor.Decode(b, &v); err != nil {
				return nil, err
			}
			_, err := v.Decode()
			return nil, err
		}, generic},
		dec{"cbor.DecodeStrict(*any)", func(b []byte) (any, error) { var v any; _, err := cbor.DecodeStrict(b, &v); return nil, err }, generic},
		dec{"cbor.DecodeLenient(*any)", func(b []byte) (any, error) { var v any; _, err := cbor.DecodeLenient(b, &v); return nil, err }, generic},
		dec{"cbor.DecodeIdFromList", func(b []byte) (any, error) { id, err := cbor.DecodeIdFromList(b); return fmt.Sprint(id), err }, [][]byte{A(U(3), T("x")).Encode(), A(U(300), T("x")).Encode()}},
		dec{"cbor.ListLength", func(b []byte) (any, error) { n, err := cbor.ListLength(b); return fmt.Sprint(n), err }, [][]byte{A(U(3), T("x")).Encode(), rich}},
		dec{"cbor.DecodeGeneric", func(b []byte) (any, error) { var t pcommon.Tip; return nil, cbor.DecodeGeneric(b, &t) }, [][]byte{tip().Encode()}},
		dec{"cbor.ParseDiagnostic+Format", func(b []byte) (any, error) {
			n, err := cbor.ParseDiagnostic(b)
			if err != nil {
				return nil, err
			}
			return n.FormatDiagnostic(diagOpts) + n.FormatDiagnosticPretty(diagOpts) + n.FormatHexDump(diagOpts), nil
		}, generic},
		dec{"cbor.Diagnose", func(b []byte) (any, error) { return cbor.Diagnose(b, diagOpts) }, [][]byte{rich}},
		dec{"cbor.DiagnoseTransaction", func(b []byte) (any, error) { return cbor.DiagnoseTransaction(b, diagOpts) }, generic[len(generic)-1:]},
		dec{"cbor.DiagnoseBlock", func(b []byte) (any, error) { return cbor.DiagnoseBlock(b, diagOpts) }, smallBlocks},
		dec{"cbor.FormatNativeScript", func(b []byte) (any, error) { return cbor.FormatNativeScript(b, diagOpts) },
			[][]byte{A(U(1), A(A(U(0), B(hash28)), A(U(3), U(1), A(A(U(4), U(100)), A(U(5), U(200)))))).Encode()}},
		dec{"cbor.FormatPlutusData", func(b []byte) (any, error) { return cbor.FormatPlutusData(b, diagOpts) },
			[][]byte{Tag(121, space.AIndef(U(1), B([]byte{1, 2}), M(U(1), Tag(122, A())), Tag(2, B(pat(9, 1))))).Encode()}},
		dec{"cbor.StreamDecoder", func(b []byte) (any, error) {
			sd, err := cbor.NewStreamDecoder(b)
			if err != nil {
				return nil, err
			}
			n, _, _, err := sd.DecodeArrayHeader()
			if err != nil {
				return nil, err
			}
			_, _, err = sd.SkipN(n)
			return fmt.Sprint(n, sd.EOF()), err
		}, [][]byte{rich}},
	)
	var cases []ra.Case
	for _, dc := range ds {
		dc := dc
		for si, s := range dc.seeds {
			for vn, vb := range variants(s) {
				vb := vb
				cases = append(cases, ra.Case{Key: fmt.Sprintf("%s|seed%d/%s", dc.name, si, vn), Fn: func(g int) string {
					v, err := dc.fn(own(vb))
					if err != nil {
						return ra.Err(err)
					}
					switch x := v.(type) {
					case string:
						return ra.Sum("ok", x)
					case interface{ Cbor() []byte }:
						return ra.Sum("ok", x.Cbor())
					}
					return "ok"
				}})
			}
		}
	}
	// stable case order (variants() is a map)
	sortCases(cases)
	ra.Run(t, 4, 2, 6*time.Second, cases)
}

func sortCases(cs []ra.Case) {
	for i := 1; i < len(cs); i++ {
		for j := i; j > 0 && cs[j].Key < cs[j-1].Key; j-- {
			cs[j], cs[j-1] = cs[j-1], cs[j]
		}
	}
}
