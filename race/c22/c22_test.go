// Free-running race audit for C22 (not the deciding step; see DESIGN §10.6): the
// server-side wrapping and client-side unwrapping of the C22 harness
// (NewMsgRollForwardNtC/NtN -> cbor.Encode -> NewMsgFromCbor -> BlockType/BlockCbor resp.
// WrappedHeader.Era/HeaderCbor -> era maps -> NewBlockFromCbor / NewBlockHeaderFromCbor)
// run on several goroutines at once under the Go race detector for the real block of every
// era and a re-encoding with a non-minimal block header item, x two tips. Every goroutine
// wraps its own copy of the bytes and its own tip. NtC: same type and byte-identical block;
// NtN (Shelley and later): era maps back, header bytes are the block's header item, header
// hash = blake2b-256 of them; all of it equal to what a sequential caller gets.
package c22

import (
	"bytes"
	"fmt"
	"testing"
	"time"

	"golang.org/x/crypto/blake2b"

	"github.com/blinklabs-io/gouroboros/cbor"
	"github.com/blinklabs-io/gouroboros/ledger"
	"github.com/blinklabs-io/gouroboros/ledger/common"
	"github.com/blinklabs-io/gouroboros/protocol"
	"github.com/blinklabs-io/gouroboros/protocol/chainsync"
	pcommon "github.com/blinklabs-io/gouroboros/protocol/common"
	"verif/race/ra"
	"verif/space"
)

var skipCfg = common.VerifyConfig{SkipBodyHashValidation: true}

func tip(kind, g int) chainsync.Tip {
	if kind == 0 {
		return chainsync.Tip{Point: pcommon.NewPointOrigin(), BlockNumber: 0}
	}
	h := make([]byte, 32)
	for i := range h {
		h[i] = byte(i*13 + g)
	}
	return chainsync.Tip{Point: pcommon.NewPoint(72316896, h), BlockNumber: 7791698}
}

func TestRaceAudit(t *testing.T) {
	var cases []ra.Case
	for _, fx := range space.Blocks(false) {
		fx := fx
		if len(fx.Cbor) > 9000 {
			continue
		}
		root, err := space.Parse(fx.Cbor)
		if err != nil || root.Major != 4 || len(root.Items) < 2 {
			continue
		}
		type variant struct {
			name      string
			wire, hdr []byte
		}
		vs := []variant{{"original", fx.Cbor, fx.Cbor[root.Items[0].Start:root.Items[0].End]}}
		if v := root.Clone(); v.Items[0].Major == 4 {
			v.Items[0].Form = space.Form2 // header array with a 2-byte length
			w := v.Encode()
			if r2, err := space.Parse(w); err == nil {
				vs = append(vs, variant{"header=2B", w, w[r2.Items[0].Start:r2.Items[0].End]})
			}
		}
		for _, v := range vs {
			for tk := 0; tk < 2; tk++ {
				v, tk := v, tk
				cases = append(cases, ra.Case{Key: fmt.Sprintf("NtC|%s|%s|tip=%d", fx.Name, v.name, tk), PerG: true, Fn: func(g int) string {
					served := append([]byte(nil), v.wire...)
					msg, err := chainsync.NewMsgRollForwardNtC(fx.Type, served, tip(tk, g))
					if err != nil {
						return ra.Sum("constructor", err)
					}
					wire, err := cbor.Encode(msg)
					if err != nil {
						return ra.Sum("encode", err)
					}
					m, err := chainsync.NewMsgFromCbor(protocol.ProtocolModeNodeToClient, chainsync.MessageTypeRollForward, wire)
					if err != nil {
						return ra.OracleFail + " client cannot decode the served message: " + err.Error()
					}
					got, ok := m.(*chainsync.MsgRollForwardNtC)
					if !ok {
						return ra.OracleFail + fmt.Sprintf(" decoded message has type %T", m)
					}
					if got.BlockType() != fx.Type || !bytes.Equal(got.BlockCbor(), v.wire) {
						return ra.OracleFail + fmt.Sprintf(" served type %d / %d bytes, arrived type %d / %d bytes (identical=%v)", fx.Type, len(v.wire), got.BlockType(), len(got.BlockCbor()), bytes.Equal(got.BlockCbor(), v.wire))
					}
					blk, derr := ledger.NewBlockFromCbor(got.BlockType(), got.BlockCbor(), skipCfg)
					parts := []any{wire, ra.Err(derr)}
					if derr == nil {
						h := blk.Hash()
						parts = append(parts, blk.Type(), h.Bytes(), blk.Cbor())
					}
					return ra.Sum(parts...)
				}})
				if fx.Type < 2 {
					continue // Byron over NtN is outside the property
				}
				cases = append(cases, ra.Case{Key: fmt.Sprintf("NtN|%s|%s|tip=%d", fx.Name, v.name, tk), PerG: true, Fn: func(g int) string {
					served := append([]byte(nil), v.wire...)
					era, ok := ledger.BlockToBlockHeaderTypeMap[fx.Type]
					if !ok {
						return ra.OracleFail + " no era for the block type"
					}
					msg, err := chainsync.NewMsgRollForwardNtN(era, 0, served, tip(tk, g))
					if err != nil {
						return ra.Sum("constructor", err)
					}
					wire, err := cbor.Encode(msg)
					if err != nil {
						return ra.Sum("encode", err)
					}
					m, err := chainsync.NewMsgFromCbor(protocol.ProtocolModeNodeToNode, chainsync.MessageTypeRollForward, wire)
					if err != nil {
						return ra.OracleFail + " client cannot decode the served message: " + err.Error()
					}
					got, ok := m.(*chainsync.MsgRollForwardNtN)
					if !ok {
						return ra.OracleFail + fmt.Sprintf(" decoded message has type %T", m)
					}
					back, ok := ledger.BlockHeaderToBlockTypeMap[got.WrappedHeader.Era]
					if !ok || back != fx.Type {
						return ra.OracleFail + fmt.Sprintf(" era %d maps back to block type %d, served %d", got.WrappedHeader.Era, back, fx.Type)
					}
					gh := got.WrappedHeader.HeaderCbor()
					if !bytes.Equal(gh, v.hdr) {
						return ra.OracleFail + " arrived header bytes are not the header item of the served block"
					}
					hdr, herr := ledger.NewBlockHeaderFromCbor(back, gh)
					parts := []any{wire, ra.Err(herr)}
					if herr == nil {
						want := blake2b.Sum256(v.hdr)
						hh := hdr.Hash()
						if !bytes.Equal(hh.Bytes(), want[:]) {
							return ra.OracleFail + " arrived header hash is not blake2b-256 of the served header bytes"
						}
						parts = append(parts, hh.Bytes(), hdr.SlotNumber(), hdr.BlockNumber())
					}
					return ra.Sum(parts...)
				}})
			}
		}
	}
	ra.Run(t, 4, 2, 6*time.Second, cases)
}
