// Free-running race audit for C34 (not the deciding step; see DESIGN §10.6): the decode-time
// body check of the C34 harness (ledger.NewBlockFromCbor with validation on, and with
// SkipBodyHashValidation) runs on several goroutines at once under the Go race detector on
// the real block of every era and on single-byte substitutions spread over everything after
// the header. Every goroutine decodes its own copy of the bytes. Every real block must
// decode with validation on; a Shelley-or-later block whose bytes after the header changed
// (all of them are committed to by the header) must not; and every outcome must be a
// sequential caller's.
package c34

import (
	"fmt"
	"testing"
	"time"

	"github.com/blinklabs-io/gouroboros/ledger"
	"github.com/blinklabs-io/gouroboros/ledger/common"
	"verif/race/ra"
	"verif/space"
)

func decode(typ uint, m []byte, skip bool) (bool, string) {
	var err error
	if skip {
		_, err = ledger.NewBlockFromCbor(typ, m, common.VerifyConfig{SkipBodyHashValidation: true})
	} else {
		_, err = ledger.NewBlockFromCbor(typ, m)
	}
	return err == nil, ra.Err(err)
}

func TestRaceAudit(t *testing.T) {
	var cases []ra.Case
	for _, fx := range space.Blocks(false) {
		fx := fx
		if len(fx.Cbor) > 9000 {
			continue
		}
		root, err := space.Parse(fx.Cbor)
		if err != nil || root.Major != 4 || len(root.Items) < 2 {
			continue
		}
		cases = append(cases, ra.Case{Key: "NewBlockFromCbor|" + fx.Name + "|original", Fn: func(g int) string {
			b := append([]byte(nil), fx.Cbor...)
			ok, e := decode(fx.Type, b, false)
			if !ok {
				return ra.OracleFail + " real block rejected with body validation on: " + e
			}
			ok2, e2 := decode(fx.Type, append([]byte(nil), fx.Cbor...), true)
			return ra.Sum(ok, e, ok2, e2)
		}})
		from, to := root.Items[0].End, len(fx.Cbor)
		n := 6
		for k := 0; k < n; k++ {
			off := from + (to-from-1)*k/(n-1)
			cases = append(cases, ra.Case{Key: fmt.Sprintf("NewBlockFromCbor|%s|sub@%d/%d", fx.Name, k, n-1), Fn: func(g int) string {
				m := append([]byte(nil), fx.Cbor...)
				m[off] ^= 0x01
				okV, eV := decode(fx.Type, m, false)
				m2 := append([]byte(nil), fx.Cbor...)
				m2[off] ^= 0x01
				okS, eS := decode(fx.Type, m2, true)
				if fx.Type >= 2 && okV && okS {
					return ra.OracleFail + fmt.Sprintf(" byte %d after the header changed, block still decodes with body validation on", off)
				}
				return ra.Sum(okV, eV, okS, eS)
			}})
		}
	}
	ra.Run(t, 4, 2, 6*time.Second, cases)
}
