// Free-running race audit for C38 (not the deciding step; see DESIGN §10.6): the VRF entry
// points of the C38 harness (vrf.KeyGen, Prove, VerifyAndHash, Verify, ProofToHash,
// MkInputVrf) run on several goroutines at once under the Go race detector for several key
// seeds x messages {empty, 1 B, 32 B, 200 B} and single-bit flips of proof, key, message
// and expected output, a non-canonical response scalar (s+L) and a small-order public key.
// Every goroutine derives its own seeds, keys, proofs and messages. The untouched triple
// verifies and yields the output Prove returned, every changed one fails (the property's
// truth table), proving is deterministic; and every outcome must be a sequential caller's.
package c38

import (
	"bytes"
	"fmt"
	"math/big"
	"testing"
	"time"

	"golang.org/x/crypto/blake2b"

	"github.com/blinklabs-io/gouroboros/vrf"
	"verif/race/ra"
)

func derive(tag string, g, i, n int) []byte {
	var out []byte
	for ctr := 0; len(out) < n; ctr++ {
		s := blake2b.Sum256([]byte(fmt.Sprintf("verif-C38-race|%s|%d|%d|%d", tag, g, i, ctr)))
		out = append(out, s[:]...)
	}
	return out[:n]
}

func flip(b []byte, bit int) []byte {
	o := append([]byte(nil), b...)
	o[bit/8] ^= 1 << (bit % 8)
	return o
}

func TestRaceAudit(t *testing.T) {
	ordL := func() *big.Int {
		l, _ := new(big.Int).SetString("27742317777372353535851937790883648493", 10)
		return l.Add(l, new(big.Int).Lsh(big.NewInt(1), 252))
	}()
	var cases []ra.Case
	for ki := 0; ki < 3; ki++ {
		for mi, ml := range []int{0, 1, 32, 200} {
			ki, mi, ml := ki, mi, ml
			cases = append(cases, ra.Case{Key: fmt.Sprintf("vrf|key=%d|msg=%dB", ki, ml), PerG: true, Fn: func(g int) string {
				seed := derive("seed", g, ki, 32)
				pk, sk, err := vrf.KeyGen(append([]byte(nil), seed...))
				if err != nil {
					return ra.Sum("keygen", err)
				}
				msg := derive("msg", g, ki*10+mi, ml)
				proof, out, err := vrf.Prove(append([]byte(nil), sk...), append([]byte(nil), msg...))
				if err != nil {
					return ra.OracleFail + " Prove: " + err.Error()
				}
				proof2, out2, _ := vrf.Prove(append([]byte(nil), sk...), append([]byte(nil), msg...))
				if !bytes.Equal(proof, proof2) || !bytes.Equal(out, out2) {
					return ra.OracleFail + " proving the same message twice gives different results"
				}
				got, err := vrf.VerifyAndHash(pk, proof, msg)
				if err != nil || !bytes.Equal(got, out) {
					return ra.OracleFail + fmt.Sprintf(" genuine triple: VerifyAndHash = %x, %v; Prove returned %x", got, err, out)
				}
				if ok, err := vrf.Verify(pk, proof, out, msg); err != nil || !ok {
					return ra.OracleFail + fmt.Sprintf(" genuine triple: Verify = %v, %v", ok, err)
				}
				if h, err := vrf.ProofToHash(proof); err != nil || !bytes.Equal(h, out) {
					return ra.OracleFail + " ProofToHash differs from the output of Prove"
				}
				parts := []any{pk, proof, out}
				reject := func(what string, pk, proof, msg []byte) string {
					o, err := vrf.VerifyAndHash(pk, proof, msg)
					if err == nil {
						return ra.OracleFail + fmt.Sprintf(" %s: verification succeeded (output %x)", what, o)
					}
					parts = append(parts, what, err)
					return ""
				}
				for _, bit := range []int{0, 7, 255, 256, 300, 384, 400, 639} { // gamma, c, s regions
					if r := reject(fmt.Sprintf("proof bit %d", bit), pk, flip(proof, bit), msg); r != "" {
						return r
					}
				}
				for _, bit := range []int{0, 100, 254, 255} {
					if r := reject(fmt.Sprintf("key bit %d", bit), flip(pk, bit), proof, msg); r != "" {
						return r
					}
				}
				if ml > 0 {
					if r := reject("message bit 0", pk, proof, flip(msg, 0)); r != "" {
						return r
					}
					if r := reject("message truncated", pk, proof, msg[:ml-1]); r != "" {
						return r
					}
				}
				if r := reject("message extended", pk, proof, append(append([]byte(nil), msg...), 0)); r != "" {
					return r
				}
				if ok, err := vrf.Verify(pk, proof, flip(out, 3), msg); ok {
					return ra.OracleFail + fmt.Sprintf(" Verify accepts a changed expected output (%v)", err)
				}
				// non-canonical response scalar: s + L (little endian, bytes 48..79), when it fits
				s := new(big.Int)
				le := append([]byte(nil), proof[48:80]...)
				for i, j := 0, len(le)-1; i < j; i, j = i+1, j-1 {
					le[i], le[j] = le[j], le[i]
				}
				s.SetBytes(le).Add(s, ordL)
				if s.BitLen() <= 256 {
					sb := s.FillBytes(make([]byte, 32))
					for i, j := 0, 31; i < j; i, j = i+1, j-1 {
						sb[i], sb[j] = sb[j], sb[i]
					}
					np := append(append([]byte(nil), proof[:48]...), sb...)
					if r := reject("s+L", pk, np, msg); r != "" {
						return r
					}
				}
				// small-order public key (the identity point) with the genuine proof
				ident := make([]byte, 32)
				ident[0] = 1
				if r := reject("small-order key", ident, proof, msg); r != "" {
					return r
				}
				in, ierr := vrf.MkInputVrf(int64(1000+ki), derive("eta", g, ki, 32))
				parts = append(parts, in, ra.Err(ierr))
				return ra.Sum(parts...)
			}})
		}
	}
	ra.Run(t, 4, 2, 6*time.Second, cases)
}
