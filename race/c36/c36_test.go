// Free-running race audit for C36 (not the deciding step; see DESIGN §10.6): the three
// spaces of the C36 harness run on several goroutines at once under the Go race detector:
// (A) ledger.DetermineBlockType on Shelley-family headers built with the harness's CBOR
// writer for protocol majors 0..16 in both header layouts, (B) the two header-era / block-
// type maps, (C) every fixture block x block type id 0..9 x NewBlockFromCbor /
// NewBlockHeaderFromCbor. Every goroutine builds its own header bytes and decodes its own
// copies; the maps and era tables are the library's package state. A classified major lies
// in the declared range of that era, a native-layout header with a declared major is
// classified as its era, the maps are inverse, whatever decodes as type T reports T and T's
// era; and every outcome must be a sequential caller's.
package c36

import (
	"fmt"
	"sort"
	"testing"
	"time"

	"github.com/blinklabs-io/gouroboros/ledger"
	"github.com/blinklabs-io/gouroboros/ledger/allegra"
	"github.com/blinklabs-io/gouroboros/ledger/alonzo"
	"github.com/blinklabs-io/gouroboros/ledger/babbage"
	"github.com/blinklabs-io/gouroboros/ledger/common"
	"github.com/blinklabs-io/gouroboros/ledger/conway"
	"github.com/blinklabs-io/gouroboros/ledger/dijkstra"
	"github.com/blinklabs-io/gouroboros/ledger/mary"
	"github.com/blinklabs-io/gouroboros/ledger/shelley"
	"verif/race/ra"
	"verif/space"
)

type eraRef struct {
	name      string
	eraId     uint8
	blockType uint
	layout    int
	min, max  uint64
}

var eras = []eraRef{
	{"Shelley", 1, 2, 15, shelley.MinProtocolVersionShelley, shelley.MaxProtocolVersionShelley},
	{"Allegra", 2, 3, 15, allegra.MinProtocolVersionAllegra, allegra.MaxProtocolVersionAllegra},
	{"Mary", 3, 4, 15, mary.MinProtocolVersionMary, mary.MaxProtocolVersionMary},
	{"Alonzo", 4, 5, 15, alonzo.MinProtocolVersionAlonzo, alonzo.MaxProtocolVersionAlonzo},
	{"Babbage", 5, 6, 10, babbage.MinProtocolVersionBabbage, babbage.MaxProtocolVersionBabbage},
	{"Conway", 6, 7, 10, conway.MinProtocolVersionConway, conway.MaxProtocolVersionConway},
	{"Dijkstra", 7, 8, 10, dijkstra.MinProtocolVersionDijkstra, dijkstra.MaxProtocolVersionDijkstra},
}

func eraOfType(t uint) (uint8, bool) {
	if t == 0 || t == 1 {
		return 0, true
	}
	for _, e := range eras {
		if e.blockType == t {
			return e.eraId, true
		}
	}
	return 0, false
}

func seedBytes(n int, salt byte, g int) []byte {
	b := make([]byte, n)
	for i := range b {
		b[i] = byte(i*7+int(salt)*31+g) ^ salt
	}
	return b
}

func buildHeader(layout int, p, minor uint64, g int) []byte {
	sb := func(n int, s byte) *space.Node { return space.B(seedBytes(n, s, g)) }
	vrfCert := func(s byte) *space.Node { return space.A(sb(64, s), sb(80, s+1)) }
	var body *space.Node
	if layout == 15 {
		body = space.A(space.U(4490511), space.U(4492800), sb(32, 1), sb(32, 2), sb(32, 3), vrfCert(4), vrfCert(6),
			space.U(3), sb(32, 8), sb(32, 9), space.U(0), space.U(0), sb(64, 10), space.U(p), space.U(minor))
	} else {
		body = space.A(space.U(7791698), space.U(72316896), sb(32, 1), sb(32, 2), sb(32, 3), vrfCert(4),
			space.U(3), sb(32, 8), space.A(sb(32, 9), space.U(5), space.U(2), sb(64, 10)), space.A(space.U(p), space.U(minor)))
	}
	return space.A(body, sb(448, 11)).Encode()
}

func TestRaceAudit(t *testing.T) {
	var cases []ra.Case
	// (A)
	for _, layout := range []int{15, 10} {
		for p := uint64(0); p <= 16; p++ {
			layout, p := layout, p
			cases = append(cases, ra.Case{Key: fmt.Sprintf("DetermineBlockType|layout=%d|major=%02d", layout, p), PerG: true, Fn: func(g int) string {
				hdr := buildHeader(layout, p, 0, g)
				bt, err := ledger.DetermineBlockType(hdr)
				var in []eraRef
				for _, e := range eras {
					if p >= e.min && p <= e.max {
						in = append(in, e)
					}
				}
				if len(in) > 1 {
					return ra.OracleFail + fmt.Sprintf(" major %d lies in %d declared ranges", p, len(in))
				}
				if err != nil {
					if len(in) == 1 && in[0].layout == layout {
						return ra.OracleFail + fmt.Sprintf(" major %d lies in %s's declared range but the native-layout header is rejected: %v", p, in[0].name, err)
					}
					return ra.Err(err)
				}
				if len(in) == 0 || in[0].blockType != bt {
					return ra.OracleFail + fmt.Sprintf(" major %d classified as block type %d; declared eras containing it: %v", p, bt, in)
				}
				return fmt.Sprint("T=", bt)
			}})
		}
	}
	// (B)
	cases = append(cases, ra.Case{Key: "maps|BlockHeaderToBlockTypeMap/BlockToBlockHeaderTypeMap", Fn: func(g int) string {
		var ks []string
		for e, bt := range ledger.BlockHeaderToBlockTypeMap {
			if back, ok := ledger.BlockToBlockHeaderTypeMap[bt]; !ok || back != e {
				return ra.OracleFail + fmt.Sprintf(" header era %d -> block type %d -> header era %d (known=%v)", e, bt, back, ok)
			}
			ks = append(ks, fmt.Sprintf("%d>%d", e, bt))
		}
		for bt, e := range ledger.BlockToBlockHeaderTypeMap {
			if bt >= 2 {
				if back, ok := ledger.BlockHeaderToBlockTypeMap[e]; !ok || back != bt {
					return ra.OracleFail + fmt.Sprintf(" block type %d -> header era %d -> block type %d (known=%v)", bt, e, back, ok)
				}
			}
			ks = append(ks, fmt.Sprintf("%d<%d", bt, e))
		}
		sort.Strings(ks)
		return fmt.Sprint(ks)
	}})
	// (C)
	skip := common.VerifyConfig{SkipBodyHashValidation: true}
	for _, fx := range space.Blocks(false) {
		fx := fx
		if len(fx.Cbor) > 9000 {
			continue
		}
		root, err := space.Parse(fx.Cbor)
		if err != nil || root.Major != 4 || len(root.Items) < 2 {
			continue
		}
		hb := append([]byte(nil), fx.Cbor[root.Items[0].Start:root.Items[0].End]...)
		for ty := uint(0); ty <= 9; ty++ {
			ty := ty
			cases = append(cases, ra.Case{Key: fmt.Sprintf("decode|%s|as-type=%d", fx.Name, ty), Fn: func(g int) string {
				var parts []any
				want, known := eraOfType(ty)
				blk, berr := ledger.NewBlockFromCbor(ty, append([]byte(nil), fx.Cbor...), skip)
				parts = append(parts, ra.Err(berr))
				if berr == nil && blk != nil {
					if !known || blk.Type() != int(ty) || blk.Era().Id != want || (blk.Header() != nil && blk.Header().Era().Id != want) {
						return ra.OracleFail + fmt.Sprintf(" NewBlockFromCbor(%d): Type()=%d Era()=%d/%s header era %d, want type %d era %d", ty, blk.Type(), blk.Era().Id, blk.Era().Name, blk.Header().Era().Id, ty, want)
					}
					parts = append(parts, blk.Type(), blk.Era().Name)
				}
				hdr, herr := ledger.NewBlockHeaderFromCbor(ty, append([]byte(nil), hb...))
				parts = append(parts, ra.Err(herr))
				if herr == nil && hdr != nil {
					if !known || hdr.Era().Id != want {
						return ra.OracleFail + fmt.Sprintf(" NewBlockHeaderFromCbor(%d): Era()=%d/%s, want era %d", ty, hdr.Era().Id, hdr.Era().Name, want)
					}
					parts = append(parts, hdr.Era().Name)
				}
				return ra.Sum(parts...)
			}})
		}
	}
	ra.Run(t, 4, 3, 6*time.Second, cases)
}
