// Copied from harness/c26/txb.go (the rule harnesses C26/C27/C30/C32/C33 share this builder by copy); package name changed only.
// txb.go — common driver of the ledger-rule checks (C26, C27, C30, C32, C33).
// The same file is copied into each of those harness directories.
//
//   - TxRec: a small record describing a transaction; Build() emits era-correct
//     transaction CBOR with the verif/space writer (never the repository's encoder),
//     signs the body hash with ed25519 (trusted primitive) and hands the bytes to the
//     REAL era decoder (ledger.NewTransactionFromCbor).
//   - StubState: a ledger state implementing common.LedgerState that answers from the
//     record (UTxO set built from space-encoded outputs decoded by the real output
//     decoders).
//   - Era table: rule list, protocol-parameter constructor per era.
package txbb

import (
	"crypto/ed25519"
	"crypto/sha256"
	"encoding/hex"
	"errors"
	"fmt"
	"math/big"
	"reflect"
	"runtime"
	"sort"
	"strings"
	"time"

	"golang.org/x/crypto/blake2b"

	"github.com/blinklabs-io/gouroboros/cbor"
	"github.com/blinklabs-io/gouroboros/ledger"
	"github.com/blinklabs-io/gouroboros/ledger/allegra"
	"github.com/blinklabs-io/gouroboros/ledger/alonzo"
	"github.com/blinklabs-io/gouroboros/ledger/babbage"
	"github.com/blinklabs-io/gouroboros/ledger/common"
	"github.com/blinklabs-io/gouroboros/ledger/conway"
	"github.com/blinklabs-io/gouroboros/ledger/dijkstra"
	"github.com/blinklabs-io/gouroboros/ledger/mary"
	"github.com/blinklabs-io/gouroboros/ledger/shelley"
	"verif/space"
)

// ---- eras ----

const (
	EraShelley = iota + 1
	EraAllegra
	EraMary
	EraAlonzo
	EraBabbage
	EraConway
	EraDijkstra
)

var EraNames = map[int]string{
	EraShelley: "shelley", EraAllegra: "allegra", EraMary: "mary", EraAlonzo: "alonzo",
	EraBabbage: "babbage", EraConway: "conway", EraDijkstra: "dijkstra",
}

var AllEras = []int{EraShelley, EraAllegra, EraMary, EraAlonzo, EraBabbage, EraConway, EraDijkstra}

// TxType returns the transaction type id ledger.NewTransactionFromCbor expects.
func TxType(era int) uint {
	switch era {
	case EraShelley:
		return ledger.TxTypeShelley
	case EraAllegra:
		return ledger.TxTypeAllegra
	case EraMary:
		return ledger.TxTypeMary
	case EraAlonzo:
		return ledger.TxTypeAlonzo
	case EraBabbage:
		return ledger.TxTypeBabbage
	case EraConway:
		return ledger.TxTypeConway
	case EraDijkstra:
		return ledger.TxTypeDijkstra
	}
	panic("era")
}

// Rules returns the era's full rule list as used by ledger.VerifyBlock.
func Rules(era int) []common.UtxoValidationRuleFunc {
	switch era {
	case EraShelley:
		return shelley.UtxoValidationRules
	case EraAllegra:
		return allegra.UtxoValidationRules
	case EraMary:
		return mary.UtxoValidationRules
	case EraAlonzo:
		return alonzo.UtxoValidationRules
	case EraBabbage:
		return babbage.UtxoValidationRules
	case EraConway:
		return conway.UtxoValidationRules
	case EraDijkstra:
		return dijkstra.UtxoValidationRules
	}
	panic("era")
}

// RuleName returns the Go function name of a rule (for evidence / keys).
func RuleName(f common.UtxoValidationRuleFunc) string {
	n := runtime.FuncForPC(reflect.ValueOf(f).Pointer()).Name()
	if i := strings.LastIndex(n, "/"); i >= 0 {
		n = n[i+1:]
	}
	return n
}

// PP are the protocol parameters the checks vary; everything else is neutral
// (zero minimum output, huge limits) so that unrelated rules stay quiet.
type PP struct {
	MinFeeA, MinFeeB     uint64
	MaxTxSize            uint64
	KeyDeposit           uint64
	PoolDeposit          uint64
	DRepDeposit          uint64
	GovActionDeposit     uint64
	CollateralPercentage uint64
	MaxCollateralInputs  uint64
	ProtocolMajor        uint64
	UseConwayType        bool // Dijkstra only: hand *ConwayProtocolParameters to the rules
}

func NeutralPP() PP {
	return PP{MaxTxSize: 1 << 30, CollateralPercentage: 150, MaxCollateralInputs: 3}
}

// DefaultMajor is the protocol major version that belongs to the era.
func DefaultMajor(era int) uint64 {
	switch era {
	case EraShelley:
		return 2
	case EraAllegra:
		return 3
	case EraMary:
		return 4
	case EraAlonzo:
		return 6
	case EraBabbage:
		return 8
	case EraConway:
		return 9
	}
	return 12
}

func rat(n, d int64) *cbor.Rat { return &cbor.Rat{Rat: big.NewRat(n, d)} }

// MakePP builds the era's protocol-parameter value.
func MakePP(era int, p PP) common.ProtocolParameters {
	major := p.ProtocolMajor
	if major == 0 {
		major = DefaultMajor(era)
	}
	exu := common.ExUnits{Memory: 1 << 40, Steps: 1 << 40}
	switch era {
	case EraShelley, EraAllegra:
		return &shelley.ShelleyProtocolParameters{
			MinFeeA: uint(p.MinFeeA), MinFeeB: uint(p.MinFeeB), MaxBlockBodySize: 1 << 30,
			MaxTxSize: uint(p.MaxTxSize), MaxBlockHeaderSize: 1 << 20, KeyDeposit: uint(p.KeyDeposit),
			PoolDeposit: uint(p.PoolDeposit), ProtocolMajor: uint(major),
		}
	case EraMary:
		return &mary.MaryProtocolParameters{
			MinFeeA: uint(p.MinFeeA), MinFeeB: uint(p.MinFeeB), MaxBlockBodySize: 1 << 30,
			MaxTxSize: uint(p.MaxTxSize), MaxBlockHeaderSize: 1 << 20, KeyDeposit: uint(p.KeyDeposit),
			PoolDeposit: uint(p.PoolDeposit), ProtocolMajor: uint(major),
		}
	case EraAlonzo:
		return &alonzo.AlonzoProtocolParameters{
			MinFeeA: uint(p.MinFeeA), MinFeeB: uint(p.MinFeeB), MaxBlockBodySize: 1 << 30,
			MaxTxSize: uint(p.MaxTxSize), MaxBlockHeaderSize: 1 << 20, KeyDeposit: uint(p.KeyDeposit),
			PoolDeposit: uint(p.PoolDeposit), ProtocolMajor: uint(major),
			MaxTxExUnits: exu, MaxBlockExUnits: exu, MaxValueSize: 1 << 20,
			CollateralPercentage: uint(p.CollateralPercentage), MaxCollateralInputs: uint(p.MaxCollateralInputs),
			CostModels:     map[uint][]int64{0: make([]int64, 166)},
			ExecutionCosts: common.ExUnitPrice{MemPrice: rat(0, 1), StepPrice: rat(0, 1)},
		}
	case EraBabbage:
		return &babbage.BabbageProtocolParameters{
			MinFeeA: uint(p.MinFeeA), MinFeeB: uint(p.MinFeeB), MaxBlockBodySize: 1 << 30,
			MaxTxSize: uint(p.MaxTxSize), MaxBlockHeaderSize: 1 << 20, KeyDeposit: uint(p.KeyDeposit),
			PoolDeposit: uint(p.PoolDeposit), ProtocolMajor: uint(major),
			MaxTxExUnits: exu, MaxBlockExUnits: exu, MaxValueSize: 1 << 20,
			CollateralPercentage: uint(p.CollateralPercentage), MaxCollateralInputs: uint(p.MaxCollateralInputs),
			CostModels:     map[uint][]int64{0: make([]int64, 166), 1: make([]int64, 175)},
			ExecutionCosts: common.ExUnitPrice{MemPrice: rat(0, 1), StepPrice: rat(0, 1)},
		}
	case EraConway, EraDijkstra:
		cp := conway.ConwayProtocolParameters{
			MinFeeA: uint(p.MinFeeA), MinFeeB: uint(p.MinFeeB), MaxBlockBodySize: 1 << 30,
			MaxTxSize: uint(p.MaxTxSize), MaxBlockHeaderSize: 1 << 20, KeyDeposit: uint(p.KeyDeposit),
			PoolDeposit:     uint(p.PoolDeposit),
			ProtocolVersion: common.ProtocolParametersProtocolVersion{Major: uint(major)},
			MaxTxExUnits:    exu, MaxBlockExUnits: exu, MaxValueSize: 1 << 20,
			CollateralPercentage: uint(p.CollateralPercentage), MaxCollateralInputs: uint(p.MaxCollateralInputs),
			CostModels:                 map[uint][]int64{0: make([]int64, 166), 1: make([]int64, 175), 2: make([]int64, 251)},
			ExecutionCosts:             common.ExUnitPrice{MemPrice: rat(0, 1), StepPrice: rat(0, 1)},
			GovActionDeposit:           p.GovActionDeposit,
			DRepDeposit:                p.DRepDeposit,
			GovActionValidityPeriod:    10,
			MinFeeRefScriptCostPerByte: rat(0, 1),
		}
		if era == EraConway || p.UseConwayType {
			return &cp
		}
		return &dijkstra.DijkstraProtocolParameters{
			ConwayProtocolParameters: cp,
			MaxRefScriptSizePerBlock: 1 << 30, MaxRefScriptSizePerTx: 1 << 30,
			RefScriptCostStride: 25600, RefScriptCostMultiplier: rat(1, 1),
		}
	}
	panic("era")
}

// ---- keys and addresses (network id 1) ----

const NetworkID = 1

type Key struct {
	Priv ed25519.PrivateKey
	Pub  ed25519.PublicKey
	Hash [28]byte
}

func h224(b []byte) (o [28]byte) {
	h, _ := blake2b.New(28, nil)
	h.Write(b)
	copy(o[:], h.Sum(nil))
	return
}

// NewKey derives key number n; seed only rotates the representative key material.
func NewKey(seed int64, n int) Key {
	s := sha256.Sum256([]byte(fmt.Sprintf("verif-key-%d-%d", seed, n)))
	priv := ed25519.NewKeyFromSeed(s[:])
	pub := priv.Public().(ed25519.PublicKey)
	return Key{Priv: priv, Pub: pub, Hash: h224(pub)}
}

// EnterpriseAddr: header 0110 | network, payment key hash.
func EnterpriseAddr(k Key) []byte { return append([]byte{0x60 | NetworkID}, k.Hash[:]...) }

// ScriptEnterpriseAddr: header 0111 | network, script hash.
func ScriptEnterpriseAddr(h [28]byte) []byte { return append([]byte{0x70 | NetworkID}, h[:]...) }

// RewardAddr: header 1110 | network, stake key hash.
func RewardAddr(k Key) []byte { return append([]byte{0xe0 | NetworkID}, k.Hash[:]...) }

// RewardAddrScript: header 1111 | network, script hash.
func RewardAddrScript(h [28]byte) []byte { return append([]byte{0xf0 | NetworkID}, h[:]...) }

// ---- record ----

type In struct {
	TxID [32]byte
	Idx  uint64
}

func (i In) key() string { return fmt.Sprintf("%x#%d", i.TxID[:], i.Idx) }

func MkIn(n int, idx uint64) In {
	var t [32]byte
	s := sha256.Sum256([]byte(fmt.Sprintf("verif-txid-%d", n)))
	copy(t[:], s[:])
	return In{TxID: t, Idx: idx}
}

// Asset quantities of one output / mint: policy (28 bytes) -> name -> quantity.
type Asset struct {
	Policy [28]byte
	Name   []byte
	Qty    int64 // negative only in mint
}

type Out struct {
	Addr   []byte
	Coin   uint64
	Assets []Asset
}

type Wdrl struct {
	Addr []byte
	Amt  uint64
}

type TxRec struct {
	Era         int
	Inputs      []In
	Outputs     []Out
	Fee         uint64
	TTL         *uint64
	Start       *uint64
	Certs       []*space.Node
	Withdrawals []Wdrl
	Mint        []Asset
	Collateral  []In
	CollReturn  *Out
	TotalColl   *uint64
	Proposals   []*space.Node
	Donation    *uint64
	// witnesses
	Signers     []Key // vkey witnesses over the body hash
	Redeemers   int   // number of spend redeemers (index 0..n-1) put into the witness set
	RedeemerMap bool  // Conway: use the map form of the redeemers
	PlutusV1    [][]byte
	PlutusV2    [][]byte
	PlutusV3    [][]byte
	ScriptData  *[32]byte     // body key 11
	IsValid     *bool         // nil = true; only encoded for the 4-element envelope
	Envelope3   bool          // Dijkstra: use the 3-element envelope
	ExtraBody   []*space.Node // extra key/value pairs appended to the body map (sorted in)
	// Tweak is applied to the finished transaction tree before encoding (re-encodings).
	Tweak func(tx *space.Node)
}

func U64(v uint64) *uint64 { return &v }

func inNode(i In) *space.Node { return space.A(space.B(i.TxID[:]), space.U(i.Idx)) }

func assetsNode(as []Asset) *space.Node {
	// group by policy preserving first-appearance order
	var pols [][28]byte
	by := map[[28]byte][]Asset{}
	for _, a := range as {
		if _, ok := by[a.Policy]; !ok {
			pols = append(pols, a.Policy)
		}
		by[a.Policy] = append(by[a.Policy], a)
	}
	var kv []*space.Node
	for _, p := range pols {
		var inner []*space.Node
		for _, a := range by[p] {
			inner = append(inner, space.B(a.Name), space.NInt(a.Qty))
		}
		pp := p
		kv = append(kv, space.B(pp[:]), space.M(inner...))
	}
	return space.M(kv...)
}

func valueNode(o Out) *space.Node {
	if len(o.Assets) == 0 {
		return space.U(o.Coin)
	}
	return space.A(space.U(o.Coin), assetsNode(o.Assets))
}

// OutNode encodes an output in the era's native shape: [addr, value] before Babbage,
// {0: addr, 1: value} from Babbage on. Multi-assets exist from Mary on.
func OutNode(era int, o Out) *space.Node {
	if era < EraMary && len(o.Assets) > 0 {
		panic("assets before Mary")
	}
	if era >= EraBabbage {
		return space.M(space.U(0), space.B(o.Addr), space.U(1), valueNode(o))
	}
	return space.A(space.B(o.Addr), valueNode(o))
}

type kv struct {
	k uint64
	v *space.Node
}

// BodyNode builds the transaction body map (keys ascending).
func (r *TxRec) BodyNode() *space.Node {
	var f []kv
	ins := make([]*space.Node, len(r.Inputs))
	for i, x := range r.Inputs {
		ins[i] = inNode(x)
	}
	f = append(f, kv{0, space.A(ins...)})
	outs := make([]*space.Node, len(r.Outputs))
	for i, o := range r.Outputs {
		outs[i] = OutNode(r.Era, o)
	}
	f = append(f, kv{1, space.A(outs...)})
	f = append(f, kv{2, space.U(r.Fee)})
	if r.TTL != nil {
		f = append(f, kv{3, space.U(*r.TTL)})
	}
	if len(r.Certs) > 0 {
		f = append(f, kv{4, space.A(r.Certs...)})
	}
	if len(r.Withdrawals) > 0 {
		var w []*space.Node
		for _, x := range r.Withdrawals {
			w = append(w, space.B(x.Addr), space.U(x.Amt))
		}
		f = append(f, kv{5, space.M(w...)})
	}
	if r.Start != nil {
		if r.Era < EraAllegra {
			panic("validity start before Allegra")
		}
		f = append(f, kv{8, space.U(*r.Start)})
	}
	if len(r.Mint) > 0 {
		if r.Era < EraMary {
			panic("mint before Mary")
		}
		f = append(f, kv{9, assetsNode(r.Mint)})
	}
	if r.ScriptData != nil {
		f = append(f, kv{11, space.B(r.ScriptData[:])})
	}
	if len(r.Collateral) > 0 {
		if r.Era < EraAlonzo {
			panic("collateral before Alonzo")
		}
		cs := make([]*space.Node, len(r.Collateral))
		for i, x := range r.Collateral {
			cs[i] = inNode(x)
		}
		f = append(f, kv{13, space.A(cs...)})
	}
	if r.CollReturn != nil {
		if r.Era < EraBabbage {
			panic("collateral return before Babbage")
		}
		f = append(f, kv{16, OutNode(r.Era, *r.CollReturn)})
	}
	if r.TotalColl != nil {
		if r.Era < EraBabbage {
			panic("total collateral before Babbage")
		}
		f = append(f, kv{17, space.U(*r.TotalColl)})
	}
	if len(r.Proposals) > 0 {
		if r.Era < EraConway {
			panic("proposals before Conway")
		}
		f = append(f, kv{20, space.A(r.Proposals...)})
	}
	if r.Donation != nil {
		if r.Era < EraConway {
			panic("donation before Conway")
		}
		f = append(f, kv{22, space.U(*r.Donation)})
	}
	for i := 0; i+1 < len(r.ExtraBody); i += 2 {
		f = append(f, kv{r.ExtraBody[i].Arg, r.ExtraBody[i+1]})
	}
	sort.SliceStable(f, func(i, j int) bool { return f[i].k < f[j].k })
	var items []*space.Node
	for _, x := range f {
		items = append(items, space.U(x.k), x.v)
	}
	return space.M(items...)
}

func h256(b []byte) [32]byte { return blake2b.Sum256(b) }

// TxNode builds the whole transaction tree. The body is encoded once to compute the
// hash that the vkey witnesses sign (transaction id = blake2b-256 of the body bytes).
func (r *TxRec) TxNode() *space.Node {
	body := r.BodyNode()
	bh := h256(body.Encode())
	var wf []kv
	if len(r.Signers) > 0 {
		var ws []*space.Node
		for _, k := range r.Signers {
			ws = append(ws, space.A(space.B([]byte(k.Pub)), space.B(ed25519.Sign(k.Priv, bh[:]))))
		}
		wf = append(wf, kv{0, space.A(ws...)})
	}
	scr := func(key uint64, l [][]byte) {
		if len(l) == 0 {
			return
		}
		var s []*space.Node
		for _, b := range l {
			s = append(s, space.B(b))
		}
		wf = append(wf, kv{key, space.A(s...)})
	}
	scr(3, r.PlutusV1)
	if r.Redeemers > 0 {
		if r.Era < EraAlonzo {
			panic("redeemers before Alonzo")
		}
		// list form: [tag=spend(0), index, data=0, ex_units=[0,0]]
		// map form (Conway+; the only form Dijkstra takes): {[tag, index]: [data, ex_units]}
		var rs []*space.Node
		for i := 0; i < r.Redeemers; i++ {
			if r.RedeemerMap || r.Era == EraDijkstra {
				rs = append(rs, space.A(space.U(0), space.U(uint64(i))), space.A(space.U(0), space.A(space.U(0), space.U(0))))
			} else {
				rs = append(rs, space.A(space.U(0), space.U(uint64(i)), space.U(0), space.A(space.U(0), space.U(0))))
			}
		}
		if r.RedeemerMap || r.Era == EraDijkstra {
			wf = append(wf, kv{5, space.M(rs...)})
		} else {
			wf = append(wf, kv{5, space.A(rs...)})
		}
	}
	scr(6, r.PlutusV2)
	scr(7, r.PlutusV3)
	var wi []*space.Node
	for _, x := range wf {
		wi = append(wi, space.U(x.k), x.v)
	}
	wits := space.M(wi...)
	var tx *space.Node
	if r.Era >= EraAlonzo && !(r.Era == EraDijkstra && r.Envelope3) {
		v := true
		if r.IsValid != nil {
			v = *r.IsValid
		}
		tx = space.A(body, wits, space.Bool(v), space.Null())
	} else {
		tx = space.A(body, wits, space.Null())
	}
	if r.Tweak != nil {
		r.Tweak(tx)
	}
	return tx
}

// Build encodes the record and decodes it with the real era decoder.
func (r *TxRec) Build() (common.Transaction, []byte, error) {
	raw := r.TxNode().Encode()
	tx, err := ledger.NewTransactionFromCbor(TxType(r.Era), raw)
	return tx, raw, err
}

// ---- stub ledger state ----

type StubState struct {
	Utxos       map[string]common.Utxo
	RegStake    map[[28]byte]bool   // registered stake credentials (by hash)
	Rewards     map[[28]byte]uint64 // reward balances of registered credentials
	Pools       map[[28]byte]bool   // registered pools
	DReps       map[[28]byte]uint64 // registered DReps -> deposit
	UtxoErr     error               // if set, UtxoById fails for unknown ids with this error
	Calls       map[string]int
	StakeRegs   map[[28]byte][]common.StakeRegistrationCertificate
	CommitteeOK bool
}

func NewStub() *StubState {
	return &StubState{
		Utxos: map[string]common.Utxo{}, RegStake: map[[28]byte]bool{}, Rewards: map[[28]byte]uint64{},
		Pools: map[[28]byte]bool{}, DReps: map[[28]byte]uint64{}, Calls: map[string]int{},
	}
}

// DecodeOut decodes an output of the given era with the real output decoder.
func DecodeOut(era int, o Out) (common.TransactionOutput, error) {
	b := OutNode(era, o).Encode()
	switch era {
	case EraShelley, EraAllegra:
		return ledger.NewShelleyTransactionOutputFromCbor(b)
	case EraMary:
		return ledger.NewMaryTransactionOutputFromCbor(b)
	case EraAlonzo:
		return ledger.NewAlonzoTransactionOutputFromCbor(b)
	case EraBabbage, EraConway:
		return ledger.NewBabbageTransactionOutputFromCbor(b)
	default:
		var out dijkstra.DijkstraTransactionOutput
		if _, err := cbor.Decode(b, &out); err != nil {
			return nil, err
		}
		return &out, nil
	}
}

// AddUtxo registers an unspent output. The output is decoded by the real decoder of the
// given era (UTxOs carry over between eras, so callers may use an older era). Every state
// decodes its own outputs: no decoded value (and so no *big.Int / MultiAsset the rules could
// write to) is ever shared between two states or two parallel evaluations.
func (s *StubState) AddUtxo(era int, in In, o Out) error {
	out, err := DecodeOut(era, o)
	if err != nil {
		return err
	}
	s.Utxos[in.key()] = common.Utxo{
		Id:     shelley.NewShelleyTransactionInput(hex.EncodeToString(in.TxID[:]), int(in.Idx)),
		Output: out,
	}
	return nil
}

var errNoUtxo = errors.New("stub: utxo not found")

func (s *StubState) UtxoById(in common.TransactionInput) (common.Utxo, error) {
	id := in.Id()
	k := fmt.Sprintf("%x#%d", id[:], in.Index())
	if u, ok := s.Utxos[k]; ok {
		return u, nil
	}
	return common.Utxo{}, errNoUtxo
}

func (s *StubState) StakeRegistration(c []byte) ([]common.StakeRegistrationCertificate, error) {
	var h [28]byte
	copy(h[:], c)
	return s.StakeRegs[h], nil
}
func (s *StubState) IsStakeCredentialRegistered(c common.Credential) bool {
	return s.RegStake[[28]byte(c.Credential)]
}
func (s *StubState) SlotToTime(slot uint64) (time.Time, error) {
	return time.Unix(1_600_000_000+int64(slot%(1<<40)), 0), nil
}
func (s *StubState) TimeToSlot(t time.Time) (uint64, error) {
	return uint64(t.Unix() - 1_600_000_000), nil
}
func (s *StubState) PoolCurrentState(p common.PoolKeyHash) (*common.PoolRegistrationCertificate, *uint64, error) {
	if s.Pools[[28]byte(p)] {
		return &common.PoolRegistrationCertificate{Operator: p}, nil, nil
	}
	return nil, nil, nil
}
func (s *StubState) IsPoolRegistered(p common.PoolKeyHash) bool { return s.Pools[[28]byte(p)] }
func (s *StubState) IsVrfKeyInUse(common.Blake2b256) (bool, common.PoolKeyHash, error) {
	return false, common.PoolKeyHash{}, nil
}
func (s *StubState) CalculateRewards(common.AdaPots, common.RewardSnapshot, common.RewardParameters) (*common.RewardCalculationResult, error) {
	return nil, errors.New("stub: not supported")
}
func (s *StubState) GetAdaPots() common.AdaPots         { return common.AdaPots{} }
func (s *StubState) UpdateAdaPots(common.AdaPots) error { return nil }
func (s *StubState) GetRewardSnapshot(uint64) (common.RewardSnapshot, error) {
	return common.RewardSnapshot{}, errors.New("stub: not supported")
}
func (s *StubState) IsRewardAccountRegistered(c common.Credential) bool {
	return s.RegStake[[28]byte(c.Credential)]
}
func (s *StubState) RewardAccountBalance(c common.Credential) (*uint64, error) {
	if !s.RegStake[[28]byte(c.Credential)] {
		return nil, nil
	}
	v := s.Rewards[[28]byte(c.Credential)]
	return &v, nil
}
func (s *StubState) CommitteeMember(common.Blake2b224) (*common.CommitteeMember, error) {
	return nil, nil
}
func (s *StubState) CommitteeMembers() ([]common.CommitteeMember, error) { return nil, nil }
func (s *StubState) DRepRegistration(c common.Blake2b224) (*common.DRepRegistration, error) {
	if d, ok := s.DReps[[28]byte(c)]; ok {
		return &common.DRepRegistration{Credential: c, Deposit: d}, nil
	}
	return nil, nil
}
func (s *StubState) DRepRegistrations() ([]common.DRepRegistration, error) {
	var out []common.DRepRegistration
	for k, d := range s.DReps {
		out = append(out, common.DRepRegistration{Credential: common.Blake2b224(k), Deposit: d})
	}
	return out, nil
}
func (s *StubState) Constitution() (*common.Constitution, error) { return &common.Constitution{}, nil }
func (s *StubState) TreasuryValue() (uint64, error)              { return 0, nil }
func (s *StubState) GovActionById(common.GovActionId) (*common.GovActionState, error) {
	return nil, nil
}
func (s *StubState) GovActionExists(common.GovActionId) bool { return false }
func (s *StubState) NetworkId() uint                         { return NetworkID }
func (s *StubState) CostModels() map[common.PlutusLanguage]common.CostModel {
	return map[common.PlutusLanguage]common.CostModel{}
}

var _ common.LedgerState = (*StubState)(nil)

// ---- running rules ----

// RuleResult is the outcome of one rule of a list.
type RuleResult struct {
	Index int
	Name  string
	Err   error
	Panic any
}

// RunList calls every rule of the list separately (VerifyTransaction stops at the
// first error, which would let an unrelated failure of a minimal transaction mask the
// rule under test) and returns the results of the rules that returned an error or panicked.
func RunList(rules []common.UtxoValidationRuleFunc, tx common.Transaction, slot uint64, ls common.LedgerState, pp common.ProtocolParameters) []RuleResult {
	var out []RuleResult
	for i, f := range rules {
		func() {
			defer func() {
				if p := recover(); p != nil {
					out = append(out, RuleResult{Index: i, Name: RuleName(f), Panic: p, Err: fmt.Errorf("panic: %v", p)})
				}
			}()
			if err := f(tx, slot, ls, pp); err != nil {
				out = append(out, RuleResult{Index: i, Name: RuleName(f), Err: err})
			}
		}()
	}
	return out
}

// FailSet returns the set of rule names that failed.
func FailSet(rr []RuleResult) map[string]error {
	m := map[string]error{}
	for _, r := range rr {
		m[r.Name] = r.Err
	}
	return m
}

// Attributable returns the failures of the variant that do not occur on the baseline
// (a transaction equal to the variant except for the field under test, which is set to
// a value every rule must accept): those rejections are caused by the field under test.
func Attributable(variant, baseline []RuleResult) []RuleResult {
	b := FailSet(baseline)
	var out []RuleResult
	for _, r := range variant {
		if _, ok := b[r.Name]; !ok {
			out = append(out, r)
		}
	}
	return out
}

// Verify runs common.VerifyTransaction with the era's rule list, recovering panics.
func Verify(era int, tx common.Transaction, slot uint64, ls common.LedgerState, pp common.ProtocolParameters) (err error) {
	defer func() {
		if p := recover(); p != nil {
			err = fmt.Errorf("panic: %v", p)
		}
	}()
	return common.VerifyTransaction(tx, slot, ls, pp, Rules(era))
}

func errStr(e error) string {
	if e == nil {
		return ""
	}
	s := e.Error()
	if len(s) > 200 {
		s = s[:200] + "…"
	}
	return s
}

func names(rr []RuleResult) []string {
	var o []string
	for _, r := range rr {
		o = append(o, fmt.Sprintf("%s: %T %s", r.Name, r.Err, errStr(r.Err)))
	}
	return o
}

// ---- purity of validation ----

// Dump is a canonical rendering of everything the state hands out to the rules that they could
// write to: per UTxO (sorted by id) the address, the coin and every (policy, name, quantity),
// read back through the output's accessors. Comparing the dump before and after validation
// shows whether validation wrote into the ledger state.
func (s *StubState) Dump() string {
	keys := make([]string, 0, len(s.Utxos))
	for k := range s.Utxos {
		keys = append(keys, k)
	}
	sort.Strings(keys)
	var sb strings.Builder
	for _, k := range keys {
		o := s.Utxos[k].Output
		fmt.Fprintf(&sb, "%s addr=%x coin=%v", k, addrBytes(o), o.Amount())
		if as := o.Assets(); as != nil {
			var ents []string
			for _, p := range as.Policies() {
				for _, n := range as.Assets(p) {
					ents = append(ents, fmt.Sprintf("%x.%x=%v", p[:], n, as.Asset(p, n)))
				}
			}
			sort.Strings(ents)
			fmt.Fprintf(&sb, " assets=%v", ents)
		}
		sb.WriteString("\n")
	}
	var regs []string
	for k, v := range s.RegStake {
		regs = append(regs, fmt.Sprintf("stake %x=%v reward=%d", k[:], v, s.Rewards[k]))
	}
	for k, v := range s.Pools {
		regs = append(regs, fmt.Sprintf("pool %x=%v", k[:], v))
	}
	for k, v := range s.DReps {
		regs = append(regs, fmt.Sprintf("drep %x=%d", k[:], v))
	}
	sort.Strings(regs)
	sb.WriteString(strings.Join(regs, "\n"))
	return sb.String()
}

func addrBytes(o common.TransactionOutput) []byte {
	a := o.Address()
	b, _ := a.Bytes()
	return b
}

// Signature renders the verdict of one evaluation (which rules rejected, with which error).
func Signature(rr []RuleResult) string {
	var o []string
	for _, r := range rr {
		o = append(o, fmt.Sprintf("%s: %v", r.Name, r.Err))
	}
	sort.Strings(o)
	return strings.Join(o, " | ")
}
