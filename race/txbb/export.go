package txbb

// exported names for the unexported helpers of the copied builder (race audits import this package)
func Names(rr []RuleResult) []string { return names(rr) }
func ErrStr(e error) string          { return errStr(e) }
func H224(b []byte) [28]byte         { return h224(b) }
func H256(b []byte) [32]byte         { return h256(b) }
