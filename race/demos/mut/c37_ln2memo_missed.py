# the first C37 mutation (memo of ln 2): MISSED, see DEMOS.md
p='/tmp/ra-repo/consensus/threshold.go'
s=open(p).read()
old='''func computeLn2AtTarget(prec, targetBits uint) *big.Float {
	half := new(big.Float).SetPrec(prec).SetFloat64(0.5)
	terms := numTermsForArtanhSeriesAtTarget(targetBits)
	lnHalf := lnNormalized(half, terms)
	return new(big.Float).SetPrec(prec).Neg(lnHalf)
}'''
new='''func computeLn2AtTarget(prec, targetBits uint) *big.Float {
	// the last value is kept: consecutive calls almost always ask for the same precision
	if ln2Cache.v != nil && ln2Cache.prec == prec && ln2Cache.bits == targetBits {
		return ln2Cache.v
	}
	half := new(big.Float).SetPrec(prec).SetFloat64(0.5)
	terms := numTermsForArtanhSeriesAtTarget(targetBits)
	lnHalf := lnNormalized(half, terms)
	ln2Cache.v = new(big.Float).SetPrec(prec).Neg(lnHalf)
	ln2Cache.prec, ln2Cache.bits = prec, targetBits
	return ln2Cache.v
}

var ln2Cache struct {
	prec, bits uint
	v          *big.Float
}'''
assert s.count(old)==1
open(p,'w').write(s.replace(old,new))
