p='/tmp/ra-repo/kes/kes.go'
s=open(p).read()
old='''func HashPair(l ed25519.PublicKey, r ed25519.PublicKey) ed25519.PublicKey {
	// Stack-allocate input buffer: 32 bytes left + 32 bytes right
	var input [64]byte
'''
new='''// hashPairInput is the input buffer of HashPair: 32 bytes left + 32 bytes right
var hashPairInput [64]byte

func HashPair(l ed25519.PublicKey, r ed25519.PublicKey) ed25519.PublicKey {
	input := &hashPairInput
'''
assert s.count(old)==1
open(p,'w').write(s.replace(old,new))
