p='/tmp/ra-repo/ledger/verify_block.go'
s=open(p).read()
old='''func DetermineBlockType(headerCbor []byte) (uint, error) {
	var header any
	if _, err := cbor.Decode(headerCbor, &header); err != nil {'''
new='''// determineHeader is the decode target of DetermineBlockType (hoisted to package scope so
// that the interface value is not re-allocated for every header)
var determineHeader any

func DetermineBlockType(headerCbor []byte) (uint, error) {
	determineHeader = nil
	if _, err := cbor.Decode(headerCbor, &determineHeader); err != nil {'''
assert s.count(old)==1
s=s.replace(old,new)
old2='	h, ok := header.([]any)\n	if !ok || len(h) != 2 {\n		return 0, errors.New("invalid header structure")'
assert s.count(old2)==1
s=s.replace(old2,'	h, ok := determineHeader.([]any)\n	if !ok || len(h) != 2 {\n		return 0, errors.New("invalid header structure")')
open(p,'w').write(s)
