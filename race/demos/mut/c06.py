p='/tmp/ra-repo/ledger/common/common.go'
s=open(p).read()
old='''		return any(new(big.Int).Add(aInt, bInt)).(T)
	case int64:
		return any(av + any(b).(int64)).(T)'''
new='''		// sum in a reusable scratch value, then hand out a copy of exactly the needed size
		addScratch.Add(aInt, bInt)
		return any(new(big.Int).Set(&addScratch)).(T)
	case int64:
		return any(av + any(b).(int64)).(T)'''
assert s.count(old)==1
s=s.replace(old,new)
old2='func addAmounts[T int64 | uint64 | *big.Int](a, b T) T {'
assert s.count(old2)==1
s=s.replace(old2,'// addScratch is the accumulator of addAmounts (hoisted: one allocation less per asset)\nvar addScratch big.Int\n\n'+old2)
open(p,'w').write(s)
