p='/tmp/ra-repo/vrf/vrf.go'
s=open(p).read()
old='''func hashPoints(P1, P2, P3, P4 *edwards25519.Point) *edwards25519.Scalar {
	var result [32]byte
	var str [2 + (32 * 4)]byte
'''
new='''// hashPointsBuf is the input buffer of hashPoints (hoisted: 130 bytes less to clear per call)
var hashPointsBuf [2 + (32 * 4)]byte

func hashPoints(P1, P2, P3, P4 *edwards25519.Point) *edwards25519.Scalar {
	var result [32]byte
	str := &hashPointsBuf
'''
assert s.count(old)==1
open(p,'w').write(s.replace(old,new))
