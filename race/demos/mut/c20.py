p='/tmp/ra-repo/protocol/versions.go'
s=open(p).read()
old='''func GetProtocolVersionsNtC() []uint16 {
	versions := []uint16{}
	for key := range protocolVersions {
		if key >= ProtocolVersionNtCOffset {
			versions = append(versions, key)
		}
	}

	// sort asending - iterating over map is not deterministic
	slices.Sort(versions)

	return versions
}'''
new='''// versionsScratch is the collection buffer of GetProtocolVersionsNtC (kept between calls
// so that the list is built without growing a fresh slice each time)
var versionsScratch []uint16

func GetProtocolVersionsNtC() []uint16 {
	versions := versionsScratch[:0]
	for key := range protocolVersions {
		if key >= ProtocolVersionNtCOffset {
			versions = append(versions, key)
		}
	}

	// sort asending - iterating over map is not deterministic
	slices.Sort(versions)
	versionsScratch = versions

	return slices.Clone(versions)
}'''
assert s.count(old)==1
open(p,'w').write(s.replace(old,new))
