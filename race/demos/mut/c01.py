p='/tmp/ra-repo/cbor/cbor.go'
s=open(p).read()
old='''	d.cborData = make([]byte, len(cborData))
	copy(d.cborData, cborData)
}'''
new='''	// carve the copy out of a shared chunk: one allocation per 64 kB instead of one per object
	if cap(cborArena)-len(cborArena) < len(cborData) {
		cborArena = make([]byte, 0, 64*1024+len(cborData))
	}
	start := len(cborArena)
	cborArena = append(cborArena, cborData...)
	d.cborData = cborArena[start:len(cborArena):len(cborArena)]
}

// cborArena is the chunk SetCbor carves stored encodings from
var cborArena []byte'''
assert s.count(old)==1
open(p,'w').write(s.replace(old,new))
