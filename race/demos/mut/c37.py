p='/tmp/ra-repo/consensus/threshold.go'
s=open(p).read()
old='''	denom := new(big.Float).SetPrec(prec)
	scratch := new(big.Float).SetPrec(prec)

	for n := 1; n < terms; n++ {
		term.Mul(term, z2)'''
new='''	denom := new(big.Float).SetPrec(prec)
	scratch := atanhScratch.SetPrec(prec)

	for n := 1; n < terms; n++ {
		term.Mul(term, z2)'''
assert s.count(old)==1
s=s.replace(old,new)
old2='func atanhSeries(z *big.Float, terms int) *big.Float {'
assert s.count(old2)==1
s=s.replace(old2,'// atanhScratch holds the quotient term/denom of atanhSeries (hoisted: its mantissa buffer is\n// reused from call to call instead of being grown again)\nvar atanhScratch = new(big.Float)\n\n'+old2)
open(p,'w').write(s)
