p='/tmp/ra-repo/ledger/common/rules.go'
s=open(p).read()
old='''		var elems []cbor.RawMessage
		if _, err := cbor.Decode(cborData, &elems); err == nil &&
			len(elems) == 4 {
			return fullSize - 1, nil
		}
		return fullSize, nil'''
new='''		envelopeElems = envelopeElems[:0]
		if _, err := cbor.Decode(cborData, &envelopeElems); err == nil &&
			len(envelopeElems) == 4 {
			return fullSize - 1, nil
		}
		return fullSize, nil'''
assert s.count(old)==1
s=s.replace(old,new)
old2='func TxSizeForFee(tx Transaction) (int, error) {'
s=s.replace(old2,'// envelopeElems is the element list TxSizeForFee decodes an indefinite-length envelope into\n// (kept between calls: the backing array is reused)\nvar envelopeElems []cbor.RawMessage\n\n'+old2)
open(p,'w').write(s)
