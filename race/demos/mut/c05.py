p='/tmp/ra-repo/ledger/common/address.go'
s=open(p).read()
old='''func (a *AddressPayloadPointer) encode() []byte {
	writeVarUint := func(dst []byte, val uint64) int {
		var tmp [10]byte
'''
new='''// varUintScratch is the scratch space of AddressPayloadPointer.encode (hoisted out of
// the closure to avoid re-zeroing it for each of the three fields)
var varUintScratch [10]byte

func (a *AddressPayloadPointer) encode() []byte {
	writeVarUint := func(dst []byte, val uint64) int {
		tmp := &varUintScratch
'''
assert s.count(old)==1
open(p,'w').write(s.replace(old,new))
