#!/bin/bash
# usage: ra_demo.sh CNN <mutation.py> <pkgdir-to-build>
# fresh scratch copy of /repo HEAD, apply the mutation, build, run the check against it, report
cd /verif; . bin/env.sh
id="$1"; mut="$2"; pkg="$3"
rm -rf /tmp/ra-repo /tmp/ra-ev; mkdir -p /tmp/ra-repo
git -C /repo archive HEAD | tar -x -C /tmp/ra-repo
python3 "$mut" || { echo "MUTATION-FAILED"; exit 3; }
(cd /tmp/ra-repo && $VGO build "./$pkg") || { echo "MUTANT-DOES-NOT-BUILD"; exit 3; }
before="$(ls findings/replay 2>/dev/null | sort)"
out="$(VERIF_EVIDENCE_DIR=/tmp/ra-ev VERIF_REPO_OVERRIDE=/tmp/ra-repo bin/check "$id" --tier quick 2>&1)"; rc=$?
echo "$out" | grep -A1 "^VIOLATION" | grep "key=" | cut -c1-260
echo "$out" | grep "^check " 
echo "exit=$rc  violations: $(echo "$out" | grep -c '^VIOLATION')  of which race-audit: $(echo "$out" | grep -A1 '^VIOLATION' | grep -c 'key="race-audit')"
python3 - <<'PY'
import json,glob
for f in glob.glob('/tmp/ra-ev/*.json'):
    d=json.load(open(f)); cov=d.get('coverage',{})
    print('race_audit evidence:', {k:cov.get('race_audit',{}).get(k) for k in ('data_race_reports','mismatch_lines')}, cov.get('race_audit_stats'))
PY
after="$(ls findings/replay 2>/dev/null | sort)"
for f in $(comm -13 <(echo "$before") <(echo "$after")); do rm -f "findings/replay/$f"; done
rm -rf /tmp/ra-ev
