// Free-running race audit for C37 (not the deciding step; see DESIGN §10.6): the threshold
// entry points of the C37 harness (consensus.CertifiedNatThresholdWithMode and
// IsVRFOutputBelowThresholdWithMode) run on several goroutines at once under the Go race
// detector over the grid sigma = p/q (q <= 5, also scaled to stakes near 2^64) x f = a/b
// (b <= 5, and 1/20) x both modes, stakes with a huge reduced denominator (the series code
// instead of the exact path), plus sigma > 1, pool = 0, f = 0, f = 1 and an unknown
// mode. Every goroutine passes its own big.Rat and its own output bytes; the 2^256 / 2^512
// bounds and any cached constants of the series code are the library's package state.
// Oracle: the exact rational certificate of the harness (T is the floor <=> c^p 2^(kq) <=
// (2^k-T)^q d^p and > (2^k-T-1)^q d^p with 1-f = c/d), eligibility <=> leader value < T;
// and every outcome must be a sequential caller's.
package c37

import (
	"fmt"
	"math/big"
	"testing"
	"time"

	"github.com/blinklabs-io/gouroboros/consensus"
	"verif/race/ra"
)

var one = big.NewInt(1)

func pow2(k uint) *big.Int { return new(big.Int).Lsh(one, k) }

func certificate(T, c, d *big.Int, p, q uint64, k uint) string {
	twoK := pow2(k)
	if T == nil || T.Sign() < 0 || T.Cmp(twoK) >= 0 {
		return "T>=2^k"
	}
	pb, qb := new(big.Int).SetUint64(p), new(big.Int).SetUint64(q)
	lhs := new(big.Int).Exp(c, pb, nil)
	lhs.Lsh(lhs, k*uint(q))
	dp := new(big.Int).Exp(d, pb, nil)
	a := new(big.Int).Sub(twoK, T)
	A := new(big.Int).Exp(a, qb, nil)
	A.Mul(A, dp)
	if lhs.Cmp(A) > 0 {
		return "T-too-large"
	}
	b := new(big.Int).Sub(a, one)
	B := new(big.Int).Exp(b, qb, nil)
	B.Mul(B, dp)
	if lhs.Cmp(B) <= 0 {
		return "T-too-small"
	}
	return ""
}

func be(v *big.Int, n int) []byte {
	if v.BitLen() > 8*n {
		return v.Bytes()
	}
	return v.FillBytes(make([]byte, n))
}

func TestRaceAudit(t *testing.T) {
	type fr struct{ a, b int64 }
	fs := []fr{{1, 20}, {1, 2}, {2, 3}, {3, 4}, {1, 5}}
	modes := []consensus.ConsensusMode{consensus.ConsensusModeCPraos, consensus.ConsensusModeTPraos}
	var cases []ra.Case
	for _, mode := range modes {
		k := uint(256)
		if mode == consensus.ConsensusModeTPraos {
			k = 512
		}
		for q := uint64(1); q <= 5; q++ {
			for p := uint64(1); p <= q; p++ {
				if g := new(big.Int).GCD(nil, nil, new(big.Int).SetUint64(p), new(big.Int).SetUint64(q)); g.Cmp(one) != 0 {
					continue
				}
				for _, f := range fs {
					for _, scale := range []uint64{1, (1<<63 - 1) / 3} {
						if scale != 1 && q > 3 {
							continue
						}
						mode, k, p, q, f, scale := mode, k, p, q, f, scale
						cases = append(cases, ra.Case{Key: fmt.Sprintf("CertifiedNatThresholdWithMode|k=%d|sigma=%d/%d*%d|f=%d/%d", k, p, q, scale, f.a, f.b), Fn: func(g int) string {
							fr := big.NewRat(f.a, f.b)
							T, err := consensus.CertifiedNatThresholdWithMode(p*scale, q*scale, fr, mode)
							if err != nil {
								return ra.OracleFail + " error on valid input: " + err.Error()
							}
							if fr.Cmp(big.NewRat(f.a, f.b)) != 0 {
								return ra.OracleFail + " the caller's f was modified"
							}
							c, d := big.NewInt(f.b-f.a), big.NewInt(f.b)
							if gg := new(big.Int).GCD(nil, nil, c, d); gg.Cmp(one) != 0 {
								c.Div(c, gg)
								d.Div(d, gg)
							}
							if v := certificate(T, c, d, p, q, k); v != "" {
								return ra.OracleFail + fmt.Sprintf(" T=%s is not the floor: %s", T, v)
							}
							parts := []any{T.String()}
							if mode == consensus.ConsensusModeTPraos {
								for _, dv := range []int64{-1, 0, 1} {
									v := new(big.Int).Add(T, big.NewInt(dv))
									if v.Sign() < 0 {
										continue
									}
									got, err := consensus.IsVRFOutputBelowThresholdWithMode(be(v, 64), new(big.Int).Set(T), mode)
									if err != nil || got != (v.Cmp(T) < 0) {
										return ra.OracleFail + fmt.Sprintf(" leader value T%+d: eligible=%v (%v)", dv, got, err)
									}
									parts = append(parts, got)
								}
							} else {
								out := make([]byte, 64)
								for i := range out {
									out[i] = byte(i*11 + int(p) + 7*int(q))
								}
								got, err := consensus.IsVRFOutputBelowThresholdWithMode(out, new(big.Int).Set(T), mode)
								lv := new(big.Int).SetBytes(consensus.VrfLeaderValue(append([]byte(nil), out...)))
								parts = append(parts, got, ra.Err(err), lv.Cmp(T) < 0)
							}
							return ra.Sum(parts...)
						}})
					}
				}
			}
		}
		// stakes whose reduced denominator is huge: the escalating-precision series code instead of
		// the exact path (no exact certificate here: compared with the sequential result only)
		for hi, st := range [][2]uint64{{123_456_789_012_345, 31_234_567_890_123_457}, {1<<63 - 25, 1<<64 - 59}, {7_000_000_000_001, 22_000_000_000_000_019}} {
			// 1-f below 1/2 makes the series code use its ln(2) term as well
			for _, f := range []fr{{1, 20}, {2, 3}, {3, 4}, {4, 5}, {9, 10}} {
				mode, k, hi, st, f := mode, k, hi, st, f
				cases = append(cases, ra.Case{Key: fmt.Sprintf("CertifiedNatThresholdWithMode|k=%d|huge-denominator#%d|f=%d/%d", k, hi, f.a, f.b), Fn: func(g int) string {
					T, err := consensus.CertifiedNatThresholdWithMode(st[0], st[1], big.NewRat(f.a, f.b), mode)
					if err != nil {
						return ra.Err(err)
					}
					if T.Sign() < 0 || T.Cmp(pow2(k)) >= 0 {
						return ra.OracleFail + " threshold outside [0, 2^k)"
					}
					return ra.Sum(T.String())
				}})
			}
		}
		// boundary inputs
		type edge struct {
			name        string
			pool, total uint64
			f           *big.Rat
			mode        consensus.ConsensusMode
		}
		for _, e := range []edge{
			{"sigma>1", 7, 3, big.NewRat(1, 20), mode}, {"pool=0", 0, 3, big.NewRat(1, 20), mode}, {"f=0", 1, 3, big.NewRat(0, 1), mode},
			{"f=1", 1, 3, big.NewRat(1, 1), mode}, {"f>1", 1, 3, big.NewRat(3, 2), mode}, {"unknown-mode", 1, 3, big.NewRat(1, 20), consensus.ConsensusMode(99)},
		} {
			e := e
			cases = append(cases, ra.Case{Key: fmt.Sprintf("CertifiedNatThresholdWithMode|k=%d|edge=%s", k, e.name), Fn: func(g int) string {
				T, err := consensus.CertifiedNatThresholdWithMode(e.pool, e.total, new(big.Rat).Set(e.f), e.mode)
				switch e.name {
				case "f>1", "unknown-mode":
					if err == nil {
						return ra.OracleFail + " no error for " + e.name
					}
				case "pool=0", "f=0":
					if err != nil || T == nil || T.Sign() != 0 {
						return ra.OracleFail + fmt.Sprintf(" %s: T=%v err=%v, want 0", e.name, T, err)
					}
				case "sigma>1":
					if v := certificate(T, big.NewInt(19), big.NewInt(20), 1, 1, k); err != nil || v != "" {
						return ra.OracleFail + fmt.Sprintf(" sigma capped at 1: T=%v err=%v %s", T, err, v)
					}
				}
				return ra.Sum(fmt.Sprint(T), ra.Err(err))
			}})
		}
	}
	ra.Run(t, 4, 2, 6*time.Second, cases)
}
