// Free-running race audit for C40 (not the deciding step; see DESIGN §10.6): header
// production and both validation pipelines of the C40 harness (BlockBuilder.BuildHeader
// with real VRF / KES / cold keys for a slot the pool leads; HeaderValidator.ValidateHeader;
// block assembled by the harness's CBOR writer -> ledger.NewBlockFromCbor -> VerifyBlock ->
// ValidateOpCert) run on several goroutines at once under the Go race detector for both
// header layouts x two pools x KES evolutions {0, last valid, before the window, after the
// window}, plus single-field changes with the KES signature left alone. Every goroutine
// generates its own pools, keys, certificates, nonce and headers (gen.go is a copy of the
// harness's builder). A produced header inside the window is accepted by both pipelines,
// outside the window and after any change it is rejected by both, and every outcome must be
// a sequential caller's.
package c40

import (
	"crypto/ed25519"
	"errors"
	"fmt"
	"testing"
	"time"

	"golang.org/x/crypto/blake2b"

	"github.com/blinklabs-io/gouroboros/consensus"
	"github.com/blinklabs-io/gouroboros/ledger"
	lcommon "github.com/blinklabs-io/gouroboros/ledger/common"
	"verif/race/ra"
)

func TestRaceAudit(t *testing.T) {
	type layout struct {
		mode      consensus.ConsensusMode
		name      string
		blockType uint
		major     uint64
	}
	layouts := []layout{
		{consensus.ConsensusModeCPraos, "praos/conway", ledger.BlockTypeConway, 9},
		{consensus.ConsensusModeTPraos, "tpraos/shelley", ledger.BlockTypeShelley, 2},
	}
	var cases []ra.Case
	// a slice of layout x pool x evolution (a case costs ~0.15 s under -race: depth-6 KES key
	// generation and up to 61 updates, VRF proofs until a led slot is found, 8 validations);
	// the key seeds are the same for every goroutine, the objects are not
	plan := map[string]map[int][]int{
		"praos/conway":   {0: {0, maxEvo - 1, -1, maxEvo}, 1: {0}},
		"tpraos/shelley": {0: {0, -1}, 1: {maxEvo}},
	}
	for _, lay := range layouts {
		for pi := 0; pi < 2; pi++ {
			for _, evo := range plan[lay.name][pi] {
				lay, pi, evo := lay, pi, evo
				cases = append(cases, ra.Case{Key: fmt.Sprintf("header|%s|pool=%d|evolution=%d", lay.name, pi, evo), Fn: func(g int) string {
					seed := int64(300)
					pools := []*pool{newPool("A", 600_000_000_000_000, seed), newPool("B", 400_000_000_000_000, seed)}
					p := pools[pi]
					total := pools[0].stake + pools[1].stake
					nonce, prevHash := seedBytes("epoch-nonce", seed), seedBytes("prev-header", seed)
					signerEvo := evo
					if evo < 0 {
						signerEvo = 0
					}
					seq := uint32(3 + pi)
					oc := &consensus.OperationalCert{HotVkey: p.kesPub, SequenceNumber: seq, KesPeriod: startKES,
						Signature: ed25519.Sign(p.coldPriv, opcertSignable(p.kesPub, uint64(seq), startKES))}
					bp := emptyBody(lay.mode)
					signer := newKES(p.kesSeed, uint64(signerEvo))
					first := uint64((startKES+evo)*spkp) + uint64(1000+17*pi)
					var h hdr
					var slot uint64
					found := false
					for slot = first; slot < first+5000; slot++ {
						bld := consensus.NewBlockBuilderWithMode(p.vrf, signer, oc, lcommon.Blake2b224Hash(p.coldPub).Bytes(), p.coldPub, fCoeff, lay.mode)
						hh, lr, err := bld.BuildHeader(consensus.BuildHeaderInput{
							Slot: slot, BlockNumber: 4242, PrevHash: prevHash, EpochNonce: nonce, PoolStake: p.stake, TotalStake: total,
							BlockBodyHash: refBodyHash(bp), BlockBodySize: bodySize(bp), ProtoMajor: lay.major, ProtoMinor: 0,
						})
						if errors.Is(err, consensus.ErrNotSlotLeader) {
							continue
						}
						if err != nil || lr == nil || !lr.Eligible {
							return ra.OracleFail + fmt.Sprintf(" BuildHeader at slot %d: %v (leader result %v)", slot, err, lr)
						}
						h, found = fromHeader(hh), true
						break
					}
					if !found {
						return "no leading slot in 5000 slots"
					}
					vh := blake2b.Sum256(p.vrf.PublicKey())
					c := &ctxT{mode: lay.mode, blockType: lay.blockType, nonce: nonce, poolStake: p.stake, totalStake: total,
						prevSlot: slot - 20, prevBlock: 4241, prevHash: prevHash, vrfKeyHash: vh[:]}
					inWindow := evo >= 0 && evo < maxEvo
					cv, ce := consensusSide(c, h.clone())
					la, ls, ld := ledgerSide(c, h.clone(), bp)
					if inWindow && (!cv || !la) {
						return ra.OracleFail + fmt.Sprintf(" produced header rejected: consensus valid=%v %s; ledger accepted=%v at %s: %s", cv, ce, la, ls, ld)
					}
					if !inWindow && (cv || la) {
						return ra.OracleFail + fmt.Sprintf(" header at a KES period outside the certificate's window accepted: consensus=%v ledger=%v", cv, la)
					}
					parts := []any{slot, h.Sig, h.VrfOut, cv, ce, la, ls, ld}
					if inWindow {
						muts := map[string]func(m *hdr){
							"kes-signature":  func(m *hdr) { m.Sig[5] ^= 1 },
							"cold-signature": func(m *hdr) { m.ColdSig[9] ^= 0x10 },
							"vrf-proof":      func(m *hdr) { m.VrfProof[3] ^= 2 },
							"body-hash":      func(m *hdr) { m.BodyHash[0] ^= 0x80 },
							"slot+1":         func(m *hdr) { m.Slot++ },
							"opcert-seq+1":   func(m *hdr) { m.Seq++ },
						}
						names := []string{"kes-signature", "body-hash", "slot+1"}
						if pi == 1 || evo != 0 {
							names = []string{"cold-signature", "vrf-proof", "opcert-seq+1"}
						}
						for _, name := range names {
							m := h.clone()
							muts[name](&m)
							mv, me := consensusSide(c, m.clone())
							ma, ms, md := ledgerSide(c, m, bp)
							if mv || ma {
								return ra.OracleFail + fmt.Sprintf(" header with changed %s accepted: consensus=%v ledger=%v", name, mv, ma)
							}
							parts = append(parts, name, me, ms, md)
						}
					}
					return ra.Sum(parts...)
				}})
			}
		}
	}
	ra.Run(t, 4, 2, 8*time.Second, cases)
}
