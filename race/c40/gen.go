// Keys, header record, CDDL header-body writer, block assembly and the two validation
// pipelines of the C40 harness (harness/c40/main.go from the constants down to ledgerSide),
// copied unchanged for the race audit.
package c40

import (
	"crypto/ed25519"
	"crypto/sha256"
	"encoding/binary"
	"encoding/hex"
	"fmt"
	"math/big"

	"golang.org/x/crypto/blake2b"

	"github.com/blinklabs-io/gouroboros/consensus"
	"github.com/blinklabs-io/gouroboros/kes"
	"github.com/blinklabs-io/gouroboros/ledger"
	lcommon "github.com/blinklabs-io/gouroboros/ledger/common"
	"verif/space"
)

const (
	spkp     = 129600
	maxEvo   = 62
	startKES = 10 // opcert start period
)

var fCoeff = big.NewRat(1, 20)

// ------------------------------------------------------------------ keys

type kesSigner struct {
	sk  *kes.SecretKey
	pub []byte
	evo uint64
}

func (k *kesSigner) Sign(m []byte) ([]byte, error) { return kes.Sign(k.sk, k.evo, m) }
func (k *kesSigner) PublicKey() []byte             { return k.pub }
func (k *kesSigner) Period() uint64                { return k.evo }

func newKES(seed []byte, evo uint64) *kesSigner {
	sk, pub, err := kes.KeyGen(kes.CardanoKesDepth, seed)
	if err != nil {
		panic(err)
	}
	for i := uint64(0); i < evo; i++ {
		if sk, err = kes.Update(sk); err != nil {
			panic(err)
		}
	}
	return &kesSigner{sk, pub, evo}
}

type pool struct {
	name     string
	coldPriv ed25519.PrivateKey
	coldPub  []byte
	kesSeed  []byte
	kesPub   []byte
	vrf      *consensus.SimpleVRFSigner
	stake    uint64
}

func seedBytes(label string, seed int64) []byte {
	h := sha256.Sum256([]byte(fmt.Sprintf("verif-c40|%s|%d", label, seed)))
	return h[:]
}

func newPool(name string, stake uint64, seed int64) *pool {
	p := &pool{name: name, stake: stake}
	p.coldPriv = ed25519.NewKeyFromSeed(seedBytes("cold-"+name, seed))
	p.coldPub = []byte(p.coldPriv.Public().(ed25519.PublicKey))
	p.kesSeed = seedBytes("kes-"+name, seed)
	p.kesPub = newKES(p.kesSeed, 0).pub
	v, err := consensus.NewSimpleVRFSigner(seedBytes("vrf-"+name, seed))
	if err != nil {
		panic(err)
	}
	p.vrf = v
	return p
}

// Cardano opcert signable: hot key || counter (8 bytes BE) || start period (8 bytes BE)
func opcertSignable(hot []byte, seq, period uint64) []byte {
	out := append([]byte{}, hot...)
	out = binary.BigEndian.AppendUint64(out, seq)
	return binary.BigEndian.AppendUint64(out, period)
}

// ------------------------------------------------------------------ header as plain data

type hdr struct {
	BlockNumber uint64 `json:"block_number"`
	Slot        uint64 `json:"slot"`
	PrevHash    []byte `json:"prev_hash"`
	IssuerVkey  []byte `json:"issuer_vkey"`
	VrfKey      []byte `json:"vrf_key"`
	NonceOut    []byte `json:"nonce_vrf_output,omitempty"`
	NonceProof  []byte `json:"nonce_vrf_proof,omitempty"`
	VrfOut      []byte `json:"vrf_output"`
	VrfProof    []byte `json:"vrf_proof"`
	BodySize    uint64 `json:"body_size"`
	BodyHash    []byte `json:"body_hash"`
	HotVkey     []byte `json:"opcert_hot_vkey"`
	Seq         uint32 `json:"opcert_seq"`
	KesPeriod   uint32 `json:"opcert_kes_period"`
	ColdSig     []byte `json:"opcert_cold_sig"`
	ProtoMajor  uint64 `json:"proto_major"`
	ProtoMinor  uint64 `json:"proto_minor"`
	Sig         []byte `json:"kes_signature"`
}

func cp(b []byte) []byte {
	if b == nil {
		return nil
	}
	return append([]byte{}, b...)
}

func fromHeader(h *consensus.Header) hdr {
	b := h.Body
	return hdr{b.BlockNumber, b.Slot, cp(b.PrevHash), cp(b.IssuerVkey), cp(b.VrfKey), cp(b.NonceVrfOutput), cp(b.NonceVrfProof),
		cp(b.VrfOutput), cp(b.VrfProof), b.BlockBodySize, cp(b.BlockBodyHash), cp(b.OpCertHotVkey), b.OpCertSequenceNumber,
		b.OpCertKesPeriod, cp(b.OpCertSignature), b.ProtoMajor, b.ProtoMinor, cp(h.Signature)}
}

func (h hdr) clone() hdr {
	h.PrevHash, h.IssuerVkey, h.VrfKey, h.NonceOut, h.NonceProof = cp(h.PrevHash), cp(h.IssuerVkey), cp(h.VrfKey), cp(h.NonceOut), cp(h.NonceProof)
	h.VrfOut, h.VrfProof, h.BodyHash, h.HotVkey, h.ColdSig, h.Sig = cp(h.VrfOut), cp(h.VrfProof), cp(h.BodyHash), cp(h.HotVkey), cp(h.ColdSig), cp(h.Sig)
	return h
}

// header body per the CDDL (Babbage+: 10 fields with nested vrf_result / operational_cert /
// protocol_version; Shelley..Alonzo: 15 flat fields with two vrf certs)
func bodyNode(mode consensus.ConsensusMode, h hdr) *space.Node {
	if mode == consensus.ConsensusModeTPraos {
		return space.A(space.U(h.BlockNumber), space.U(h.Slot), space.B(h.PrevHash), space.B(h.IssuerVkey), space.B(h.VrfKey),
			space.A(space.B(h.NonceOut), space.B(h.NonceProof)), space.A(space.B(h.VrfOut), space.B(h.VrfProof)),
			space.U(h.BodySize), space.B(h.BodyHash), space.B(h.HotVkey), space.U(uint64(h.Seq)), space.U(uint64(h.KesPeriod)), space.B(h.ColdSig),
			space.U(h.ProtoMajor), space.U(h.ProtoMinor))
	}
	return space.A(space.U(h.BlockNumber), space.U(h.Slot), space.B(h.PrevHash), space.B(h.IssuerVkey), space.B(h.VrfKey),
		space.A(space.B(h.VrfOut), space.B(h.VrfProof)), space.U(h.BodySize), space.B(h.BodyHash),
		space.A(space.B(h.HotVkey), space.U(uint64(h.Seq)), space.U(uint64(h.KesPeriod)), space.B(h.ColdSig)),
		space.A(space.U(h.ProtoMajor), space.U(h.ProtoMinor)))
}

// ------------------------------------------------------------------ block bodies

type bodyParts struct {
	name  string
	parts [][]byte // encoded components after the header
}

func emptyBody(mode consensus.ConsensusMode) bodyParts {
	if mode == consensus.ConsensusModeTPraos {
		return bodyParts{"empty", [][]byte{{0x80}, {0x80}, {0xa0}}}
	}
	return bodyParts{"empty", [][]byte{{0x80}, {0x80}, {0xa0}, {0x80}}}
}

// reference body hash (Shelley spec: hash of the concatenated hashes of the body components)
func refBodyHash(bp bodyParts) []byte {
	var cat []byte
	for _, p := range bp.parts {
		x := blake2b.Sum256(p)
		cat = append(cat, x[:]...)
	}
	x := blake2b.Sum256(cat)
	return x[:]
}

func bodySize(bp bodyParts) uint64 {
	n := 0
	for _, p := range bp.parts {
		n += len(p)
	}
	return uint64(n)
}

func blockCbor(mode consensus.ConsensusMode, h hdr, bp bodyParts) []byte {
	out := []byte{byte(0x80 + 1 + len(bp.parts))}
	out = space.A(bodyNode(mode, h), space.B(h.Sig)).Append(out)
	for _, p := range bp.parts {
		out = append(out, p...)
	}
	return out
}

// ------------------------------------------------------------------ the two pipelines

type ctxT struct {
	mode       consensus.ConsensusMode
	blockType  uint
	nonce      []byte
	poolStake  uint64
	totalStake uint64
	prevSlot   uint64
	prevBlock  uint64
	prevHash   []byte
	vrfKeyHash []byte
}

func consensusSide(c *ctxT, h hdr) (valid bool, errs string) {
	v := consensus.NewHeaderValidatorWithMode(consensus.NetworkConfig{
		ActiveSlotCoeff:   lcommon.GenesisRat{Rat: fCoeff},
		SlotsPerKESPeriod: spkp,
		MaxKESEvolutions:  maxEvo,
	}, c.mode)
	in := &consensus.ValidateHeaderInput{
		Slot: h.Slot, BlockNumber: h.BlockNumber, PrevHash: h.PrevHash, IssuerVkey: h.IssuerVkey, VrfKey: h.VrfKey,
		VrfProof: h.VrfProof, VrfOutput: h.VrfOut, KesSignature: h.Sig, HeaderBodyCbor: bodyNode(c.mode, h).Encode(),
		NonceVrfProof: h.NonceProof, NonceVrfOutput: h.NonceOut,
		KesPeriod:     h.Slot / spkp,
		OpCertHotVkey: h.HotVkey, OpCertSequenceNumber: h.Seq, OpCertKesPeriod: h.KesPeriod, OpCertSignature: h.ColdSig,
		PrevSlot: c.prevSlot, PrevBlockNumber: c.prevBlock, PrevHeaderHash: c.prevHash,
		EpochNonce: c.nonce, PoolStake: c.poolStake, TotalStake: c.totalStake,
		RegisteredVrfKeyHash: c.vrfKeyHash,
	}
	res := v.ValidateHeader(in)
	return res.Valid, fmt.Sprint(res.Errors)
}

// ledgerSide returns accepted + the stage that refused.
func ledgerSide(c *ctxT, h hdr, bp bodyParts) (accepted bool, stage string, detail string) {
	defer func() {
		if r := recover(); r != nil {
			accepted, stage, detail = false, "panic", fmt.Sprint(r)
		}
	}()
	raw := blockCbor(c.mode, h, bp)
	blk, err := ledger.NewBlockFromCbor(c.blockType, raw)
	if err != nil {
		return false, "decode", err.Error()
	}
	ok, _, _, _, err := ledger.VerifyBlock(blk, hex.EncodeToString(c.nonce), spkp, lcommon.VerifyConfig{
		SkipTransactionValidation: true, SkipStakePoolValidation: true,
	})
	if err != nil || !ok {
		return false, "VerifyBlock", fmt.Sprint(err)
	}
	// opcert as the ledger decoded it
	hn, perr := space.Parse(blk.Header().Cbor())
	if perr != nil || !hn.IsArray() || hn.Len() != 2 {
		return false, "decode", "header cbor"
	}
	_, hot, kp, err := ledger.ExtractKesFields(blk.Header())
	if err != nil {
		return false, "ExtractKesFields", err.Error()
	}
	b := hn.Items[0]
	var seqN, sigN *space.Node
	if c.mode == consensus.ConsensusModeTPraos {
		seqN, sigN = b.Items[10], b.Items[12]
	} else {
		seqN, sigN = b.Items[8].Items[1], b.Items[8].Items[3]
	}
	seq, _ := seqN.Uint()
	iss := blk.Header().IssuerVkey()
	if _, err := ledger.ValidateOpCert(&ledger.OpCert{KesVkey: hot, IssueNumber: seq, KesPeriod: kp, ColdSignature: sigN.StringBytes()},
		iss[:], blk.Header().SlotNumber(), spkp, maxEvo); err != nil {
		return false, "ValidateOpCert", err.Error()
	}
	return true, "", ""
}
