// Free-running race audit for C26 (not the deciding step; see DESIGN §10.6): the C26
// pipeline (signed, balanced transaction written with the harness's CBOR writer -> real era
// decoder -> every rule of the era's list, VerifyTransaction and the era's validity-interval
// rule called directly) runs on several goroutines at once under the Go race detector for
// Shelley..Dijkstra x slot x validity start x ttl. Every goroutine builds its own key,
// transaction, stub ledger state and protocol parameters (race/txbb is a copy of the
// harness's builder). The bound-free baseline must be accepted, a slot outside a non-zero
// bound must be rejected, and every outcome must be a sequential caller's.
package c26

import (
	"fmt"
	"testing"
	"time"

	"github.com/blinklabs-io/gouroboros/ledger/allegra"
	"github.com/blinklabs-io/gouroboros/ledger/alonzo"
	"github.com/blinklabs-io/gouroboros/ledger/babbage"
	"github.com/blinklabs-io/gouroboros/ledger/common"
	"github.com/blinklabs-io/gouroboros/ledger/conway"
	"github.com/blinklabs-io/gouroboros/ledger/mary"
	"github.com/blinklabs-io/gouroboros/ledger/shelley"
	"verif/race/ra"
	. "verif/race/txbb"
)

const maxU = ^uint64(0)

func directRule(era int) common.UtxoValidationRuleFunc {
	switch era {
	case EraShelley:
		return shelley.UtxoValidateTimeToLive
	case EraAllegra:
		return allegra.UtxoValidateOutsideValidityIntervalUtxo
	case EraMary:
		return mary.UtxoValidateOutsideValidityIntervalUtxo
	case EraAlonzo:
		return alonzo.UtxoValidateOutsideValidityIntervalUtxo
	case EraBabbage:
		return babbage.UtxoValidateOutsideValidityIntervalUtxo
	default:
		return conway.UtxoValidateOutsideValidityIntervalUtxo
	}
}

type bound struct {
	present bool
	v       uint64
}

func (b bound) String() string {
	if !b.present {
		return "absent"
	}
	return fmt.Sprint(b.v)
}

func TestRaceAudit(t *testing.T) {
	var cases []ra.Case
	slots := []uint64{100, maxU}
	for _, era := range AllEras {
		for _, s := range slots {
			bs := []bound{{}, {true, s - 1}, {true, s}}
			if s != maxU {
				bs = append(bs, bound{true, maxU})
			}
			for _, ttl := range bs {
				starts := bs
				if era == EraShelley {
					if !ttl.present {
						continue
					}
					starts = []bound{{}}
				}
				for _, st := range starts {
					era, s, ttl, st := era, s, ttl, st
					cases = append(cases, ra.Case{Key: fmt.Sprintf("validity-interval|era=%s|slot=%d|start=%s|ttl=%s", EraNames[era], s, st, ttl), PerG: true, Fn: func(g int) string {
						key := NewKey(int64(500+g), 1)
						in := MkIn(g+1, 0)
						ls := NewStub()
						if err := ls.AddUtxo(era, in, Out{Addr: EnterpriseAddr(key), Coin: 1_000_000}); err != nil {
							return "audit: stub utxo: " + err.Error()
						}
						pp := MakePP(era, NeutralPP())
						r := &TxRec{Era: era, Inputs: []In{in}, Outputs: []Out{{Addr: EnterpriseAddr(key), Coin: 999_000}}, Fee: 1_000, Signers: []Key{key}}
						if st.present {
							r.Start = U64(st.v)
						}
						if ttl.present {
							r.TTL = U64(ttl.v)
						}
						tx, raw, err := r.Build()
						if err != nil {
							return ra.OracleFail + " well-formed transaction rejected by the decoder: " + err.Error()
						}
						all := RunList(Rules(era), tx, s, ls, pp)
						full := Verify(era, tx, s, ls, pp)
						direct := directRule(era)(tx, s, ls, pp)
						// oracle on the unambiguous cases only (non-zero bounds)
						inside := (!st.present || s >= st.v) && (!ttl.present || s < ttl.v)
						if era == EraShelley {
							inside = s <= ttl.v
						}
						zero := (st.present && st.v == 0) || (ttl.present && ttl.v == 0)
						if !zero && inside && (len(all) > 0 || full != nil || direct != nil) {
							return ra.OracleFail + fmt.Sprintf(" in-interval transaction rejected: %v / %s / %s", Names(all), ErrStr(full), ErrStr(direct))
						}
						if !zero && !inside && (len(all) == 0 || full == nil || direct == nil) {
							return ra.OracleFail + fmt.Sprintf(" out-of-interval transaction accepted: %v / %s / %s", Names(all), ErrStr(full), ErrStr(direct))
						}
						return ra.Sum(raw, fmt.Sprint(Names(all)), ErrStr(full), ErrStr(direct))
					}})
				}
			}
		}
	}
	ra.Run(t, 4, 2, 6*time.Second, cases)
}
