// Free-running race audit for C08 (not the deciding step; see DESIGN §10.6): the C08
// pipeline (transaction bytes written with the harness's CBOR writer -> real era decoder ->
// every rule of the era's UtxoValidationRules with a stub ledger state) runs on several
// goroutines at once under the Go race detector for Mary..Dijkstra, both output forms,
// the funding shapes and boundary quantities of the harness. Every goroutine builds its own
// keys, transaction, stub state and protocol parameters (gen.go and race/txba are copies of the
// harness's builder). No accepted transaction may carry an out-of-range quantity, the
// in-range baseline must be accepted, and every outcome must be a sequential caller's.
package c08

import (
	"fmt"
	"math/big"
	"testing"
	"time"

	"github.com/blinklabs-io/gouroboros/ledger/alonzo"
	"github.com/blinklabs-io/gouroboros/ledger/babbage"
	"github.com/blinklabs-io/gouroboros/ledger/conway"
	"github.com/blinklabs-io/gouroboros/ledger/dijkstra"
	"github.com/blinklabs-io/gouroboros/ledger/mary"
	"verif/race/ra"
	. "verif/race/txba"
	"verif/space"
)

func realisticPP(env *EraEnv) {
	switch p := env.PP.(type) {
	case *mary.MaryProtocolParameters:
		p.MinFeeA, p.MinFeeB, p.MinUtxoValue = 44, 155381, 1000000
	case *alonzo.AlonzoProtocolParameters:
		p.MinFeeA, p.MinFeeB, p.AdaPerUtxoByte = 44, 155381, 34482
	case *babbage.BabbageProtocolParameters:
		p.MinFeeA, p.MinFeeB, p.AdaPerUtxoByte = 44, 155381, 4310
	case *conway.ConwayProtocolParameters:
		p.MinFeeA, p.MinFeeB, p.AdaPerUtxoByte = 44, 155381, 4310
	case *dijkstra.DijkstraProtocolParameters:
		p.MinFeeA, p.MinFeeB, p.AdaPerUtxoByte = 44, 155381, 4310
	}
}

func newWorld(g int) *world {
	seed := int64(1000 + g)
	w := &world{keyA: NewKey("a", seed), keyB: NewKey("b", seed), asset: []byte("tok"), seed: seed}
	w.polScript = space.A(space.U(0), space.B(w.keyA.Hash))
	w.policy = B224(append([]byte{0}, w.polScript.Encode()...))
	return w
}

func TestRaceAudit(t *testing.T) {
	neg := func(x *big.Int) *big.Int { return new(big.Int).Neg(x) }
	qs := []*big.Int{big.NewInt(1), big.NewInt(-1), maxU64, two64}
	_ = neg
	var cases []ra.Case
	for _, era := range []int{EraMary, EraAlonzo, EraBabbage, EraConway, EraDijkstra} {
		forms := []int{formLegacy}
		if era >= EraBabbage {
			forms = []int{formLegacy, formMap}
		}
		for _, form := range forms {
			for _, shape := range []int{shapeInputs, shapeMint, shapePair} {
				for _, q := range qs {
					for _, enc := range []int{encInt, encBig} {
						k := caseT{era: era, form: form, shape: shape, enc: enc, q: q}
						cases = append(cases, ra.Case{Key: "output-value|" + k.String(), PerG: true, Fn: func(g int) string {
							w := newWorld(g)
							env := NewEraEnv(k.era)
							realisticPP(env)
							kk := k
							kk.q = new(big.Int).Set(k.q)
							res, txb, ok := w.run(env, kk)
							if !ok {
								return "inexpressible"
							}
							if res.viol {
								return ra.OracleFail + fmt.Sprintf(" accepted with out-of-range quantity %v", res.decQs)
							}
							if kk.q.Cmp(big.NewInt(1)) == 0 && kk.enc == encInt && kk.shape != shapePair && !res.accepted {
								return ra.OracleFail + fmt.Sprintf(" in-range baseline rejected: %s %v %v", res.decErr, res.ruleErrs, res.panics)
							}
							return ra.Sum(txb, res.decoded, res.decErr, fmt.Sprint(res.ruleErrs), fmt.Sprint(res.panics), fmt.Sprint(res.decQs), res.accepted)
						}})
					}
				}
			}
		}
	}
	ra.Run(t, 4, 2, 6*time.Second, cases)
}
