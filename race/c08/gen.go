// Case builder of the C08 harness (harness/c08/main.go: quantities, encodings, shapes,
// world.build, world.runSpec), copied for the race audit; the only change is that a stub
// construction failure panics instead of calling the check's Internal().
package c08

import (
	"fmt"
	"math/big"

	"github.com/blinklabs-io/gouroboros/ledger/common"
	. "verif/race/txba"
	"verif/space"
)

var (
	two64   = new(big.Int).Lsh(big.NewInt(1), 64)
	maxU64  = new(big.Int).Sub(two64, big.NewInt(1))
	two63   = new(big.Int).Lsh(big.NewInt(1), 63)
	two65   = new(big.Int).Lsh(big.NewInt(1), 65)
	bigZero = new(big.Int)
)

func inRange(q *big.Int) bool { return q.Sign() >= 0 && q.Cmp(maxU64) <= 0 }

func qName(q *big.Int) string {
	names := map[string]string{
		new(big.Int).Neg(two64).String():                                  "-2^64",
		new(big.Int).Neg(new(big.Int).Add(two63, big.NewInt(1))).String(): "-2^63-1",
		new(big.Int).Add(two63, big.NewInt(1)).String():                   "2^63+1",
		two63.String(): "2^63", maxU64.String(): "2^64-1", two64.String(): "2^64", two65.String(): "2^65",
	}
	if n, ok := names[q.String()]; ok {
		return n
	}
	return q.String()
}

// encodings of an integer
const (
	encInt = iota
	encBig
	encBigLZ
)

var encNames = []string{"int", "bignum", "bignum-leading-zero"}

// qNode returns the CBOR item for q in the requested encoding, or nil if not representable.
func qNode(q *big.Int, enc int) *space.Node {
	switch enc {
	case encInt:
		if q.Sign() >= 0 {
			if q.Cmp(maxU64) > 0 {
				return nil
			}
			return space.U(q.Uint64())
		}
		arg := new(big.Int).Sub(new(big.Int).Neg(q), big.NewInt(1)) // -1-q
		if arg.Cmp(maxU64) > 0 {
			return nil
		}
		return space.Neg(arg.Uint64())
	default:
		var mag []byte
		tag := uint64(2)
		if q.Sign() >= 0 {
			mag = q.Bytes()
		} else {
			tag = 3
			mag = new(big.Int).Sub(new(big.Int).Neg(q), big.NewInt(1)).Bytes()
		}
		if enc == encBigLZ {
			mag = append([]byte{0}, mag...)
		}
		return space.Tag(tag, space.B(mag))
	}
}

// shapes
const (
	shapeInputs   = iota // one output with q, funded by inputs carrying the asset (q > 0), or nothing (q == 0)
	shapeMint            // one output with q, funded by mint q (burn if negative)
	shapePair            // outputs +|q| and -|q|, nothing funds them
	shapeUnfunded        // control: one output with q and nothing funding it (must be rejected by conservation for q != 0)
)

var shapeNames = []string{"single/funded-by-inputs", "single/funded-by-mint", "pair(+|q|,-|q|)/unfunded", "single/unfunded(control)"}

// output forms
const (
	formLegacy = iota
	formMap
)

var formNames = []string{"array", "map"}

type caseT struct {
	era, form, shape, enc int
	q                     *big.Int
}

func (k caseT) String() string {
	return fmt.Sprintf("%s/%s-output/%s/q=%s/%s", EraNames[k.era], formNames[k.form], shapeNames[k.shape], qName(k.q), encNames[k.enc])
}

type world struct {
	keyA, keyB *Key
	policy     []byte      // hash of the native policy script
	polScript  *space.Node // [0, keyhash a]
	asset      []byte
	seed       int64
}

func outNode(form int, addr []byte, value *space.Node) *space.Node {
	if form == formMap {
		return OutMap(addr, value)
	}
	return OutLegacy(addr, value)
}

// build assembles transaction + stub for a case. ok=false: the shape is not expressible
// for this q (e.g. input funding of a negative amount) — not a case.
func (w *world) build(k caseT) (spec *TxSpec, stub *Stub, wireQs []*big.Int, ok bool) {
	stub = NewStub()
	spec = &TxSpec{Era: k.era, Fee: 1_000_000}
	if k.era == EraDijkstra {
		spec.ThreeElem = true
	}
	addrA, addrB := EnterpriseKeyAddr(0, w.keyA.Hash), EnterpriseKeyAddr(0, w.keyB.Hash)
	const adaIn, adaOut = 10_000_000, 4_000_000
	utxoForm := k.form
	addIn := func(i int, tok *big.Int) bool {
		in := TxIn{Id: FakeTxId(fmt.Sprintf("c08-in-%d", i), w.seed), Idx: uint64(i)}
		var v *space.Node
		if tok != nil && tok.Sign() > 0 {
			v = ValueMA(adaIn, w.policy, w.asset, space.U(tok.Uint64()))
		} else {
			v = ValueCoin(adaIn)
		}
		if err := stub.AddUtxo(k.era, in, outNode(utxoForm, addrA, v)); err != nil {
			panic(fmt.Sprintf("stub utxo (%s): %v", k, err))
		}
		spec.Inputs = append(spec.Inputs, in)
		return true
	}
	mkQ := func(q *big.Int) *space.Node { return qNode(q, k.enc) }
	switch k.shape {
	case shapeInputs:
		if k.q.Sign() < 0 || k.q.Cmp(two65) > 0 {
			return nil, nil, nil, false // negative: no UTxO can fund it; > 2^65: would need more than 4 UTxOs of a valid ledger state
		}
		qn := mkQ(k.q)
		if qn == nil {
			return nil, nil, nil, false
		}
		// split q into in-range chunks of at most 2^63 (a valid ledger state cannot hold more than 2^64-1 per entry)
		rest := new(big.Int).Set(k.q)
		i := 0
		if rest.Sign() == 0 {
			addIn(0, nil)
			i = 1
		}
		for rest.Sign() > 0 {
			c := new(big.Int).Set(rest)
			if c.Cmp(maxU64) > 0 {
				c.Set(two63)
			}
			addIn(i, c)
			rest.Sub(rest, c)
			i++
		}
		spec.Outputs = []*space.Node{
			outNode(k.form, addrB, ValueMA(adaOut, w.policy, w.asset, qn)),
			outNode(k.form, addrA, ValueCoin(uint64(i)*adaIn-adaOut-spec.Fee)),
		}
		wireQs = []*big.Int{k.q}
	case shapeMint:
		if k.q.Sign() == 0 {
			return nil, nil, nil, false
		}
		qn := mkQ(k.q)
		if qn == nil {
			return nil, nil, nil, false
		}
		addIn(0, nil)
		// mint entry: plain int when it fits the CDDL's int64, else bignum
		mq := qNode(k.q, encBig)
		if k.q.IsInt64() {
			mq = qNode(k.q, encInt)
		}
		spec.Mint = space.M(space.B(w.policy), space.M(space.B(w.asset), mq))
		spec.Native = []*space.Node{w.polScript}
		spec.Outputs = []*space.Node{
			outNode(k.form, addrB, ValueMA(adaOut, w.policy, w.asset, qn)),
			outNode(k.form, addrA, ValueCoin(adaIn-adaOut-spec.Fee)),
		}
		wireQs = []*big.Int{k.q}
	case shapeUnfunded:
		if k.q.Sign() == 0 {
			return nil, nil, nil, false
		}
		qn := mkQ(k.q)
		if qn == nil {
			return nil, nil, nil, false
		}
		addIn(0, nil)
		spec.Outputs = []*space.Node{
			outNode(k.form, addrB, ValueMA(adaOut, w.policy, w.asset, qn)),
			outNode(k.form, addrA, ValueCoin(adaIn-adaOut-spec.Fee)),
		}
		wireQs = []*big.Int{k.q}
	case shapePair:
		if k.q.Sign() <= 0 {
			return nil, nil, nil, false // pairs are enumerated by |q| on the positive side
		}
		pos, neg := mkQ(k.q), mkQ(new(big.Int).Neg(k.q))
		if pos == nil || neg == nil {
			return nil, nil, nil, false
		}
		addIn(0, nil)
		spec.Outputs = []*space.Node{
			outNode(k.form, addrB, ValueMA(adaOut, w.policy, w.asset, pos)),
			outNode(k.form, addrA, ValueMA(adaIn-adaOut-spec.Fee, w.policy, w.asset, neg)),
		}
		wireQs = []*big.Int{k.q, new(big.Int).Neg(k.q)}
	}
	return spec, stub, wireQs, true
}

type result struct {
	decoded  bool
	decErr   string
	ruleErrs []string
	panics   []string
	decQs    []string // quantities as exposed by the decoded outputs
	accepted bool
	viol     bool
}

func (w *world) run(env *EraEnv, k caseT) (res result, txb []byte, ok bool) {
	spec, stub, wireQs, ok := w.build(k)
	if !ok {
		return res, nil, false
	}
	res, txb = w.runSpec(env, k, spec, stub, wireQs)
	return res, txb, true
}

// runSpec signs the (possibly re-encoded) spec, decodes it with the real decoder and runs every rule.
func (w *world) runSpec(env *EraEnv, k caseT, spec *TxSpec, stub *Stub, wireQs []*big.Int) (res result, txb []byte) {
	spec.VKeys = nil
	spec.SignWith(w.keyA)
	txb = spec.Bytes()
	tx, err := DecodeTx(k.era, txb)
	if err != nil {
		res.decErr = err.Error()
		return res, txb
	}
	res.decoded = true
	outOfRange := false
	for _, q := range wireQs {
		if !inRange(q) {
			outOfRange = true
		}
	}
	var pol common.Blake2b224
	copy(pol[:], w.policy)
	for _, o := range tx.Outputs() {
		as := o.Assets()
		if as == nil {
			continue
		}
		for _, p := range as.Policies() {
			for _, n := range as.Assets(p) {
				q := as.Asset(p, n)
				if q == nil {
					continue
				}
				res.decQs = append(res.decQs, q.String())
				if !inRange(q) {
					outOfRange = true
				}
			}
		}
	}
	for _, r := range env.RunAll(tx, 100, stub) {
		if r.Panic != nil {
			res.panics = append(res.panics, fmt.Sprintf("rule#%d panic: %v", r.Index, r.Panic))
		} else {
			res.ruleErrs = append(res.ruleErrs, fmt.Sprintf("rule#%d %T", r.Index, unwrap(r.Err)))
		}
	}
	res.accepted = len(res.ruleErrs) == 0 && len(res.panics) == 0
	res.viol = res.accepted && outOfRange
	return res, txb
}

func unwrap(e error) error {
	for {
		u, ok := e.(interface{ Unwrap() error })
		if !ok || u.Unwrap() == nil {
			return e
		}
		e = u.Unwrap()
	}
}
