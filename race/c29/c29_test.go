// Free-running race audit for C29 (not the deciding step; see DESIGN §10.6): both layers
// of the C29 harness run on several goroutines at once under the Go race detector:
// (E) script bytes written with the harness's CBOR writer -> NativeScript.UnmarshalCBOR ->
// Hash() and Evaluate() over key sets and validity intervals, (R) the same bytes as the
// only native script witness of a complete signed transaction -> real era decoder -> every
// rule of the era list, reading NativeScriptFailedError. Scripts: the four leaf kinds and
// all / any / n-of-k combinators of width 2 over them (depth <= 2). Every goroutine owns
// its keys, key sets, script bytes, transaction, stub state and protocol parameters
// (race/txba is a copy of the harness's builder). Oracle: an evaluator written from the
// ledger's timelock semantics (used where the interval bounds are present), Hash() =
// blake2b-224(0x00 ‖ script bytes); and every outcome must be a sequential caller's.
package c29

import (
	"bytes"
	"errors"
	"fmt"
	"math"
	"testing"
	"time"

	"github.com/blinklabs-io/gouroboros/ledger/allegra"
	"github.com/blinklabs-io/gouroboros/ledger/common"
	"verif/race/ra"
	. "verif/race/txba"
	"verif/space"
)

type optU struct {
	present bool
	v       uint64
}

func (o optU) String() string {
	if !o.present {
		return "absent"
	}
	return fmt.Sprint(o.v)
}

type ctxT struct {
	keys       int // bit0 = a, bit1 = b
	start, ttl optU
}

// script = own tree; leaves: 0 pubkey a, 1 pubkey b, 2 invalid_before 5, 3 invalid_hereafter 5
type script struct {
	desc string
	kind int // 0..3 leaves, 10 all, 11 any, 12 n-of-k
	m    uint64
	kids []script
}

func (s script) node(a, b *Key) *space.Node {
	switch s.kind {
	case 0:
		return space.A(space.U(0), space.B(a.Hash))
	case 1:
		return space.A(space.U(0), space.B(b.Hash))
	case 2:
		return space.A(space.U(4), space.U(5))
	case 3:
		return space.A(space.U(5), space.U(5))
	}
	var ks []*space.Node
	for _, k := range s.kids {
		ks = append(ks, k.node(a, b))
	}
	switch s.kind {
	case 10:
		return space.A(space.U(1), space.A(ks...))
	case 11:
		return space.A(space.U(2), space.A(ks...))
	}
	return space.A(space.U(3), space.U(s.m), space.A(ks...))
}

// ref: the ledger's evalTimelock
func (s script) ref(c ctxT) bool {
	switch s.kind {
	case 0:
		return c.keys&1 != 0
	case 1:
		return c.keys&2 != 0
	case 2:
		return c.start.present && 5 <= c.start.v
	case 3:
		return c.ttl.present && c.ttl.v <= 5
	}
	n := uint64(0)
	for _, k := range s.kids {
		if k.ref(c) {
			n++
		}
	}
	switch s.kind {
	case 10:
		return n == uint64(len(s.kids))
	case 11:
		return n >= 1
	}
	return n >= s.m
}

func universe() []script {
	leaves := []script{{desc: "sig(a)", kind: 0}, {desc: "sig(b)", kind: 1}, {desc: "before(5)", kind: 2}, {desc: "hereafter(5)", kind: 3}}
	out := append([]script{}, leaves...)
	comb := func(pool []script) []script {
		var r []script
		pairs := [][2]int{{0, 1}, {0, 2}, {2, 3}, {1, 3}}
		for _, p := range pairs {
			if p[0] >= len(pool) || p[1] >= len(pool) {
				continue
			}
			ks := []script{pool[p[0]], pool[p[1]]}
			d := ks[0].desc + "," + ks[1].desc
			r = append(r, script{desc: "all[" + d + "]", kind: 10, kids: ks}, script{desc: "any[" + d + "]", kind: 11, kids: ks},
				script{desc: "1of[" + d + "]", kind: 12, m: 1, kids: ks}, script{desc: "2of[" + d + "]", kind: 12, m: 2, kids: ks})
		}
		return r
	}
	d1 := comb(leaves)
	out = append(out, d1...)
	out = append(out, script{desc: "all[]", kind: 10}, script{desc: "any[]", kind: 11}, script{desc: "0of[]", kind: 12, m: 0})
	// depth 2: combinators over two depth-1 scripts
	out = append(out, comb([]script{d1[0], d1[5], d1[10], d1[15]})...)
	return out
}

func TestRaceAudit(t *testing.T) {
	var ctxs []ctxT
	for keys := 0; keys < 4; keys++ {
		for _, iv := range [][2]optU{{{true, 4}, {true, 6}}, {{true, 5}, {true, 5}}, {{true, 6}, {true, 4}}, {{}, {true, 5}}, {{true, 5}, {}}, {{}, {}}} {
			ctxs = append(ctxs, ctxT{keys, iv[0], iv[1]})
		}
	}
	var cases []ra.Case
	for si, sc := range universe() {
		sc := sc
		// layer E
		cases = append(cases, ra.Case{Key: fmt.Sprintf("Evaluate|%02d:%s", si, sc.desc), PerG: true, Fn: func(g int) string {
			seed := int64(90 + g)
			a, b := NewKey("a", seed), NewKey("b", seed)
			enc := sc.node(a, b).Encode()
			ns := &common.NativeScript{}
			if err := ns.UnmarshalCBOR(append([]byte(nil), enc...)); err != nil {
				return ra.OracleFail + " canonical script rejected: " + err.Error()
			}
			h := ns.Hash()
			if !bytes.Equal(h[:], B224(append([]byte{0}, enc...))) {
				return ra.OracleFail + " Hash() is not blake2b-224(00 ‖ script bytes)"
			}
			res := make([]byte, 0, len(ctxs))
			for _, c := range ctxs {
				ks := map[common.Blake2b224]bool{}
				if c.keys&1 != 0 {
					ks[common.Blake2b224(a.Hash)] = true
				}
				if c.keys&2 != 0 {
					ks[common.Blake2b224(b.Hash)] = true
				}
				s, e := uint64(0), uint64(math.MaxUint64)
				if c.start.present {
					s = c.start.v
				}
				if c.ttl.present {
					e = c.ttl.v
				}
				got := ns.Evaluate(5, s, e, ks)
				if c.start.present && c.ttl.present && got != sc.ref(c) {
					return ra.OracleFail + fmt.Sprintf(" keys=%d start=%s ttl=%s: Evaluate=%v, ledger semantics %v", c.keys, c.start, c.ttl, got, sc.ref(c))
				}
				if got {
					res = append(res, 1)
				} else {
					res = append(res, 0)
				}
			}
			return ra.Sum(enc, h[:], res)
		}})
	}
	// layer R: a slice of the scripts inside transactions of every era that has native scripts
	us := universe()
	for _, era := range []int{EraAllegra, EraMary, EraAlonzo, EraBabbage, EraConway, EraDijkstra} {
		for _, si := range []int{0, 2, 3, 4, 9, 14, 23} {
			era, si := era, si
			sc := us[si]
			cases = append(cases, ra.Case{Key: fmt.Sprintf("UtxoValidateNativeScripts|%s|%02d:%s", EraNames[era], si, sc.desc), PerG: true, Fn: func(g int) string {
				seed := int64(90 + g)
				a, b := NewKey("a", seed), NewKey("b", seed)
				enc := sc.node(a, b).Encode()
				env, stub := NewEraEnv(era), NewStub()
				in := TxIn{Id: FakeTxId("c29-in", seed), Idx: 0}
				if err := stub.AddUtxo(era, in, Out(era, EnterpriseKeyAddr(0, a.Hash), ValueCoin(3_000_000))); err != nil {
					return "audit: stub utxo: " + err.Error()
				}
				var parts []any
				for _, c := range []ctxT{{3, optU{true, 4}, optU{true, 6}}, {1, optU{true, 6}, optU{true, 4}}, {2, optU{true, 5}, optU{true, 5}}, {0, optU{}, optU{}}} {
					s := &TxSpec{Era: era, Inputs: []TxIn{in}, Fee: 1_000_000, ThreeElem: era == EraDijkstra,
						Outputs: []*space.Node{Out(era, EnterpriseKeyAddr(0, b.Hash), ValueCoin(2_000_000))}}
					if c.start.present {
						s.Start = U64(c.start.v)
					}
					if c.ttl.present {
						s.TTL = U64(c.ttl.v)
					}
					if c.keys&1 != 0 {
						s.SignWith(a)
					}
					if c.keys&2 != 0 {
						s.SignWith(b)
					}
					s.Native = []*space.Node{space.Raw(enc)}
					txb := s.Bytes()
					tx, err := DecodeTx(era, txb)
					if err != nil {
						return ra.OracleFail + " canonical transaction rejected by the decoder: " + err.Error()
					}
					got := true
					for _, r := range env.RunAll(tx, 5, stub) {
						var nsf allegra.NativeScriptFailedError
						if r.Err != nil && errors.As(r.Err, &nsf) {
							got = false
						}
					}
					if c.start.present && c.ttl.present && got != sc.ref(c) {
						return ra.OracleFail + fmt.Sprintf(" keys=%d start=%s ttl=%s: rules accept=%v, ledger semantics %v", c.keys, c.start, c.ttl, got, sc.ref(c))
					}
					parts = append(parts, txb, got)
				}
				return ra.Sum(parts...)
			}})
		}
	}
	ra.Run(t, 4, 3, 6*time.Second, cases)
}
