// Free-running race audit for C28 (not the deciding step; see DESIGN §10.6): the C28
// pipeline (transaction with a chosen set of vkey / bootstrap witnesses written with the
// harness's CBOR writer -> real era decoder -> every rule of the era list, reading the
// signature family) runs on several goroutines at once under the Go race detector over a
// slice of the contexts (eras, key / script / Byron inputs, collateral, required signers,
// bootstrap witness variants) x witness sets (none, the valid ones, signature over another
// body, wrong vkey, bit-flipped). Every goroutine owns its universe of keys, its
// transaction, stub state and protocol parameters (gen.go / race/txba are copies of the
// harness's builder and oracle). Acceptance must coincide with the five conditions of the
// property and with a sequential caller's outcome.
package c28

import (
	"fmt"
	"testing"
	"time"

	"verif/race/ra"
	. "verif/race/txba"
	"verif/space"
)

func newWorld(g int) *world {
	seed := int64(70 + g)
	w := &world{seed: seed, attrs: []byte{0xa0}}
	for i := range w.keys {
		w.keys[i] = NewKey(fmt.Sprintf("k%d", i), seed)
	}
	w.kb = NewKey("kb", seed)
	w.kbCC = B256([]byte(fmt.Sprintf("verif-chaincode/%d", seed)))
	w.script = B224(append([]byte{0}, space.A(space.U(0), space.B(w.keys[2].Hash)).Encode()...))
	for i := range w.ins {
		w.ins[i] = TxIn{Id: FakeTxId(fmt.Sprintf("c28-in-%d", i), seed), Idx: uint64(i)}
	}
	for i := range w.col {
		w.col[i] = TxIn{Id: FakeTxId(fmt.Sprintf("c28-col-%d", i), seed), Idx: uint64(i)}
	}
	return w
}

func TestRaceAudit(t *testing.T) {
	var ctxs []ctxT
	for _, era := range []int{EraShelley, EraAllegra, EraMary, EraAlonzo, EraBabbage, EraConway, EraDijkstra} {
		ctxs = append(ctxs, ctxT{era, 1 << inK0, 0, 0, bwNone}, ctxT{era, 1<<inK0 | 1<<inK1, 0, 0, bwNone},
			ctxT{era, 1<<inK0 | 1<<inByron, 0, 0, bwValid}, ctxT{era, 1 << inByron, 0, 0, bwWrongCC}, ctxT{era, 1<<inScript | 1<<inByron, 0, 0, bwBitflip})
		if era >= EraAlonzo {
			ctxs = append(ctxs, ctxT{era, 1 << inK0, 2, 0, bwNone}, ctxT{era, 1 << inK1, 1, 3, bwNone}, ctxT{era, 1 << inK0, 3, 1, bwNone})
		}
	}
	// witness sets: {}, V0, V0+V1+V2, V1+B0, V0+F2
	bit := func(k, kind int) int { return 1 << (k*4 + kind) }
	wsets := []int{0, bit(0, wValid), bit(0, wValid) | bit(1, wValid) | bit(2, wValid),
		bit(1, wValid) | bit(0, wOtherBody), bit(0, wValid) | bit(2, wBitflip)}
	var cases []ra.Case
	for _, c := range ctxs {
		c := c
		cases = append(cases, ra.Case{Key: "signatures|" + c.String(), PerG: true, Fn: func(g int) string {
			w := newWorld(g)
			env := NewEraEnv(c.era)
			sr := findSigRules(env)
			p := w.prepare(c)
			var parts []any
			for _, ws := range wsets {
				dec, acc, errs, txb := p.observe(env, sr, ws)
				if !dec {
					return ra.OracleFail + fmt.Sprintf(" witnesses %s: well-formed transaction rejected by the decoder: %v", witSetStr(ws), errs)
				}
				cond := p.conditions(ws)
				if acc != (cond == "") {
					return ra.OracleFail + fmt.Sprintf(" witnesses %s: accepted=%v but the property's conditions say %q (%v)", witSetStr(ws), acc, cond, errs)
				}
				parts = append(parts, txb, acc, fmt.Sprint(errs))
			}
			return ra.Sum(parts...)
		}})
	}
	ra.Run(t, 4, 2, 6*time.Second, cases)
}
