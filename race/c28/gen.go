// Context builder and oracle of the C28 harness (harness/c28/main.go: Byron address
// encoder, world, ctxT, prepare, conditions, findSigRules, observe), copied for the race
// audit. Changes: a stub construction failure panics instead of calling the check's
// Internal(); the universe is a field of the prepared context instead of one global
// (every goroutine of the audit owns its universe); the builder's unexported hash helpers
// are called through race/txba's exported names.
package c28

import (
	"bytes"
	"crypto/ed25519"
	"crypto/sha3"
	"fmt"
	"hash/crc32"
	"reflect"
	"runtime"
	"sort"
	"strings"

	"github.com/blinklabs-io/gouroboros/ledger/common"
	. "verif/race/txba"
	"verif/space"
)

// ---------- Byron address (own encoder, from the Byron address CDDL) ----------

// byronRoot = blake2b-224(sha3-256(cbor([0, [0, xpub], attrs])))
func byronRoot(pub, cc, attrsCbor []byte) []byte {
	xpub := append(append([]byte{}, pub...), cc...)
	pre := space.A(space.U(0), space.A(space.U(0), space.B(xpub)), space.Raw(attrsCbor)).Encode()
	h := sha3.Sum256(pre)
	return B224(h[:])
}

// byronAddr = cbor([ #6.24(bytes(cbor([root, attrs, 0]))), crc32 ])
func byronAddr(root, attrsCbor []byte) []byte {
	payload := space.A(space.B(root), space.Raw(attrsCbor), space.U(0)).Encode()
	return space.A(space.Tag(24, space.B(payload)), space.U(uint64(crc32.ChecksumIEEE(payload)))).Encode()
}

// ---------- universe ----------

type world struct {
	seed   int64
	keys   [3]*Key
	kb     *Key
	kbCC   []byte
	attrs  []byte  // CBOR of the (empty) Byron address attributes
	script []byte  // native script hash used for the script-locked UTxOs
	ins    [4]TxIn // k0, k1, script, byron
	col    [3]TxIn // k0, k2, script
}

const (
	inK0 = iota
	inK1
	inScript
	inByron
)

// witness candidates
const (
	wValid = iota
	wOtherBody
	wWrongVkey
	wBitflip
)

var wkNames = []string{"V", "B", "W", "F"}

const (
	bwNone = iota
	bwValid
	bwOtherBody
	bwWrongCC
	bwBitflip
)

var bwNames = []string{"none", "valid", "sig-over-other-body", "wrong-chain-code", "bit-flipped-sig"}

type ctxT struct {
	era    int
	inputs int // bitmask over inK0..inByron
	coll   int // 0 none, 1 k0, 2 k2, 3 script-locked
	req    int // 0 {}, 1 {k0}, 2 {k2}, 3 {k1,k2}
	boot   int
}

func (c ctxT) String() string {
	var in []string
	for i, n := range []string{"k0", "k1", "script", "byron(kb)"} {
		if c.inputs&(1<<i) != 0 {
			in = append(in, n)
		}
	}
	return fmt.Sprintf("%s/inputs={%s}/collateral=%s/required=%s/bootstrap=%s", EraNames[c.era], strings.Join(in, ","),
		[]string{"none", "k0", "k2", "script-locked"}[c.coll], []string{"{}", "{k0}", "{k2}", "{k1,k2}"}[c.req], bwNames[c.boot])
}

func witSetStr(ws int) string {
	if ws == 0 {
		return "{}"
	}
	var p []string
	for i := 0; i < 12; i++ {
		if ws&(1<<i) != 0 {
			p = append(p, fmt.Sprintf("%s%d", wkNames[i%4], i/4))
		}
	}
	return "{" + strings.Join(p, ",") + "}"
}

// prepared per context: body-dependent material
type prepared struct {
	w      *world // the universe this context was prepared in (the harness uses one global world)
	c      ctxT
	spec   *TxSpec
	stub   *Stub
	txid   []byte
	cands  [12]VKeyWit
	boot   *BootWit
	owners [][]byte // key hashes owning key-locked inputs
	byron  bool
	collOK func(hashes map[string]bool) bool
	reqs   [][]byte
}

func (w *world) prepare(c ctxT) *prepared {
	p := &prepared{c: c, stub: NewStub(), w: w}
	s := &TxSpec{Era: c.era, Fee: 1_000_000}
	if c.era == EraShelley {
		s.TTL = U64(1000)
	}
	if c.era == EraDijkstra {
		s.ThreeElem = true
	}
	outEra := c.era
	addUtxo := func(in TxIn, addr []byte, coin uint64) {
		// Byron-address and all other UTxOs use the era's plain [addr, coin] / {0:addr,1:coin} output
		if err := p.stub.AddUtxo(outEra, in, Out(outEra, addr, ValueCoin(coin))); err != nil {
			panic(fmt.Sprintf("stub utxo: %v", err))
		}
	}
	total := uint64(0)
	addrs := [4][]byte{EnterpriseKeyAddr(0, w.keys[0].Hash), EnterpriseKeyAddr(0, w.keys[1].Hash), EnterpriseScriptAddr(0, w.script), byronAddr(byronRoot(w.kb.Pub, w.kbCC, w.attrs), w.attrs)}
	type si struct {
		in TxIn
		i  int
	}
	var sel []si
	for i := 0; i < 4; i++ {
		if c.inputs&(1<<i) != 0 {
			sel = append(sel, si{w.ins[i], i})
		}
	}
	sort.Slice(sel, func(a, b int) bool { return bytes.Compare(sel[a].in.Id, sel[b].in.Id) < 0 })
	for _, x := range sel {
		s.Inputs = append(s.Inputs, x.in)
		addUtxo(x.in, addrs[x.i], 5_000_000)
		total += 5_000_000
		switch x.i {
		case inK0:
			p.owners = append(p.owners, w.keys[0].Hash)
		case inK1:
			p.owners = append(p.owners, w.keys[1].Hash)
		case inByron:
			p.byron = true
		}
	}
	s.Outputs = []*space.Node{Out(c.era, EnterpriseKeyAddr(0, w.keys[2].Hash), ValueCoin(total-s.Fee))}
	p.collOK = func(map[string]bool) bool { return true }
	switch c.coll {
	case 1:
		s.Collateral = []TxIn{w.col[0]}
		addUtxo(w.col[0], EnterpriseKeyAddr(0, w.keys[0].Hash), 5_000_000)
		p.collOK = func(h map[string]bool) bool { return h[string(w.keys[0].Hash)] }
	case 2:
		s.Collateral = []TxIn{w.col[1]}
		addUtxo(w.col[1], EnterpriseKeyAddr(0, w.keys[2].Hash), 5_000_000)
		p.collOK = func(h map[string]bool) bool { return h[string(w.keys[2].Hash)] }
	case 3:
		s.Collateral = []TxIn{w.col[2]}
		addUtxo(w.col[2], EnterpriseScriptAddr(0, w.script), 5_000_000)
		p.collOK = func(map[string]bool) bool { return false } // not owned by a key at all
	}
	switch c.req {
	case 1:
		p.reqs = [][]byte{w.keys[0].Hash}
	case 2:
		p.reqs = [][]byte{w.keys[2].Hash}
	case 3:
		p.reqs = [][]byte{w.keys[1].Hash, w.keys[2].Hash}
	}
	s.RequiredSigners = p.reqs
	p.spec = s
	p.txid = s.TxId()
	other := B256(append([]byte("another body "), p.txid...))
	for k := 0; k < 3; k++ {
		sig := ed25519.Sign(w.keys[k].Priv, p.txid)
		fl := append([]byte{}, sig...)
		fl[7] ^= 0x10
		p.cands[k*4+wValid] = VKeyWit{w.keys[k].Pub, sig}
		p.cands[k*4+wOtherBody] = VKeyWit{w.keys[k].Pub, ed25519.Sign(w.keys[k].Priv, other)}
		p.cands[k*4+wWrongVkey] = VKeyWit{w.keys[(k+1)%3].Pub, sig}
		p.cands[k*4+wBitflip] = VKeyWit{w.keys[k].Pub, fl}
	}
	if c.boot != bwNone {
		sig := ed25519.Sign(w.kb.Priv, p.txid)
		bw := &BootWit{Pub: w.kb.Pub, Sig: sig, ChainCode: w.kbCC, Attrs: w.attrs}
		switch c.boot {
		case bwOtherBody:
			bw.Sig = ed25519.Sign(w.kb.Priv, other)
		case bwWrongCC:
			cc := append([]byte{}, w.kbCC...)
			cc[0] ^= 1
			bw.ChainCode = cc
		case bwBitflip:
			fl := append([]byte{}, sig...)
			fl[40] ^= 0x02
			bw.Sig = fl
		}
		p.boot = bw
	}
	return p
}

// conditions per the property; returns the first violated one ("" = all hold)
func (p *prepared) conditions(ws int) string {
	hashes := map[string]bool{}
	allValid := true
	for i := 0; i < 12; i++ {
		if ws&(1<<i) == 0 {
			continue
		}
		wt := p.cands[i]
		hashes[string(B224(wt.VKey))] = true
		if !ed25519.Verify(ed25519.PublicKey(wt.VKey), p.txid, wt.Sig) {
			allValid = false
		}
	}
	bootDerives := false
	if p.boot != nil {
		if !ed25519.Verify(ed25519.PublicKey(p.boot.Pub), p.txid, p.boot.Sig) {
			allValid = false
		}
		bootDerives = true // compared below against the address root
	}
	for _, o := range p.owners {
		if !hashes[string(o)] {
			return "input-owner-without-witness"
		}
	}
	if p.byron {
		ok := false
		if bootDerives {
			// the UTxO's root was derived from (kb.Pub, kbCC, attrs); the witness must derive the same
			ok = bytes.Equal(byronRoot(p.boot.Pub, p.boot.ChainCode, p.boot.Attrs), p.byronRootWant())
		}
		if !ok {
			return "byron-input-without-deriving-bootstrap-witness"
		}
	}
	if !p.collOK(hashes) {
		return "collateral-owner-without-witness"
	}
	if !allValid {
		return "supplied-witness-does-not-verify"
	}
	for _, r := range p.reqs {
		if !hashes[string(r)] {
			return "required-signer-without-witness"
		}
	}
	return ""
}

func (p *prepared) byronRootWant() []byte {
	return byronRoot(p.w.kb.Pub, p.w.kbCC, p.w.attrs)
}

type sigRules struct {
	idx   map[int]string
	names []string
}

func ruleName(r common.UtxoValidationRuleFunc) string {
	return runtime.FuncForPC(reflect.ValueOf(r).Pointer()).Name()
}

func findSigRules(env *EraEnv) sigRules {
	sr := sigRules{idx: map[int]string{}}
	for i, r := range env.Rules {
		n := ruleName(r)
		for _, suf := range []string{"UtxoValidateSignatures", "UtxoValidateRequiredVKeyWitnesses", "UtxoValidateCollateralVKeyWitnesses"} {
			if strings.HasSuffix(n, "."+suf) {
				sr.idx[i] = suf
				sr.names = append(sr.names, suf)
			}
		}
	}
	sort.Strings(sr.names)
	return sr
}

// observe: build tx with witness subset ws, decode, run all rules, read the signature family.
func (p *prepared) observe(env *EraEnv, sr sigRules, ws int) (decoded bool, accepted bool, errs []string, txb []byte) {
	s := *p.spec
	s.VKeys = nil
	for i := 0; i < 12; i++ {
		if ws&(1<<i) != 0 {
			s.VKeys = append(s.VKeys, p.cands[i])
		}
	}
	s.Boot = nil
	if p.boot != nil {
		s.Boot = []BootWit{*p.boot}
	}
	txb = s.Bytes()
	tx, err := DecodeTx(s.Era, txb)
	if err != nil {
		return false, false, []string{err.Error()}, txb
	}
	accepted = true
	for _, r := range env.RunAll(tx, 100, p.stub) {
		if name, ok := sr.idx[r.Index]; ok {
			accepted = false
			if r.Panic != nil {
				errs = append(errs, fmt.Sprintf("%s: panic %v", name, r.Panic))
			} else {
				errs = append(errs, fmt.Sprintf("%s: %v", name, r.Err))
			}
		}
	}
	return true, accepted, errs, txb
}
