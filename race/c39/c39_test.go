// Free-running race audit for C39 (not the deciding step; see DESIGN §10.6): the KES entry
// points of the C39 harness (kes.KeyGen, Update, Sign, PublicKey, NewSumKesFromBytes +
// Verify, VerifySignedKES) run on several goroutines at once under the Go race detector:
// for depths 1..4 and 6 and several seeds every goroutine generates its OWN key, walks the
// complete Update chain (depth 6: the first 5 periods), signs at every period and verifies
// the signature at every period of the tree, for another message, a bit-flipped signature
// and another public key. Public key = the sum-composition definition (own derivation),
// unchanged by Update; a signature verifies at its own period only (the property's truth
// table); and every outcome must be a sequential caller's.
package c39

import (
	"bytes"
	"crypto/ed25519"
	"fmt"
	"testing"
	"time"

	"golang.org/x/crypto/blake2b"

	"github.com/blinklabs-io/gouroboros/kes"
	"verif/race/ra"
)

func expand(seed []byte, sep byte) []byte {
	h, _ := blake2b.New256(nil)
	h.Write([]byte{sep})
	h.Write(seed)
	return h.Sum(nil)
}

func refPub(d uint64, seed []byte) []byte {
	if d == 0 {
		return ed25519.NewKeyFromSeed(seed).Public().(ed25519.PublicKey)
	}
	l, r := refPub(d-1, expand(seed, 1)), refPub(d-1, expand(seed, 2))
	s := blake2b.Sum256(append(append([]byte{}, l...), r...))
	return s[:]
}

func verify(d uint64, sig []byte, period uint64, pk, msg []byte) bool {
	p, err := kes.NewSumKesFromBytes(d, sig)
	if err != nil {
		return false
	}
	return p.Verify(period, pk, msg)
}

func derive(tag string, g, i, n int) []byte {
	var out []byte
	for ctr := 0; len(out) < n; ctr++ {
		s := blake2b.Sum256([]byte(fmt.Sprintf("verif-C39-race|%s|%d|%d|%d", tag, g, i, ctr)))
		out = append(out, s[:]...)
	}
	return out[:n]
}

func TestRaceAudit(t *testing.T) {
	var cases []ra.Case
	for _, d := range []uint64{1, 2, 3, 4, 6} {
		for si := 0; si < 2; si++ {
			d, si := d, si
			cases = append(cases, ra.Case{Key: fmt.Sprintf("kes|depth=%d|seed=%d", d, si), PerG: true, Fn: func(g int) string {
				seed := derive("seed", g, int(d)*10+si, 32)
				sk, pk, err := kes.KeyGen(d, append([]byte(nil), seed...))
				if err != nil {
					return ra.Sum("keygen", err)
				}
				if want := refPub(d, seed); !bytes.Equal(pk, want) {
					return ra.OracleFail + fmt.Sprintf(" public key %x is not the sum-composition key %x", pk, want)
				}
				otherPk := refPub(d, derive("other", g, si, 32))
				msg, msg2 := derive("msg", g, si, 40), derive("msg2", g, si, 40)
				periods := uint64(1) << d
				walk := periods
				if d == 6 {
					walk = 5
				}
				parts := []any{pk}
				for tt := uint64(0); tt < walk; tt++ {
					if !bytes.Equal(kes.PublicKey(sk), pk) {
						return ra.OracleFail + fmt.Sprintf(" public key changed after %d updates", tt)
					}
					sig, err := kes.Sign(sk, tt, append([]byte(nil), msg...))
					if err != nil {
						return ra.OracleFail + fmt.Sprintf(" Sign at the key's own period %d: %v", tt, err)
					}
					for tv := uint64(0); tv <= periods; tv++ {
						if got := verify(d, sig, tv, pk, msg); got != (tv == tt) {
							return ra.OracleFail + fmt.Sprintf(" signature of period %d verifies=%v at period %d", tt, got, tv)
						}
					}
					if verify(d, sig, tt, pk, msg2) || verify(d, sig, tt, otherPk, msg) {
						return ra.OracleFail + fmt.Sprintf(" period %d: verifies for another message / another key", tt)
					}
					fl := append([]byte(nil), sig...)
					fl[int(tt)%len(fl)] ^= 0x04
					if verify(d, fl, tt, pk, msg) {
						return ra.OracleFail + fmt.Sprintf(" period %d: bit-flipped signature verifies", tt)
					}
					if d == 6 && !kes.VerifySignedKES(pk, tt, msg, sig) {
						return ra.OracleFail + fmt.Sprintf(" VerifySignedKES rejects the genuine signature of period %d", tt)
					}
					if tt > 0 {
						if s2, err := kes.Sign(sk, tt-1, msg); err == nil && verify(d, s2, tt-1, pk, msg) {
							return ra.OracleFail + fmt.Sprintf(" key evolved to period %d signs for period %d", tt, tt-1)
						}
					}
					parts = append(parts, sig)
					if tt+1 < periods {
						nk, err := kes.Update(sk)
						if err != nil {
							return ra.OracleFail + fmt.Sprintf(" Update at period %d: %v", tt, err)
						}
						sk = nk
					}
				}
				return ra.Sum(parts...)
			}})
		}
	}
	ra.Run(t, 4, 2, 6*time.Second, cases)
}
