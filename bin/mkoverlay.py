#!/usr/bin/env python3
"""mkoverlay.py <repo_root> <out.json> [instrumented_dir]
Writes a go build overlay that mounts /verif/rt at <repo>/verifrt and, if given, every
file below instrumented_dir over the file with the same relative path in <repo>."""
import json, os, sys
repo, out = sys.argv[1], sys.argv[2]
root = os.path.dirname(os.path.dirname(os.path.abspath(__file__)))
rep = {}
rt = os.path.join(root, 'rt')
for d, _, files in os.walk(rt):
    for f in files:
        if (f.endswith(".go") and not f.endswith("_test.go")) or f.endswith(".s"):
            rel = os.path.relpath(os.path.join(d, f), rt)
            rep[os.path.join(repo, 'verifrt', rel)] = os.path.join(d, f)
if len(sys.argv) > 3:
    inst = sys.argv[3]
    for d, _, files in os.walk(inst):
        for f in files:
            if f.endswith('.go'):
                rel = os.path.relpath(os.path.join(d, f), inst)
                rep[os.path.join(repo, rel)] = os.path.join(d, f)
json.dump({'Replace': rep}, open(out, 'w'), indent=1)
