#!/usr/bin/env python3
"""Normalises findings/known.jsonl: one JSON object per entry, each preceded by a human-readable
comment line (`# fixed: property=<id> <commit> <what failed>` / `# known: property=<id> <key>`),
sorted by property, duplicates removed. Lines starting with '#' are ignored by the checks."""
import json, os
root = os.path.dirname(os.path.dirname(os.path.abspath(__file__)))
p = os.path.join(root, 'findings', 'known.jsonl')
seen, ents = set(), []
for l in open(p):
    l = l.strip()
    if not l or l.startswith('#'):
        continue
    j = json.loads(l)
    k = (j['property'], j['key'])
    if k in seen:
        # keep the latest status
        ents = [e for e in ents if (e['property'], e['key']) != k]
    seen.add(k)
    ents.append(j)
ents.sort(key=lambda j: (j['property'], j['status'], j['key']))
with open(p, 'w') as f:
    f.write('# Known findings (status "known": genuine defects recorded, not repaired; suppress exactly their key)\n')
    f.write('# and repaired defects (status "fixed": documentation only, suppress nothing). See DESIGN.md changelog.\n')
    for j in ents:
        what = j.get('what', '').replace('\n', ' ')
        if j['status'] == 'fixed':
            f.write(f"# fixed: property={j['property']} {j.get('commit','?')} {what[:200]}\n")
        else:
            f.write(f"# known: property={j['property']} key={j['key']}\n")
        f.write(json.dumps(j, ensure_ascii=False) + '\n')
print(len(ents), 'entries;', sum(1 for e in ents if e['status']=='fixed'), 'fixed,', sum(1 for e in ents if e['status']=='known'), 'known')
