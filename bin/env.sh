# sourced by every script: offline Go environment pinned to the toolchain /repo needs
export GOFLAGS=-mod=mod GOPROXY=off GOTOOLCHAIN=local GONOSUMDB='*' GONOSUMCHECK=1 GOFLAGS=-mod=mod
_mc="$(go env GOMODCACHE 2>/dev/null)"
VGO="$_mc/golang.org/toolchain@v0.0.1-go1.25.8.linux-amd64/bin/go"
if [ ! -x "$VGO" ]; then VGO="$(command -v go1.26 || command -v go)"; fi
export VGO
export VERIF_ROOT="${VERIF_ROOT:-/verif}"
export REPO_ROOT="${REPO_ROOT:-/repo}"
