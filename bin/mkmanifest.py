#!/usr/bin/env python3
"""Regenerates MANIFEST.json from harness/*/meta.json. Properties without a harness are
listed under not_applicable with the reason recorded in bin/not_claimed.json."""
import json, os, glob, sys
root = os.path.dirname(os.path.dirname(os.path.abspath(__file__)))
props = [json.loads(l) for l in open(os.path.join(root, 'properties.jsonl')) if l.strip()]
ids = [p['id'] for p in props]
checks = []
claimed = set()
vetted = set(open(os.path.join(root, 'bin', 'claimed.txt')).read().split())
for mf in sorted(glob.glob(os.path.join(root, 'harness', 'c*', 'meta.json'))):
    m = json.load(open(mf))
    pid = m['property_id']
    if m.get('disabled') or pid not in vetted:
        continue
    claimed.add(pid)
    c = {
        'property_id': pid,
        'quick_cmd': f'bin/check {pid} --tier quick',
        'thorough_cmd': f'bin/check {pid} --tier thorough',
        'evidence_file': f'/verif/evidence/{pid}.json',
        'replay_cmd_template': f'bin/check {pid} --replay {{path}}',
        'engine': m['engine'],
        'level_claimed': {'category': m['level'], 'text': m['text'], 'design_ref': m.get('design_ref', 'DESIGN.md §5 ' + pid)},
        'level_note': m['note'],
        'technique': m['technique'],
    }
    checks.append(c)
nc = {}
p = os.path.join(root, 'bin', 'not_claimed.json')
if os.path.exists(p):
    nc = json.load(open(p))
na = []
for i in ids:
    if i not in claimed:
        na.append({'property_id': i, 'reason': nc.get(i, 'check not built yet in this tree; planned per DESIGN.md §5 (bounded exhaustive exploration applies, the harness is not finished)')})
engines = [
    {'name': 'E1 sched', 'path': 'rt/ cmd/instr/', 'kind_free_text': 'controlled scheduler on the real goroutine code (synctest bubble, build-time instrumentation by overlay), deviation-bounded DFS with happens-before state caching',
     'serves_properties': sorted(c['property_id'] for c in checks if c['engine'].startswith('E1'))},
    {'name': 'E2 space', 'path': 'space/ harness/', 'kind_free_text': 'bounded exhaustive enumeration of inputs / operation histories against independent reference models',
     'serves_properties': sorted(c['property_id'] for c in checks if c['engine'].startswith('E2'))},
    {'name': 'E3 fsm', 'path': 'fsm/', 'kind_free_text': 'explicit-state product search: real protocol state maps (via the real nextState) x independent spec automata',
     'serves_properties': sorted(c['property_id'] for c in checks if c['engine'].startswith('E3'))},
]
hooks = json.load(open(os.path.join(root, 'bin', 'hooks.json')))
man = {
    'version': 1,
    'setup_cmd': 'bin/setup',
    'hooks': hooks,
    'engines': engines,
    'checks': checks,
    'not_applicable': na,
    'notes': 'All checks: bin/check <id> --tier quick|thorough; rebuilds the harness (and, for E1/E3, re-instruments) from /repo\'s working tree on every call. Known findings: findings/known.jsonl. See DESIGN.md.',
}
json.dump(man, open(os.path.join(root, 'MANIFEST.json'), 'w'), indent=1)
print(f'{len(checks)} checks, {len(na)} not claimed')
